# builds the fact extractor (libTooling, clang 14); everything else is Python 3 standard library
CXX=clang++
LLVM_CXXFLAGS=$(shell llvm-config-14 --cxxflags)
build/vx: engine/vx/vx.cc
	mkdir -p build
	$(CXX) $(LLVM_CXXFLAGS) -std=c++17 -fno-rtti -O1 $< -o $@ /usr/lib/llvm-14/lib/libclang-cpp.so.14 /usr/lib/llvm-14/lib/libLLVM-14.so
clean:
	rm -rf build .cache
