/* positive control for R18.1 (never compiled into anything; parsed by vx on every C18 run) */
#include <stdlib.h>
static int pc_table[4] = {1,2,3,4};
static const int pc_const_table[4] = {1,2,3,4};
struct pc_holder { int *p; };

int pc_direct_static_write(int i){ pc_table[i&3] = i; return pc_table[0]; }

int pc_write_through_pointer(int i){
  struct pc_holder h;
  h.p = (int *)pc_const_table;        /* const dropped, then written */
  h.p[i&3] = 7;
  return 0;
}
static void pc_helper(int *q){ q[0] = 1; }
int pc_write_through_callee(void){ pc_helper(pc_table); return 0; }

int pc_clean_reader(int i){
  int *m = malloc(16);
  if(!m) return -1;
  m[0] = pc_const_table[i&3];
  i = m[0];
  free(m);
  return i;
}
