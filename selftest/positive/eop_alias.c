/* positive control for common.eop_alias (R16.7 / R05.12); never compiled into anything, parsed by vx on every run */
typedef struct oggpack_buffer oggpack_buffer;
extern long oggpack_read(oggpack_buffer *b,int bits);
extern long oggpack_look(oggpack_buffer *b,int bits);

int pc_byte_in_char_compared(oggpack_buffer *o,char *buf,int bytes){
  while(bytes--){
    if((*buf++=oggpack_read(o,8))==-1)return -1;      /* 0xFF wraps to -1 */
  }
  return 0;
}
int pc_short_local_sign_test(oggpack_buffer *o){
  short v=oggpack_read(o,16);
  if(v<0)return -1;                                    /* 0x8000..0xFFFF refused */
  return v;
}
int pc_explicit_cast(oggpack_buffer *o){
  if((signed char)oggpack_look(o,8)<0)return -1;
  return 0;
}
int pc_clean_wide_test(oggpack_buffer *o,char *buf){
  long c=oggpack_read(o,8);
  if(c<0)return -1;                                    /* full width: fine */
  *buf=c;
  return 0;
}
int pc_clean_int_test(oggpack_buffer *o,unsigned char *buf){
  int c=oggpack_read(o,8);
  if(c==-1)return -1;
  *buf=(unsigned char)c;
  return 0;
}
int pc_clean_narrow_store_only(oggpack_buffer *o,char *buf){
  *buf=oggpack_read(o,8);                              /* narrowing without a test: fine */
  return 0;
}
