"""K7 — position frames and sample units in vorbisfile.c (DESIGN 3.3/K7), as a tag analysis on top of K4.

Every integer value that denotes a position or a length carries a *frame*:

  Gs       granule position of a logical stream (page / packet granulepos)
  Off:L    the initial granule offset of link L            (pcmlengths[2L])
  Len      a duration in stream samples                    (pcmlengths[2L+1], block advances, samples<<hs)
  Rl:L     position relative to the start of link L's audio (Gs - Off:L)
  Pre:L    total length of the links before L               (forward sum over i<L, or total minus the links from L on)
  Pg       position in the whole physical stream            (pcm_offset, the pos arguments, Rl:L + Pre:L)
  Tot      the total length (ov_pcm_total(vf,-1)); as a position it is Pg
  K        a constant (neutral)
and a *unit*: S stream samples / D decoder-output samples (they differ by the half-rate shift `hs`).

The frame of an expression is computed from the frames of its operands by the affine rules of DESIGN 3.3; locations
(locals, vf->pcm_offset) hold the frame last stored; at control-flow joins differing frames are kept as a set, and a
set with more than one member is a frame conflict when the value is used as a position.  No value is computed: the
analysis only types the arithmetic, on every path."""
import absint
from absint import V, Hooks

NEUTRAL = 'K'

# units of decoder-state fields in the block layer (lib/block.c): S = stream (full-rate) samples, D = decoder-output samples
FIELD_UNITS = {
    ('vorbis_dsp_state', 'granulepos'): 'S', ('vorbis_block', 'granulepos'): 'S', ('private_state', 'sample_count'): 'S',
    ('vorbis_dsp_state', 'pcm_current'): 'D', ('vorbis_dsp_state', 'pcm_returned'): 'D', ('vorbis_dsp_state', 'centerW'): 'D',
}
ARRAY_UNITS = {('codec_setup_info', 'blocksizes'): 'S'}


def fjoin(a, b):
    """frames are frozensets of frame names; K is neutral"""
    if a is None:
        return b
    if b is None:
        return a
    r = (a | b)
    if len(r) > 1:
        r = r - {NEUTRAL}
    return frozenset(r)


def one(f):
    return frozenset([f])


_HS_PARAMS = {}


def _syntactic_hs(P, G, e, depth=0):
    """is expression e of function G the half-rate flag (a halfrate_p call, the flag field, a local every definition of which is
    one of those, or a parameter of G that is itself always given the flag)"""
    n = G.ex[G.strip_casts(e)]
    if n['k'] == 'call' and n['callee'].get('d') in ('vorbis_synthesis_halfrate_p', 'ov_halfrate_p'):
        return True
    if n['k'] == 'member' and n.get('field') == 'halfrate_flag':
        return True
    if n['k'] == 'ref' and n['decl'].get('kind') == 'param' and depth < 3:
        return n['decl'].get('id') in hs_params(P, G, depth + 1)
    if n['k'] == 'ref' and n['decl'].get('kind') == 'var' and depth < 3:
        vid = n['decl']['id']
        ds = []
        for q in G.pos:
            x = G.ex[q]
            if x['k'] == 'decl':
                ds += [v['init'] for v in x['vars'] if v.get('id') == vid and v.get('init')]
            elif x['k'] == 'assign':
                l = G.ex[G.strip_casts(x['c'][0])]
                if l['k'] == 'ref' and l['decl'].get('id') == vid:
                    if x['op'] != '=':
                        return False
                    ds.append(x['c'][1])
        return bool(ds) and all(_syntactic_hs(P, G, d, depth + 1) for d in ds)
    return False


def hs_params(P, F, depth=0):
    """ids of the integer parameters of a file-local function that receive the half-rate flag at every call site"""
    key = P.key(F)
    if key in _HS_PARAMS:
        return _HS_PARAMS[key]
    _HS_PARAMS[key] = set()
    if not F.static or depth > 2:
        return set()
    sites = []
    for G in P.functions():
        if G.file != F.file:
            continue
        for c in G.calls(F.name):
            if key in P.call_targets(G, c):
                sites.append((G, c))
    out = set()
    if sites:
        for i, p_ in enumerate(F.params):
            if p_.get('t') not in ('int', 'long'):
                continue
            if all(i < len(G.ex[c]['c']) and _syntactic_hs(P, G, G.ex[c]['c'][i], depth) for (G, c) in sites):
                out.add(p_['id'])
    _HS_PARAMS[key] = out
    return out


class Frames(Hooks):
    """tag analysis; results: self.stores = [(eid, key, frame set, unit set)] for stores to tracked sinks,
    self.compares = [(eid, lhs frames, rhs frames)], self.unit_errors = [(eid, message)]"""

    def __init__(self, P, F, linkform=None):
        self.P, self.F = P, F
        self.stores = []
        self.compares = []
        self.unit_errors = []
        self.clamps = []         # (eid, key, frame set the location held) for stores of the constant 0 over a typed value
        self.field_stores = []   # (eid, unit of the field, unit set stored) for stores to FIELD_UNITS fields
        self.reads = []          # (call eid, unit set of the count argument) for vorbis_synthesis_read
        self.loops = absint.cfg.loops(F)
        self.hs_vars = set(hs_params(P, F))     # locals holding the half-rate flag (and parameters that always receive it)
        self.linkkeys = {}       # link expression text -> K4 location key
        self._prefix_loops()

    # -- structure: loops that build prefix(L) ----------------------------------------------------
    def _prefix_loops(self):
        """induction info of simple counting loops: header -> (var id, 'up'|'down', bound text)"""
        F = self.F
        self.ind = {}
        for h, body in self.loops.items():
            t = F.blocks[h].get('term')
            if not t or t.get('cond') is None:
                continue
            c = F.ex[F.strip_casts(t['cond'])]
            if c['k'] != 'bin':
                continue
            a, b = (F.ex[F.strip_casts(x)] for x in c['c'])
            if c['op'] in ('<', '<=') and a['k'] == 'ref':
                self.ind[h] = (a['decl'].get('id'), 'up', F.s(F.strip_casts(c['c'][1])))
            elif c['op'] in ('>=', '>') and a['k'] == 'ref':
                self.ind[h] = (a['decl'].get('id'), 'down', F.s(F.strip_casts(c['c'][1])))

    def loop_of(self, e):
        """innermost counting loop containing node e: (var id, dir, bound) or None"""
        pb = self.F.pos.get(e)
        if pb is None:
            return None
        best = None
        for h, body in self.loops.items():
            if pb[0] in body and h in self.ind:
                if best is None or len(body) < len(self.loops[best]):
                    best = h
        return self.ind[best] if best is not None else None

    # -- state ------------------------------------------------------------------------------------
    def on_entry(self, A, env):
        fr = {}
        un = {}
        for p in self.F.params:
            if p['name'] in ('pos', 'milliseconds') and 'int' in p['t'] or p['name'] == 'pos':
                fr[f'v{p["id"]}'] = one('Pg')
                un[f'v{p["id"]}'] = one('S')
        env['$fr'] = fr
        env['$un'] = un
        return env

    def join_special(self, k, a, b):
        if k in ('$fr', '$un'):
            a, b = a or {}, b or {}
            out = {}
            for x in set(a) | set(b):
                out[x] = fjoin(a.get(x), b.get(x))
            return out
        return a if a == b else None

    # -- frames of expressions ----------------------------------------------------------------------
    def link_text(self, A, idx):
        """pcmlengths[idx]: (parity, link expression text) for idx = 2*L, 2*L+1, L*2+1 ..."""
        F = self.F
        n = F.ex[F.strip_casts(idx)]
        off = 0
        if n['k'] == 'bin' and n['op'] == '+':
            a, b = (F.strip_casts(x) for x in n['c'])
            if F.ex[b]['k'] == 'int':
                off = F.ex[b]['v']
                n = F.ex[a]
            elif F.ex[a]['k'] == 'int':
                off = F.ex[a]['v']
                n = F.ex[b]
        if n['k'] == 'int':
            v = n['v'] + off
            return v % 2, str(v // 2)
        if n['k'] == 'bin' and n['op'] == '*':
            a, b = (F.strip_casts(x) for x in n['c'])
            if F.ex[b]['k'] == 'int' and F.ex[b]['v'] == 2:
                L = a
            elif F.ex[a]['k'] == 'int' and F.ex[a]['v'] == 2:
                L = b
            else:
                return None, None
            txt = F.s(L)
            if F.ex[L]['k'] in ('ref', 'member'):
                k = A.path(L)
                if k:
                    self.linkkeys[txt] = k
            return off % 2, self._shift(txt, off // 2)
        return None, None

    @staticmethod
    def _shift(txt, k):
        return txt if k == 0 else f'({txt}+{k})'

    def same_link(self, env, la, lb):
        """two link expressions denote the same link: same text, or the K4 equality aliases relate their locations
        (vf->current_link=link; or the branch link==vf->current_link)"""
        if la == lb:
            return True
        eq = env.get('$eq') or {}
        ka, kb = self.linkkeys.get(la), self.linkkeys.get(lb)
        if ka and kb and (eq.get(ka) == kb or eq.get(kb) == ka):
            return True
        return False

    def frame(self, A, env, e):
        """(frame set, unit set) of expression e"""
        F = self.F
        n = F.ex[e]
        k = n['k']
        c = n.get('c', [])
        fr, un = env.get('$fr') or {}, env.get('$un') or {}
        if k == 'int':
            return one(NEUTRAL), None
        if k == 'cast':
            return self.frame(A, env, c[0])
        if k == 'ref':
            if n['decl'].get('id') in self.hs_vars:
                return one(NEUTRAL), one('hs')
            key = A.path(e, env)
            return fr.get(key), un.get(key)
        if k == 'member':
            f = n.get('field')
            rec = n.get('record')
            if f == 'halfrate_flag':
                return one(NEUTRAL), one('hs')
            if rec == 'OggVorbis_File' and f == 'pcm_offset':
                key = A.path(e, env)
                if key in fr:
                    return fr[key], one('S')
                return one('Pg'), one('S')
            if f == 'granulepos' and rec in ('ogg_packet',):
                return one('Gs'), one('S')
            if (rec, f) in FIELD_UNITS:
                return None, one(FIELD_UNITS[(rec, f)])
            key = A.path(e, env)
            return fr.get(key), un.get(key)
        if k == 'sub':
            b = F.ex[F.strip_casts(c[0])]
            if b['k'] == 'member' and b.get('record') == 'OggVorbis_File' and b.get('field') == 'pcmlengths':
                par, L = self.link_text(A, c[1])
                if par == 0:
                    return one(f'Off:{L}'), one('S')
                if par == 1:
                    return one(f'Len:{L}'), one('S')
                return one('?pcmlengths'), one('S')
            if b['k'] == 'member' and (b.get('record'), b.get('field')) in ARRAY_UNITS:
                return None, one(ARRAY_UNITS[(b.get('record'), b.get('field'))])
            return None, None
        if k == 'call':
            d = n['callee'].get('d')
            if d == 'ogg_page_granulepos':
                return one('Gs'), one('S')
            if d == 'ov_pcm_total':
                a1 = F.ex[F.strip_casts(c[1])] if len(c) > 1 else None
                if a1 is not None and ((a1['k'] == 'int' and a1['v'] == -1) or (a1['k'] == 'un' and a1['op'] == '-')):
                    return one('Tot'), one('S')
                return one('Len:' + F.s(F.strip_casts(c[1]))), one('S')
            if d in ('vorbis_synthesis_pcmout', 'vorbis_synthesis_lapout'):
                return one('Len'), one('D')
            if d in ('vorbis_info_blocksize', 'vorbis_packet_blocksize'):
                return one('Len'), one('S')
            if d == 'vorbis_synthesis_halfrate_p':
                return one(NEUTRAL), one('hs')
            return None, None
        if k == 'cond':
            fa, ua = self.frame(A, env, c[1])
            fb, ub = self.frame(A, env, c[2])
            return fjoin(fa, fb), fjoin(ua, ub)
        if k == 'assign':
            return self.frame(A, env, c[1]) if n['op'] == '=' else self.combine(A, env, e, n['op'][:-1], c[0], c[1])
        if k == 'comma':
            return self.frame(A, env, c[1])
        if k == 'un':
            if n['op'] in ('-', '+'):
                f, u = self.frame(A, env, c[0])
                return (one(NEUTRAL) if f == one(NEUTRAL) else f), u
            if n['op'] in ('post++', 'post--', 'pre++', 'pre--'):
                return self.frame(A, env, c[0])
            return None, None
        if k == 'bin':
            return self.combine(A, env, e, n['op'], c[0], c[1])
        return None, None

    def _uerr(self, A, item):
        if A.final:
            self.unit_errors.append(item)

    def is_hs(self, A, env, e):
        F = self.F
        n = F.ex[F.strip_casts(e)]
        if n['k'] == 'ref' and n['decl'].get('id') in self.hs_vars:
            return True
        if n['k'] == 'call' and n['callee'].get('d') == 'vorbis_synthesis_halfrate_p':
            return True
        if n['k'] == 'bin' and n['op'] == '+':
            return any(self.is_hs(A, env, x) for x in n['c'])
        if n['k'] == 'member' and n.get('field') == 'halfrate_flag':
            return True
        return False

    def combine(self, A, env, e, op, ea, eb):
        fa, ua = self.frame(A, env, ea)
        fb, ub = self.frame(A, env, eb)
        # units
        u = None
        if op == '*':
            # X*(1<<hs) is the shift X<<hs written as a product
            for x_, y_ in ((ea, eb), (eb, ea)):
                yn = self.F.ex[self.F.strip_casts(y_)]
                if yn['k'] == 'bin' and yn['op'] == '<<' and self.is_hs(A, env, yn['c'][1]):
                    one_ = self.F.ex[self.F.strip_casts(yn['c'][0])]
                    if one_['k'] == 'int' and one_.get('v') == 1:
                        return self.combine(A, env, e, '<<', x_, yn['c'][1])
        if op in ('<<', '>>') and self.is_hs(A, env, eb):
            if ua is not None:
                if op == '<<':
                    if ua == one('S'):
                        self._uerr(A, (e, 'a stream-sample quantity is shifted left by the half-rate flag (already in stream samples)'))
                    u = one('S')
                else:
                    if ua == one('D'):
                        self._uerr(A, (e, 'a decoder-output-sample quantity is shifted right by the half-rate flag (already in output samples)'))
                    u = one('D')
            return fa, u
        if op in ('<<', '>>', '*', '/'):
            return (fa if fa and fa != one(NEUTRAL) and all(x.startswith('Len') for x in fa) else (fa if fb == one(NEUTRAL) and op in ('<<', '>>') else None)), ua
        if op in ('+', '-'):
            if ua and ub and ua != ub and 'hs' not in ua | ub:
                self._uerr(A, (e, f'{self.F.s(e)}: adds/subtracts a quantity in {sorted(ua)} and one in {sorted(ub)} without the '
                                         'half-rate shift'))
            if ua and ub and (ua == one('hs')) != (ub == one('hs')) and (ua | ub) & {'S', 'D'}:
                self._uerr(A, (e, f'{self.F.s(e)}: the half-rate flag is added to / subtracted from a sample count (the conversion '
                                  'between stream and output samples is the plain shift; a rounding term changes which samples are '
                                  'trimmed)'))
            u = ua or ub
            if u == one('hs') and (ua and ub):
                u = (ua | ub) - {'hs'} or u
            return self.affine(A, env, e, op, fa, fb), u
        if op in ('<', '>', '<=', '>=', '==', '!='):
            if fa and fb:
                if A.final:
                    self.compares.append((e, fa, fb))
            if ua and ub and ua != ub and 'hs' not in ua | ub:
                self._uerr(A, (e, f'{self.F.s(e)}: compares a quantity in {sorted(ua)} with one in {sorted(ub)} without the half-rate shift'))
            return one(NEUTRAL), None
        return None, None

    def affine(self, A, env, e, op, fa, fb):
        if fa is None and fb is None:
            return None
        if fa is None or fa == one(NEUTRAL):
            return fb if op == '+' else (fb if fb is None or all(x.startswith('Len') or x == NEUTRAL for x in fb) else frozenset('?neg' for x in fb))
        if fb is None or fb == one(NEUTRAL):
            return fa
        out = set()
        lp = self.loop_of(e)
        for a in fa:
            for b in fb:
                out.add(self.affine1(op, a, b, lp, env))
        return frozenset(out)

    def affine1(self, op, a, b, lp, env=None):
        # an ill-typed value stays what it is (absorbing: keeps the domain finite)
        if a.startswith(('!', '?')):
            return a
        if b.startswith(('!', '?')):
            return b
        ka, _, la = a.partition(':')
        kb, _, lb = b.partition(':')
        if kb == 'Len':
            # adding the lengths of the links below L, one per iteration, builds prefix(L)
            if lp is not None and lb and op == '+' and lp[1] == 'up':
                ivar = self.F.vars.get(lp[0], {}).get('name')
                if lb == ivar:
                    return a        # one term of prefix(bound); the loop's exit edge promotes the frame
            if lp is not None and lb and op == '-' and lp[1] == 'down' and ka in ('Tot', 'Pre'):
                ivar = self.F.vars.get(lp[0], {}).get('name')
                if lb == ivar:
                    return f'Pre:{ivar}'
            if ka in ('Tot',):
                return 'Pg' if not lb else f'!Tot{op}Len:{lb}'
            return a            # a duration moves a position inside its frame
        if ka == 'Len':
            if op == '+' and kb != 'Len':
                return b
            return 'Len' if kb == 'Len' else f'!Len{op}{b}'
        if op == '-':
            if ka == 'Gs' and kb == 'Off':
                return f'Rl:{lb}'
            if ka == 'Pg' and kb == 'Pre':
                return f'Rl:{lb}'
            if ka == 'Pg' and kb == 'Tot':
                return 'Len'
            if ka == kb and la == lb:
                return 'Len'
            if ka in ('Pg', 'Tot') and kb in ('Pg', 'Tot'):
                return 'Len'
            return f'!{a}-{b}'
        if op == '+':
            if ka == 'Rl' and kb == 'Off' and self.same_link(env or {}, la, lb):
                return 'Gs'
            if ka == 'Off' and kb == 'Rl' and self.same_link(env or {}, la, lb):
                return 'Gs'
            if ka == 'Rl' and kb == 'Pre' and self.same_link(env or {}, la, lb):
                return 'Pg'
            if ka == 'Pre' and kb == 'Rl' and self.same_link(env or {}, la, lb):
                return 'Pg'
            return f'!{a}+{b}'
        return f'!{a}{op}{b}'

    # -- loop exits: a finished prefix loop turns a link-relative position into a global one -------------
    def _acc_keys(self, A):
        """loop header -> set of location keys that the loop increases by pcmlengths[2*i+1] (i its induction variable)"""
        if hasattr(self, '_acc'):
            return self._acc
        F = self.F
        out = {}
        for h, body in self.loops.items():
            if h not in self.ind or self.ind[h][1] != 'up':
                continue
            ivar = F.vars.get(self.ind[h][0], {}).get('name')
            for n, (b, _) in F.pos.items():
                if b not in body:
                    continue
                nd = F.ex[n]
                if nd['k'] == 'assign' and nd['op'] == '+=':
                    r = F.ex[F.strip_casts(nd['c'][1])]
                    if r['k'] == 'sub':
                        bb = F.ex[F.strip_casts(r['c'][0])]
                        if bb['k'] == 'member' and bb.get('field') == 'pcmlengths':
                            par, L = self.link_text(A, r['c'][1])
                            if par == 1 and L == ivar:
                                k = A.path(nd['c'][0])
                                if k:
                                    out.setdefault(h, set()).add(k)
        self._acc = out
        return out

    def _down_exit(self, A, env, cond):
        """natural exit of the descending link search `for(link=links-1;link>=0;link--){total-=len[link]; if(pos>=total)break;}`:
        whatever is left of the total is the prefix of the (exhausted) link variable"""
        F = self.F
        for h, body in self.loops.items():
            if h not in self.ind or self.ind[h][1] != 'down':
                continue
            t = F.blocks[h].get('term')
            if not t or t.get('cond') != cond:
                continue
            ivar = F.vars.get(self.ind[h][0], {}).get('name')
            fr = dict(env.get('$fr') or {})
            for n, (b, _) in F.pos.items():
                if b not in body:
                    continue
                nd = F.ex[n]
                if nd['k'] == 'assign' and nd['op'] == '-=':
                    k = A.path(nd['c'][0])
                    f = fr.get(k)
                    if k and f and any(x == 'Tot' or x.startswith('Pre:') for x in f):
                        fr[k] = frozenset((f'Pre:{ivar}' if (x == 'Tot' or x.startswith('Pre:')) else x) for x in f)
            env['$fr'] = fr

    def on_edge(self, A, env, cond, truth):
        if truth:
            return
        self._down_exit(A, env, cond)
        acc = self._acc_keys(A)
        for h, keys in acc.items():
            t = self.F.blocks[h].get('term')
            if not t or t.get('cond') != cond:
                continue
            bound = self.ind[h][2]
            fr = dict(env.get('$fr') or {})
            for k in keys:
                f = fr.get(k)
                if k.endswith('->pcm_offset') and f is None:
                    f = one('Pg')
                new = set()
                for x in (f or one(NEUTRAL)):
                    kx, _, lx = x.partition(':')
                    if kx == 'Rl' and lx == bound:
                        new.add('Pg')
                    elif x == NEUTRAL or kx == 'Pre':
                        new.add(f'Pre:{bound}')
                    elif x.startswith(('!', '?')):
                        new.add(x)
                    else:
                        new.add(f'!{x}+prefix({bound})')
                fr[k] = frozenset(new)
            env['$fr'] = fr

    # -- stores -----------------------------------------------------------------------------------
    def on_store(self, A, env, e, key, val):
        F = self.F
        nd = A.ex[e]
        if key is None:
            return None
        if nd['k'] == 'assign':
            f, u = self.frame(A, env, e)
            tgt = nd['c'][0]
        elif nd['k'] == 'decl':
            f = u = None
            tgt = None
            for v in nd['vars']:
                if 'id' in v and f'v{v["id"]}' == key and v.get('init'):
                    f, u = self.frame(A, env, v['init'])
                    if self.is_hs(A, env, v['init']):
                        self.hs_vars.add(v['id'])
        else:
            return None
        if nd['k'] == 'assign' and nd['op'] == '=' and self.is_hs(A, env, nd['c'][1]):
            l = F.ex[F.strip_casts(nd['c'][0])]
            if l['k'] == 'ref':
                self.hs_vars.add(l['decl'].get('id'))
        fr = dict(env.get('$fr') or {})
        un = dict(env.get('$un') or {})
        # a clamp to a constant keeps the frame the location had (if(x<0)x=0)
        if f == one(NEUTRAL) and key in fr and fr[key] and fr[key] != one(NEUTRAL):
            cv = val.const() if isinstance(val, V) else None
            if cv == 0:
                f = fr[key]
                u = un.get(key)
                if A.final:
                    self.clamps.append((e, key, f))
        if f is None:
            fr.pop(key, None)
        else:
            fr[key] = f
        if u is None:
            un.pop(key, None)
        else:
            un[key] = u
        env['$fr'] = fr
        env['$un'] = un
        if tgt is not None:
            l = F.ex[F.strip_casts(tgt)]
            if l['k'] == 'member' and l.get('record') == 'OggVorbis_File' and l.get('field') == 'pcm_offset':
                if A.final:
                    self.stores.append((e, f, u, val.const() if isinstance(val, V) else None))
            if l['k'] == 'member' and (l.get('record'), l.get('field')) in FIELD_UNITS and A.final:
                fu = FIELD_UNITS[(l.get('record'), l.get('field'))]
                self.field_stores.append((e, fu, u))
                if u and u != one(fu) and 'hs' not in u:
                    self._uerr(A, (e, f'{F.s(e)}: a quantity in {sorted(u)} is stored into {l.get("field")}, which is kept in '
                                      f'{"stream" if fu == "S" else "decoder-output"} samples'))
        return None

    def on_node(self, A, env, e, v):
        nd = A.ex[e]
        if A.final and nd['k'] == 'bin' and nd['op'] in ('<', '>', '<=', '>=', '==', '!='):
            self.combine(A, env, e, nd['op'], nd['c'][0], nd['c'][1])

    def on_call(self, A, env, e, avals):
        nd = A.ex[e]
        if nd['callee'].get('d') == 'vorbis_synthesis_read' and len(nd.get('c', [])) > 1:
            f, u = self.frame(A, env, nd['c'][1])
            if A.final:
                self.reads.append((e, u))
        return None


def _seekable(A, env):
    for k, x in env.items():
        if isinstance(k, str) and k.endswith('->seekable') and isinstance(x, V):
            if x.const() == 0:
                return 'unseekable'
            if x.lo > 0 or x.hi < 0 or 0 in x.ne:
                return 'seekable'
    return None


def analyse(P, F):
    """-> (Analyzer, Frames hook, exit frames): exit frames = [(return eid, seekable partition, frame set of vf->pcm_offset
    or None when the function did not store it on that path)]"""
    h = Frames(P, F)
    A = absint.Analyzer(P, F, hooks=h, partition=_seekable)
    A.run()
    exits = []
    for (e, env, v) in A.ret_states:
        fr = env.get('$fr') or {}
        f = None
        for k, x in fr.items():
            if k.endswith('->pcm_offset'):
                f = x
        exits.append((e, _seekable(A, env), f, v))
    return A, h, exits


# ----------------------------------------------------------------------------------------------------
# rule entry points
OK_POSITION = ('Pg', 'Tot', 'K')


def _position_ok(f):
    return all(x in OK_POSITION or x.startswith('Pre:') for x in f)


def _pcm_offset_writers(P):
    out = []
    for F in P.functions():
        if not F.file.endswith('vorbisfile.c'):
            continue
        for n in F.pos:
            nd = F.ex[n]
            if nd['k'] == 'assign':
                l = F.ex[F.strip_casts(nd['c'][0])]
                if l['k'] == 'member' and l.get('record') == 'OggVorbis_File' and l.get('field') == 'pcm_offset':
                    r = F.ex[F.strip_casts(nd['c'][1])]
                    if not (r['k'] == 'int' or (r['k'] == 'un' and r['op'] == '-')):
                        out.append(F)
                        break
    return out


_CACHE = {}


def _run(P, F):
    k = P.key(F)
    if k not in _CACHE:
        _CACHE[k] = analyse(P, F)
    return _CACHE[k]


def c07(chk, P):
    chk.rule('R07.5', 'position-frame consistency: every function of vorbisfile.c that stores a computed value into vf->pcm_offset '
             'leaves, at each of its exits on a seekable stream, a value in the frame "position in the whole physical stream": '
             'obtained from a granule position by subtracting THAT link\'s initial granule offset (pcmlengths[2L]) and adding the '
             'total length of the links before it (the forward sum over i<L of pcmlengths[2i+1], or the total minus the links '
             'from L on), on every path; constants (-1, 0 clamps), the total, and advances by durations keep the frame.  The '
             'arithmetic is typed, not evaluated')
    ws = _pcm_offset_writers(P)
    chk.require(len(ws) >= 5, f'only {len(ws)} functions store a computed pcm_offset')
    for F in ws:
        A, h, exits = _run(P, F)
        k = P.key(F)
        bad = {}
        n_ok = 0
        for (e, part, f, v) in exits:
            if f is None or part == 'unseekable':
                continue
            if _position_ok(f):
                n_ok += 1
            else:
                bad.setdefault(frozenset(x for x in f if not (x in OK_POSITION or x.startswith('Pre:'))), []).append(e)
        if not bad:
            chk.ob('R07.5', k, 'pcm_offset-in-physical-stream-frame', True, F.where(),
                   f'{n_ok} exit states with a stored position, all in frame Pg; stores typed: {len({s[0] for s in h.stores})}')
        for fs, es in bad.items():
            chk.ob('R07.5', k, 'pcm_offset-in-physical-stream-frame', False, F.where(es[0]),
                   f'at the return on line(s) {sorted({F.loc(x) for x in es})} vf->pcm_offset may hold a value of frame {sorted(fs)} '
                   '(Gs = raw granule position, Rl:L = relative to link L, "!a+b" = ill-typed sum): on some path the initial granule '
                   'offset of the link is not subtracted, or the lengths of the earlier links are not added')
    chk.floor('R07.5', 4)


def r07_11(chk, P):
    chk.rule('R07.11', 'a position is clamped at the start of its link, not at the start of the file: wherever vorbisfile.c replaces a '
             'negative sample position by 0 (a store of the constant 0 controlled by a `< 0` test of the same location), the '
             'location holds a link-relative value or a duration (frames Rl:L, Len, Gs) -- never a whole-stream position Pg, to '
             'which the lengths of the earlier links have already been added: in a link other than the first a value that fell '
             'below the link start is still positive there, escapes the clamp, and the position reported after the seek lies in '
             'the previous link')
    from rules import common
    n = 0
    for F in _pcm_offset_writers(P):
        A, h, exits = _run(P, F)
        seen = set()
        for (e, key, f) in h.clamps:
            if e in seen:
                continue
            nd = F.ex[e]
            if nd['k'] != 'assign':
                continue
            tgt = F.s(F.strip_casts(nd['c'][0]))
            conds = common.controlling_conditions(F, e)
            neg = False
            for c, pol in conds:
                cn = F.ex[F.strip_casts(c)]
                if cn['k'] == 'bin' and cn['op'] == '<' and pol and F.s(F.strip_casts(cn['c'][0])) == tgt and common.const_val(F, cn['c'][1]) == 0:
                    neg = True
            if not neg:
                continue
            seen.add(e)
            allf = set()
            for (e2, k2_, f2) in h.clamps:
                if e2 == e:
                    allf |= set(f2)
            bad = [x for x in allf if x == 'Pg' or x == 'Tot']
            n += 1
            chk.ob('R07.11', P.key(F), f'zero-clamp-in-link-frame@{F.loc(e)}', not bad, F.where(e),
                   f'`{F.s(e)}` clamps a value of frame {sorted(allf)}' if not bad else
                   f'`{F.s(e)}` clamps a whole-stream position (frame {sorted(allf)}): the earlier links\' lengths are already added, '
                   'so a position that fell below the start of a later link is not caught')
    return n


def c08(chk, P):
    chk.rule('R08.6', 'in the seek functions every comparison between two typed positions compares like with like (granule position '
             'with granule position, physical-stream position with physical-stream position or total): the bisection target of '
             'ov_pcm_seek_page is a granule position of the link searched')
    n = 0
    for fn in ('ov_pcm_seek_page', 'ov_pcm_seek', 'ov_raw_seek'):
        F = P.need(fn)
        A, h, exits = _run(P, F)
        seen = {}
        for (e, fa, fb) in h.compares:
            fa2 = {x for x in fa if x != NEUTRAL}
            fb2 = {x for x in fb if x != NEUTRAL}
            if not fa2 or not fb2:
                continue
            ca = {('P' if (x in ('Pg', 'Tot') or x.startswith('Pre:')) else x.split(':')[0]) for x in fa2}
            cb = {('P' if (x in ('Pg', 'Tot') or x.startswith('Pre:')) else x.split(':')[0]) for x in fb2}
            ok = ca == cb and len(ca) == 1 and not any(x.startswith(('!', '?')) for x in fa2 | fb2)
            prev = seen.get(e)
            seen[e] = (ok and (prev[0] if prev else True), fa2, fb2)
        same = {}
        for e, (ok, fa2, fb2) in sorted(seen.items(), key=lambda kv: F.ex[kv[0]]['loc']):
            key = f'{"/".join(sorted(fa2))}~{"/".join(sorted(fb2))}'
            i = same.get(key, 0)
            same[key] = i + 1
            n += 1
            chk.ob('R08.6', fn, f'compare:{key}#{i}', ok, F.where(e), f'{F.s(e)[:80]}: {sorted(fa2)} against {sorted(fb2)}')
    chk.floor('R08.6', 4)


def c09(chk, P):
    return


def c20(chk, P):
    chk.rule('R20.1', 'units of measure in vorbisfile.c: quantities in decoder-output samples (results of vorbis_synthesis_pcmout/'
             'lapout, the count given to vorbis_synthesis_read) and quantities in stream samples (pcm_offset, granule positions, '
             'pcmlengths, seek targets) meet only through a shift by the half-rate flag: no addition, subtraction or comparison '
             'mixes the two, the count consumed is in output samples, and the position advance is in stream samples')
    n = 0
    for F in P.functions():
        if not F.file.endswith('vorbisfile.c'):
            continue
        uses = any(F.ex[c]['callee'].get('d') in ('vorbis_synthesis_read', 'vorbis_synthesis_pcmout', 'vorbis_synthesis_lapout')
                   for c in F.calls())
        if not uses:
            continue
        A, h, exits = _run(P, F)
        k = P.key(F)
        errs = {}
        for (e, m) in h.unit_errors:
            errs[e] = m
        chk.ob('R20.1', k, 'no-unit-mixing', not errs, F.where(sorted(errs)[0]) if errs else F.where(),
               'no expression mixes stream samples and decoder-output samples' if not errs else '; '.join(sorted(set(errs.values())))[:400])
        n += 1
        rd = {}
        for (e, u) in h.reads:
            rd[e] = (rd.get(e) or frozenset()) | (u or frozenset(['?']))
        for i, (e, u) in enumerate(sorted(rd.items(), key=lambda kv: F.ex[kv[0]]['loc'])):
            ok = u == one('D')
            chk.ob('R20.1', k, f'consumed-count-in-output-samples#{i}', ok, F.where(e),
                   f'the count passed to vorbis_synthesis_read is in {sorted(u)}')
            n += 1
        adv = {}
        for (e, f, u, c) in h.stores:
            nd = F.ex[e]
            if nd['k'] == 'assign' and nd['op'] == '+=':
                r = F.ex[F.strip_casts(nd['c'][1])]
                fr_, ur_ = None, None
                adv[e] = adv.get(e, set()) | set(u or ['?'])
        for i, (e, u) in enumerate(sorted(adv.items(), key=lambda kv: F.ex[kv[0]]['loc'])):
            ok = u == {'S'}
            chk.ob('R20.1', k, f'position-advance-in-stream-samples#{i}', ok, F.where(e), f'{F.s(e)}: advance in {sorted(u)}')
            n += 1
    chk.floor('R20.1', 8)
    r20_6(chk, P)


# a unit inconsistency of the unchanged tree that has no effect, with the reason: (function, text of the expression)
UNIT_ASSUME = {
    ('_vds_shared_init', 'store:centerW'):
        'the set-up shared by encoder and decoder stores blocksizes[1]/2 (stream samples) as the window centre; the encoder has no '
        'half-rate mode, so the two units coincide there, and on the decode side vorbis_synthesis_init calls '
        'vorbis_synthesis_restart directly afterwards, which overwrites centerW with blocksizes[1]>>(hs+1)',
    ('vorbis_synthesis_restart', '>>:centerW'):
        'centerW is already in output samples, so the value stored into pcm_current is half of what it names; the store is dead: '
        'the same function sets pcm_returned=-1 and vorbis_synthesis_blockin overwrites pcm_current (and pcm_returned) with the '
        'window centre when it finds pcm_returned==-1, before either is read',
}


def r20_6(chk, P):
    chk.rule('R20.6', 'units of measure in the block layer (lib/block.c, lib/synthesis.c): in every function that reads the '
             'half-rate flag, the decoder-output-sample fields (pcm_current, pcm_returned, centerW and locals derived from '
             'blocksizes>>hs) and the stream-sample fields (granulepos of the decoder and of the block, sample_count, '
             'blocksizes[]) meet only through a shift by the half-rate flag: no addition, subtraction, comparison or store mixes '
             'the two, on every path (flow-sensitive for locals: extra>>=hs changes the unit of extra)')
    n = 0
    for F in P.functions():
        if not F.file.endswith(('lib/block.c', 'lib/synthesis.c')):
            continue
        reads_hs = any(nd['k'] == 'member' and nd.get('field') == 'halfrate_flag' for nd in F.ex.values())
        if not reads_hs:
            continue
        A, h, exits = _run(P, F)
        k = P.key(F)
        errs = {}
        for (e, m) in h.unit_errors:
            errs.setdefault(e, m)
        for e in sorted(errs, key=lambda x: F.ex[x].get('loc') or [0, 0]):
            nd = F.ex[e]
            tag = None
            if nd['k'] in ('bin', 'assign') and nd.get('c'):
                l = F.ex[F.strip_casts(nd['c'][0])]
                if l['k'] == 'member':
                    tag = f"{'store' if nd['k'] == 'assign' else nd['op']}:{l.get('field')}"
            key = (k, tag) if (k, tag) in UNIT_ASSUME else None
            if key:
                chk.assumed('R20.6', k, f'unit:{key[1]}', F.where(e), UNIT_ASSUME[key])
                errs.pop(e)
                n += 1
        chk.ob('R20.6', k, 'no-unit-mixing', not errs, F.where(sorted(errs)[0]) if errs else F.where(),
               f'{len(h.field_stores)} stores to unit-carrying fields, no expression mixes stream samples and decoder-output samples'
               if not errs else '; '.join(sorted(set(errs.values())))[:400])
        n += 1
        for i, (e, fu, u) in enumerate(sorted(set(h.field_stores), key=lambda t: (F.ex[t[0]].get('loc') or [0, 0], t[1]))):
            pass
    chk.floor('R20.6', 4)
