"""K7 — units of measure and position frames (filled in later in the build)."""


def c08(chk, P):
    return


def c07(chk, P):
    return


def c09(chk, P):
    return


def c20(chk, P):
    return
