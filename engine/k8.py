"""K8 — bit-layout skeletons of packers and unpackers, and their comparison.

A skeleton is extracted from the structured statement tree of a function: the ordered tree of bit-field accesses
  ('F', width, role, off)      width: int | canonical expr string;  role: canonical field path ('.dim'), ('const', v),
                               ('local',) or None;  off: affine offset of the stored/loaded value w.r.t. the role
  ('L', bound, [items])        loop
  ('I', cond, [then], [else])  branch with fields in an arm
  ('SW', cond, {value: [items]})  switch
  ('SLOT', record, field)      call through a backend slot that itself packs/unpacks
Static helpers and named callees that contain bit accesses are inlined in call order.
"""
from facts import AnalysisBroken

READ = 'oggpack_read'
WRITE = 'oggpack_write'
LOOK = 'oggpack_look'


class Skel:
    def __init__(self, P, mode, slot_fields=('pack', 'unpack'), env=None):
        self.env = env or {}
        self.P = P
        self.mode = mode          # 'w' or 'r'
        self.slot_fields = slot_fields
        self._has = {}

    # -- which functions touch the bit stream --------------------------------------------------
    def has_bits(self, F, seen=None):
        k = self.P.key(F)
        if k in self._has:
            return self._has[k]
        seen = seen or set()
        if k in seen:
            return False
        seen.add(k)
        r = False
        for e in F.calls():
            nd = F.ex[e]
            d = nd['callee'].get('d')
            if d in (READ, WRITE):
                r = True
                break
            if d:
                G = self.P.get(d, F)
                if G is not None and self.has_bits(G, seen):
                    r = True
                    break
        self._has[k] = r
        return r

    # -- canonical expression strings -------------------------------------------------------------
    def canon(self, F, e, env=None):
        """expression with base variables of member accesses stripped and other locals wild-carded"""
        env = env if env is not None else self.env
        ex = F.ex
        n = ex[e]
        k = n['k']
        c = n.get('c', [])
        if k == 'int':
            return str(n['v'])
        if k == 'flt':
            return repr(n['v'])
        if k == 'ref':
            d = n['decl']
            if d['kind'] in ('var', 'param'):
                if d['id'] in env:
                    return env[d['id']]
                return '$'
            return d['name']
        if k == 'member':
            b = ex[F.strip_casts(c[0])]
            if b['k'] == 'ref' and b['decl']['kind'] in ('var', 'param'):
                if b['decl']['id'] in env:
                    return env[b['decl']['id']] + '.' + n['field']
                return '.' + n['field']
            return self.canon(F, c[0], env) + '.' + n['field']
        if k == 'sub':
            return f'{self.canon(F, c[0], env)}[{self.canon(F, c[1], env)}]'
        if k == 'un':
            op = n['op']
            if op in ('post++', 'post--'):
                return self.canon(F, c[0], env) + op[4:]
            if op in ('pre++', 'pre--'):
                return op[3:] + self.canon(F, c[0], env)
            return op + self.canon(F, c[0], env)
        if k in ('bin', 'assign'):
            return f'({self.canon(F, c[0], env)}{n["op"]}{self.canon(F, c[1], env)})'
        if k == 'cast':
            return self.canon(F, c[0], env)
        if k == 'cond':
            return f'({self.canon(F, c[0], env)}?{self.canon(F, c[1], env)}:{self.canon(F, c[2], env)})'
        if k == 'call':
            nm = n['callee'].get('d') or '.'.join(n['callee'].get('slot', ['?']))
            return f'{nm}({",".join(self.canon(F, x, env) for x in c)})'
        if k == 'comma':
            return self.canon(F, c[1], env)
        return '?'

    def affine(self, F, e):
        """e == base + off with constant off -> (base expr id, off)"""
        e = F.strip_casts(e)
        n = F.ex[e]
        if n['k'] == 'bin' and n['op'] in ('+', '-'):
            a, b = n['c']
            bv = F.ex[F.strip_casts(b)]
            if bv['k'] == 'int':
                base, off = self.affine(F, a)
                return base, off + (bv['v'] if n['op'] == '+' else -bv['v'])
            av = F.ex[F.strip_casts(a)]
            if av['k'] == 'int' and n['op'] == '+':
                base, off = self.affine(F, b)
                return base, off + av['v']
        return e, 0

    def role_of(self, F, e, env):
        """role of a value/destination expression"""
        e = F.strip_casts(e)
        n = F.ex[e]
        if n['k'] == 'int':
            return ('const', n['v'])
        if n['k'] == 'ref' and n['decl']['kind'] in ('var', 'param'):
            if n['decl']['id'] in env:
                return env[n['decl']['id']]
            return ('local', n['decl']['id'])
        if n['k'] in ('member', 'sub'):
            s = self.canon(F, e)
            if s.startswith('.') or '.' in s:
                return s
        return ('expr', self.canon(F, e))

    # -- extraction -------------------------------------------------------------------------------
    def of(self, F, depth=0, argenv=None):
        if depth > 6:
            raise AnalysisBroken('skeleton inlining too deep at ' + F.name)
        body = F.d.get('body')
        if body is None:
            raise AnalysisBroken(f'no statement tree for {F.name}')
        self.local_fields = getattr(self, 'local_fields', {})
        lf = self._local_to_field(F)
        items = self._stmt(F, body, depth, lf)
        return items

    def _local_to_field(self, F):
        """local var id -> field role it is later stored into unmodified (reader idiom `int book=read(); info->x=book`)"""
        out = {}
        modified = set()
        for n in F.pos:
            nd = F.ex[n]
            if nd['k'] == 'assign':
                lhs = F.ex[F.strip_casts(nd['c'][0])]
                if lhs['k'] == 'ref' and lhs['decl']['kind'] == 'var' and nd['op'] != '=':
                    modified.add(lhs['decl']['id'])
                if nd['op'] == '=' and lhs['k'] in ('member', 'sub'):
                    base, off = self.affine(F, nd['c'][1])
                    b = F.ex[F.strip_casts(base)]
                    if b['k'] == 'ref' and b['decl']['kind'] == 'var':
                        s = self.canon(F, F.strip_casts(nd['c'][0]))
                        if '.' in s:
                            out.setdefault(b['decl']['id'], (s, off))
            elif nd['k'] == 'un' and nd['op'] in ('pre++', 'pre--', 'post++', 'post--'):
                t = F.ex[F.strip_casts(nd['c'][0])]
                if t['k'] == 'ref' and t['decl']['kind'] == 'var':
                    modified.add(t['decl']['id'])
        for m in modified:
            out.pop(m, None)
        return out

    def _exprs_in_order(self, F, e):
        """call nodes of interest in evaluation order inside expression e"""
        out = []

        def rec(x):
            n = F.ex.get(x)
            if n is None:
                return
            k = n['k']
            if k == 'call':
                for c in n.get('c', []):
                    rec(c)
                out.append(x)
                return
            if k == 'assign':
                rec(n['c'][1])
                rec(n['c'][0])
                return
            for c in n.get('c', []):
                if c:
                    rec(c)
        rec(e)
        return out

    def _field_from_call(self, F, call, lf):
        n = F.ex[call]
        args = n['c']
        if self.mode == 'w':
            val, wid = args[1], args[2]
        else:
            val, wid = None, args[1]
        wn = F.ex[F.strip_casts(wid)]
        wexp = None
        # a width kept in a local with a single definition is that definition (`int bits=ov_ilog(n-1); read(opb,bits)`)
        for _ in range(3):
            if wn['k'] == 'ref' and wn['decl']['kind'] == 'var':
                from rules import common
                d = common.single_defs(F).get(wn['decl']['id'])
                if d is None:
                    break
                # locals in the definition that are plain copies of a scalar field, unchanged since, print as the field
                # (`const int channels=vi->channels; const int chbits=ov_ilog(channels-1);`)
                dc = common.canon_at(F, d, self, call)
                # only a definition in terms of set-up fields says more than "some local" (a width that was itself read
                # from the stream, or computed from other locals, stays a wild card)
                if '.' not in dc or READ in dc or WRITE in dc:
                    break
                wid = d
                wn = F.ex[F.strip_casts(wid)]
                wexp = dc
            else:
                break
        width = wn['v'] if wn['k'] == 'int' else (wexp if wexp is not None else self.canon(F, wid))
        if self.mode == 'w':
            base, off = self.affine(F, val)
            role = self.role_of(F, base, {})
            return ('F', width, role, off, F.loc(call))
        # reader: find destination: climb through casts and +/- const to an assignment or decl
        cur = call
        off = 0
        role = None
        while True:
            p = F.sparent.get(cur)
            if p is None:
                break
            pn = F.ex[p]
            if pn['k'] == 'cast':
                cur = p
                continue
            if pn['k'] == 'bin' and pn['op'] in ('+', '-'):
                other = pn['c'][1] if pn['c'][0] == cur else pn['c'][0]
                ov = F.ex[F.strip_casts(other)]
                if ov['k'] == 'int' and (pn['op'] == '+' or pn['c'][0] == cur):
                    off += ov['v'] if pn['op'] == '+' else -ov['v']
                    cur = p
                    continue
                break
            if pn['k'] == 'bin' and pn['op'] in ('!=', '=='):
                other = pn['c'][1] if pn['c'][0] == cur else pn['c'][0]
                ov = F.ex[F.strip_casts(other)]
                if ov['k'] == 'int':
                    role = ('const', ov['v'] - off)
                    off = 0
                break
            if pn['k'] == 'assign' and pn['op'] == '=' and pn['c'][1] == cur:
                dst = F.strip_casts(pn['c'][0])
                dn = F.ex[dst]
                if dn['k'] in ('member', 'sub'):
                    s = self.canon(F, dst)
                    role = s if '.' in s else ('local', 0)
                    break
                if dn['k'] == 'ref' and dn['decl']['kind'] in ('var', 'param'):
                    vid = dn['decl']['id']
                    # chained: int t = info->x = read()
                    cur = p
                    pp = F.sparent.get(p)
                    if pp and F.ex[pp]['k'] in ('assign',):
                        continue
                    if vid in lf:
                        role, o2 = lf[vid]
                        off += o2
                    else:
                        role = ('local', vid)
                    break
                break
            if pn['k'] == 'decl':
                for v in pn['vars']:
                    if v.get('init') == cur or (v.get('init') and cur in set(F.walk(v['init']))):
                        vid = v.get('id')
                        if vid in lf:
                            role, o2 = lf[vid]
                            off += o2
                        else:
                            role = ('local', vid)
                break
            break
        return ('F', width, role, off, F.loc(call))

    def _expr_items(self, F, e, depth, lf):
        items = []
        for call in self._exprs_in_order(F, e):
            n = F.ex[call]
            cal = n['callee']
            d = cal.get('d')
            if d == (WRITE if self.mode == 'w' else READ):
                items.append(self._field_from_call(F, call, lf))
            elif d in (READ, WRITE, LOOK):
                continue
            elif d:
                G = self.P.get(d, F)
                if G is not None and self.has_bits(G):
                    env = {}
                    for i, a in enumerate(n.get('c', [])):
                        if i < len(G.params):
                            cs = self.canon(F, a)
                            if '.' in cs and '(' not in cs and '*' not in G.params[i]['t']:
                                env[G.params[i]['id']] = cs
                    sub = Skel(self.P, self.mode, self.slot_fields, env)
                    sub._has = self._has
                    items.append(('CALL', d, sub.of(G, depth + 1), call))
            elif 'slot' in cal and cal['slot'][1] in self.slot_fields:
                items.append(('SLOT', cal['slot'][0], cal['slot'][1]))
        return items

    def _stmt(self, F, s, depth, lf):
        if s is None:
            return []
        k = s['k']
        if k == 'seq':
            out = []
            cs = list(s['c'])
            for i, c in enumerate(cs):
                # `if(c){X; continue;} REST`  ==  `if(c){X} else {REST}` (and the mirror image): the layout of one loop
                # iteration has no jump left in it
                if c and c['k'] == 'if' and i + 1 < len(cs):
                    th, el = c.get('then'), c.get('else')
                    if self._ends_iter(th) and not self._ends_iter(el):
                        rest = {'k': 'seq', 'c': ([el] if el else []) + cs[i + 1:]}
                        c2 = dict(c, then=self._drop_continue(th))
                        c2['else'] = rest
                        return out + self._stmt(F, c2, depth, lf)
                    if el is not None and self._ends_iter(el) and not self._ends_iter(th):
                        rest = {'k': 'seq', 'c': ([th] if th else []) + cs[i + 1:]}
                        c2 = dict(c, then=rest)
                        c2['else'] = self._drop_continue(el)
                        return out + self._stmt(F, c2, depth, lf)
                out += self._stmt(F, c, depth, lf)
            return out
        if k == 'continue':
            return []
        if k in ('expr', 'decl'):
            return self._expr_items(F, s['e'], depth, lf)
        if k == 'ret':
            rn = F.ex[s['e']]
            err = False
            val = None
            if rn.get('c'):
                v = F.ex[F.strip_casts(rn['c'][0])]
                if v['k'] == 'int':
                    val = v['v']
                elif v['k'] == 'un' and v['op'] == '-' and F.ex[F.strip_casts(v['c'][0])]['k'] == 'int':
                    val = -F.ex[F.strip_casts(v['c'][0])]['v']
                if val is not None and (val < 0 or (val == 0 and F.d['ret_t'].endswith('*'))):
                    err = True      # error return: the layout is abandoned, not completed
            if depth > 0 and not F.d['ret_t'].endswith('*'):
                # inside an inlined helper: the value decides which way the caller's test of the call goes
                return self._expr_items(F, s['e'], depth, lf) + [('RET', val)]
            return self._expr_items(F, s['e'], depth, lf) + [('ABORT',) if err else ('END',)]
        if k == 'goto':
            return [('ABORT',)]
        if k == 'if':
            th = self._stmt(F, s.get('then'), depth, lf)
            el = self._stmt(F, s.get('else'), depth, lf)
            return self._cond_tree(F, s['cond'], th, el, depth, lf)
        if k in ('for', 'while', 'do'):
            out = []
            if k == 'for' and s.get('init'):
                out += self._stmt(F, s['init'], depth, lf)
            ci = self._expr_items(F, s['cond'], depth, lf) if s.get('cond') else []
            body = self._stmt(F, s.get('body'), depth, lf)
            inc = self._expr_items(F, s['inc'], depth, lf) if s.get('inc') else []
            bound = None
            if s.get('cond'):
                cn = F.ex[F.strip_casts(s['cond'])]
                if cn['k'] == 'bin' and cn['op'] in ('<', '<='):
                    bound = self.canon(F, cn['c'][1]) + ('+1' if cn['op'] == '<=' else '')
                else:
                    bound = self.canon(F, s['cond'])
            inner = ci + body + inc
            if inner:
                # a test of something the loop never changes can be taken out of it: L{ A I(c){X}{Y} B } ==
                # I(c){ L{A X B} }{ L{A Y B} }  (the writer's `if(unused){for..}else{for..}` and the reader's
                # `for..{ if(unused && ..) .. }` are one layout)
                for ix, it in enumerate(inner):
                    if it[0] == 'I' and len(it) > 4 and self._invariant_in(F, it[4], s):
                        a_, b_ = inner[:ix], inner[ix + 1:]
                        out.append(('I', it[1], [('L', bound, a_ + list(it[2]) + b_)], [('L', bound, a_ + list(it[3]) + b_)]))
                        return out
                out.append(('L', bound, inner))
            return out
        if k == 'switch':
            ci = self._expr_items(F, s['cond'], depth, lf)
            cases = {}
            cur = []
            labels = []
            # the body is a seq of case/default labelled statements; fallthrough handled by label stacking

            def flush():
                nonlocal cur, labels
                for lb in labels:
                    cases[lb] = cases.get(lb, []) + cur
                cur, labels = [], []
            body = s.get('body')
            seq = body['c'] if body and body['k'] == 'seq' else ([body] if body else [])
            fall = False
            for st in seq:
                t = st
                new_labels = []
                while t and t['k'] in ('case', 'default'):
                    new_labels.append(t.get('v') if t['k'] == 'case' else 'default')
                    t = t.get('body')
                if new_labels:
                    if not fall:
                        flush()
                    labels += new_labels
                if t is not None:
                    if t['k'] == 'break':
                        flush()
                        fall = False
                        continue
                    cur += self._stmt(F, t, depth, lf)
                    fall = not self._ends(t)
                    if not fall:
                        flush()
                else:
                    fall = True
            flush()
            if any(cases.values()):
                return ci + [('SW', self.canon(F, s['cond']), cases)]
            return ci
        if k in ('case', 'default', 'label'):
            return self._stmt(F, s.get('body'), depth, lf)
        return []

    def _cond_tree(self, F, cond, th, el, depth, lf):
        """items of `if(cond) th else el`.  A bit access in a later operand of && / || is evaluated only when the earlier
        operands let it: `if(unused && !read(1))` reads the bit under `unused` only"""
        c = F.strip_casts(cond)
        nd = F.ex[c]
        if nd['k'] == 'un' and nd['op'] == '!' and self._has_access(F, nd['c'][0]) and \
                F.ex[F.strip_casts(nd['c'][0])]['k'] == 'bin' and F.ex[F.strip_casts(nd['c'][0])]['op'] in ('&&', '||'):
            return self._cond_tree(F, nd['c'][0], el, th, depth, lf)
        if nd['k'] == 'bin' and nd['op'] in ('&&', '||') and self._has_access(F, nd['c'][1]):
            a, b = nd['c']
            if nd['op'] == '&&':
                return self._cond_tree(F, a, self._cond_tree(F, b, th, el, depth, lf), el, depth, lf)
            return self._cond_tree(F, a, th, self._cond_tree(F, b, th, el, depth, lf), depth, lf)
        ci = self._expr_items(F, cond, depth, lf)
        if th or el:
            # the call whose value the condition tests (possibly negated / compared with 0), for inlined helpers
            q, pol = c, True
            cmp0 = False
            while True:
                qn = F.ex[q]
                if qn['k'] == 'un' and qn['op'] == '!':
                    q, pol = F.strip_casts(qn['c'][0]), not pol
                elif qn['k'] == 'bin' and qn['op'] in ('!=', '==') and F.ex[F.strip_casts(qn['c'][1])]['k'] == 'int' \
                        and F.ex[F.strip_casts(qn['c'][1])]['v'] == 0:
                    pol = pol if qn['op'] == '!=' else not pol
                    q = F.strip_casts(qn['c'][0])
                    cmp0 = True
                else:
                    break
            tested = (q, pol) if F.ex[q]['k'] == 'call' else None
            # `x != 0` is `x`, `x == 0` is `!x`: one canonical text for both spellings
            ctext = self.canon(F, cond)
            if cmp0:
                ctext = self.canon(F, q) if pol else '!' + self.canon(F, q)
            return ci + [('I', ctext, th, el, c, tested)]
        return ci

    def _has_access(self, F, e):
        for q in F.walk(e):
            nd = F.ex[q]
            if nd['k'] == 'call':
                d = nd['callee'].get('d')
                if d in (READ, WRITE, LOOK):
                    return True
                if d:
                    G = self.P.get(d, F)
                    if G is not None and self.has_bits(G):
                        return True
        return False

    def _ends_iter(self, t):
        if t is None:
            return False
        if t['k'] == 'continue':
            return True
        if t['k'] == 'seq' and t['c']:
            return self._ends_iter(t['c'][-1])
        return False

    def _drop_continue(self, t):
        if t is None:
            return None
        if t['k'] == 'continue':
            return {'k': 'seq', 'c': []}
        if t['k'] == 'seq' and t['c']:
            return dict(t, c=t['c'][:-1] + [self._drop_continue(t['c'][-1])])
        return t

    def _invariant_in(self, F, cond, loop_stmt):
        """cond reads only locals that the loop never assigns, and calls nothing"""
        ids = set()
        for q in F.walk(cond):
            nd = F.ex[q]
            if nd['k'] == 'call':
                return False
            if nd['k'] == 'ref' and nd['decl'].get('kind') in ('var', 'param'):
                ids.add(nd['decl'].get('id'))
            if nd['k'] in ('member', 'sub'):
                return False
        if not ids:
            return False
        exprs = []

        def collect(t):
            if not t:
                return
            for key in ('e', 'cond', 'inc'):
                if t.get(key) is not None and not isinstance(t.get(key), dict):
                    exprs.append(t[key])
            for key in ('then', 'else', 'body', 'init'):
                if isinstance(t.get(key), dict):
                    collect(t[key])
            for c_ in t.get('c', []) or []:
                if isinstance(c_, dict):
                    collect(c_)
        collect(loop_stmt)
        for e in exprs:
            for q in F.walk(e):
                nd = F.ex[q]
                tgt = None
                if nd['k'] == 'assign':
                    tgt = nd['c'][0]
                elif nd['k'] == 'un' and nd['op'] in ('pre++', 'pre--', 'post++', 'post--', '&'):
                    tgt = nd['c'][0]
                elif nd['k'] == 'decl':
                    if any(v.get('id') in ids for v in nd.get('vars', [])):
                        return False
                if tgt is not None:
                    l = F.ex[F.strip_casts(tgt)]
                    if l['k'] == 'ref' and l['decl'].get('id') in ids:
                        return False
        return True

    def _ends(self, t):
        """does statement t end the switch arm (break / return / goto at its tail)?"""
        if t is None:
            return False
        if t['k'] in ('break', 'ret', 'goto'):
            return True
        if t['k'] == 'seq' and t['c']:
            return self._ends(t['c'][-1])
        return False


# ----------------------------------------------------------------------------------------------------
# normal form: set of paths; a path is a tuple of elements; element = field tuple | ('L', frozenset(paths))
# ----------------------------------------------------------------------------------------------------
def _has_end(items):
    for it in items:
        if it[0] in ('END', 'RET'):
            return True
        if it[0] in ('L', 'CALL') and _has_end(it[2]):
            return True
        if it[0] == 'I' and (_has_end(it[2]) or _has_end(it[3])):
            return True
        if it[0] == 'SW' and any(_has_end(v) for v in it[2].values()):
            return True
    return False


def inline(items):
    out = []
    for it in items:
        if it[0] == 'CALL':
            sub = inline(it[2])
            # a return of the helper ends the helper, not the layout.  A helper whose only return is the final one is
            # spliced in; otherwise it stays a nested item: its paths continue after the call, and where the caller tests
            # the call's value the paths go the way their return value says (see _paths)
            if sub and sub[-1][0] in ('END', 'RET') and not _has_end(sub[:-1]):
                out += sub[:-1]
            elif _has_end(sub):
                out.append(('CALL', it[1], sub, it[3] if len(it) > 3 else None))
            else:
                out += sub
        elif it[0] == 'L':
            out.append(('L', it[1], inline(it[2])))
        elif it[0] == 'I':
            out.append(('I', it[1], inline(it[2]), inline(it[3])) + tuple(it[4:]))
        elif it[0] == 'SW':
            out.append(('SW', it[1], {k: inline(v) for k, v in it[2].items()}))
        else:
            out.append(it)
    return out


def normalise_writer(items):
    """value-preserving rewrites of writer skeletons (see DESIGN 3.3 K8)."""
    items0 = [_norm_item(i) for i in items]
    items = []
    for x in items0:
        if x[0] == 'SEQ':
            items += x[1]
        else:
            items.append(x)
    out = []
    i = 0
    while i < len(items):
        it = items[i]
        # N4: constant count c followed by exactly c+1 constant fields of one width == loop over count+1
        if it[0] == 'F' and isinstance(it[2], tuple) and it[2][0] == 'const' and it[3] == 0:
            c = it[2][1]
            nxt = items[i + 1:i + 2 + c]
            if 0 <= c <= 4 and len(nxt) == c + 1 and all(x[0] == 'F' and isinstance(x[2], tuple) and x[2][0] == 'const'
                                                          and x[1] == nxt[0][1] for x in nxt) \
                    and (i + 2 + c >= len(items) or not (items[i + 2 + c][0] == 'F' and items[i + 2 + c][1] == nxt[0][1]
                                                         and isinstance(items[i + 2 + c][2], tuple)
                                                         and items[i + 2 + c][2][0] == 'const')) \
                    and nxt[0][1] != it[1] and it[1] != 1:
                out.append(it)
                out.append(('L', 'const-count', [nxt[0]]))
                i += 2 + c
                continue
        # N8: a loop followed by fields identical to its whole body (same width, value and offset): the trailing copy
        # only makes the repetition count >= 1
        inner = _only_field_loop([it]) if it[0] == 'L' else None
        if inner:
            n = len(inner)
            nxt = items[i + 1:i + 1 + n]
            if len(nxt) == n and all(x[0] == 'F' and x[1:4] == y[1:4] for x, y in zip(nxt, inner)):
                out.append(it)
                i += 1 + n
                continue
        out.append(it)
        i += 1
    return out


def _only_field_loop(items):
    """items == [L(F...)] possibly nested: returns the innermost field list"""
    while len(items) == 1 and items[0][0] == 'L':
        inner = items[0][2]
        if all(x[0] == 'F' for x in inner):
            return inner
        items = inner
    return None


def _norm_item(it):
    if it[0] == 'CALL':
        return ('CALL', it[1], normalise_writer(it[2])) + tuple(it[3:])
    if it[0] == 'L':
        body = normalise_writer(it[2])
        # L(I(c,[L(x)],[])) : the inner if only skips an empty repetition
        if len(body) == 1 and body[0][0] == 'I' and not body[0][3] and len(body[0][2]) == 1 and body[0][2][0][0] == 'L':
            body = body[0][2]
        return ('L', it[1], body)
    if it[0] == 'SW':
        return ('SW', it[1], {k: normalise_writer(v) for k, v in it[2].items()})
    if it[0] == 'I':
        th, el = normalise_writer(it[2]), normalise_writer(it[3])
        # N2: if(n){ loop over n } with no else: zero-trip equivalence
        if not el and len(th) == 1 and th[0][0] == 'L' and th[0][1] is not None and it[1] in (th[0][1], f'({th[0][1]}>0)'):
            return th[0]
        # N3: degenerate else: else-arm writes the constant 0 where the then-arm writes a length X followed only by loops
        # bounded by X
        if len(el) == 1 and el[0][0] == 'F' and el[0][2] == ('const', 0) and th and th[0][0] == 'F' \
                and th[0][1] == el[0][1] and isinstance(th[0][2], str) \
                and all(x[0] == 'L' and x[1] and th[0][2] in x[1] for x in th[1:]) and len(th) > 1:
            return ('SEQ', th)
        # N6: else-arm F(a+b, X) against then-arm F(a, X), F(b, const): split (X < 2^a in the else arm)
        if len(el) == 1 and el[0][0] == 'F' and len(th) >= 2 and th[0][0] == 'F' and th[1][0] == 'F' \
                and isinstance(el[0][1], int) and isinstance(th[0][1], int) and isinstance(th[1][1], int) \
                and el[0][1] == th[0][1] + th[1][1] and el[0][2] == th[0][2] \
                and isinstance(th[1][2], tuple) and th[1][2][0] == 'const' and f'>{th[0][1]})' in it[1].replace(' ', ''):
            el = [('F', th[0][1], el[0][2], el[0][3], el[0][4]), ('F', th[1][1], ('const', 0), 0, el[0][4])]
        return ('I', it[1], th, el) + tuple(it[4:])
    return it


def paths(items, widths_only=True):
    """set of complete root-to-leaf element sequences; ifs and switches fork, loops become ('L', frozenset);
    a path reaching ('ABORT',) (goto to an error label) is dropped, one reaching ('END',) (return) is complete"""
    done, live = _paths(items, widths_only)
    return {_collapse(p) for p in (done | live)}


def _paths(items, widths_only):
    done, live, rets = _paths3(items, widths_only)
    # a RET outside a call item (a helper analysed on its own): an error value abandons the layout, anything else ends it
    for (p, v) in rets:
        if v is None or v >= 0:
            done.add(p)
    return done, live


def _cond_call(it):
    """('I', canon, th, el, cond id) -> (call eid tested, polarity) when the condition is a call or its negation"""
    return it[5] if len(it) > 5 else None


def _paths3(items, widths_only):
    """-> (done, live, rets): rets = {(path, value)} for paths that reached a return of an inlined helper"""
    done = set()
    live = {()}
    rets = set()
    i = 0
    while i < len(items):
        it = items[i]
        i += 1
        if not live:
            break
        k = it[0]
        if k == 'F':
            el = ('F', it[1]) if widths_only else it
            live = {p + (el,) for p in live}
        elif k == 'ABORT':
            live = set()
        elif k == 'END':
            done |= live
            live = set()
        elif k == 'RET':
            rets |= {(p, it[1]) for p in live}
            live = set()
        elif k == 'L':
            d2, l2, r2 = _paths3(it[2], widths_only)
            body = frozenset(_collapse(p) for p in (d2 | l2))
            body = frozenset(p for p in body if p)
            # a helper return inside a loop body leaves the loop and the helper
            rets |= {(p + q, v) for p in live for (q, v) in r2}
            if body:
                el = ('L', body)
                live = {p + (el,) for p in live}
        elif k == 'I':
            da, la, ra = _paths3(it[2], widths_only)
            db, lb, rb = _paths3(it[3], widths_only)
            done |= {p + q for p in live for q in (da | db)}
            rets |= {(p + q, v) for p in live for (q, v) in (ra | rb)}
            live = {p + q for p in live for q in (la | lb)}
        elif k == 'SW':
            d_all, l_all, r_all = set(), set(), set()
            for v, sub in it[2].items():
                d2, l2, r2 = _paths3(sub, widths_only)
                d_all |= d2
                l_all |= l2
                r_all |= r2
            if 'default' not in it[2]:
                l_all.add(())
            done |= {p + q for p in live for q in d_all}
            rets |= {(p + q, v) for p in live for (q, v) in r_all}
            live = {p + q for p in live for q in l_all}
        elif k == 'CALL':
            d2, l2, r2 = _paths3(it[2], widths_only)
            outs = {(q, None) for q in (d2 | l2)} | r2
            nxt = items[i] if i < len(items) else None
            tested = None
            if nxt is not None and nxt[0] == 'I' and len(nxt) > 5 and nxt[5] is not None and len(it) > 3 and nxt[5][0] == it[3]:
                tested = nxt[5][1]
            if tested is not None:
                # the caller branches on the helper's value: each helper path continues in the arm its value selects
                i += 1
                da, la, ra = _paths3(nxt[2], widths_only)
                db, lb, rb = _paths3(nxt[3], widths_only)
                nl = set()
                for (q, v) in outs:
                    arms = []
                    if v is None:
                        arms = [(da, la, ra), (db, lb, rb)]
                    elif (v != 0) == tested:
                        arms = [(da, la, ra)]
                    else:
                        arms = [(db, lb, rb)]
                    for (dd, ll, rr) in arms:
                        done |= {p + q + x for p in live for x in dd}
                        rets |= {(p + q + x, vv) for p in live for (x, vv) in rr}
                        nl |= {p + q + x for p in live for x in ll}
                live = nl
            else:
                # value not tested right here: an error value (negative) abandons the layout, the others go on
                live = {p + q for p in live for (q, v) in outs if v is None or v >= 0}
        elif k == 'SLOT':
            live = {p + (('SLOT', it[1]),) for p in live}
        if len(live) + len(done) + len(rets) > 50000:
            raise AnalysisBroken('skeleton path explosion')
    return done, live, rets


def _wkey(el):
    if el[0] == 'F':
        return ('F', el[1])
    if el[0] == 'L':
        return ('L', frozenset(tuple(_wkey(x) for x in p) for p in el[1]))
    return el


def _collapse(p):
    """nested single loops L(L(x)) -> L(x)"""
    p = list(p)
    changed = True
    while changed:
        changed = False
        for i, el in enumerate(p):
            if el[0] == 'L':
                nb = set()
                ch = False
                for q in el[1]:
                    if len(q) == 1 and q[0][0] == 'L':
                        nb |= set(q[0][1])
                        ch = True
                    else:
                        nb.add(q)
                if ch:
                    p[i] = ('L', frozenset(nb))
                    changed = True
                    break
    return tuple(p)


def show_path(p):
    out = []
    for el in p:
        if el[0] == 'F':
            out.append(str(el[1]))
        elif el[0] == 'L':
            out.append('{' + ' | '.join(sorted(show_path(q) for q in el[1])) + '}*')
        elif el[0] == 'SLOT':
            out.append(f'<{el[1]}>')
    return ' '.join(out)


def flat_fields(items):
    """all field items in syntactic order (for role comparison)"""
    out = []
    for it in items:
        if it[0] == 'F':
            out.append(it)
        elif it[0] == 'L':
            out += flat_fields(it[2])
        elif it[0] == 'I':
            out += flat_fields(it[2]) + flat_fields(it[3])
        elif it[0] == 'SW':
            for v in sorted(it[2], key=str):
                out += flat_fields(it[2][v])
        elif it[0] == 'CALL':
            out += flat_fields(it[2])
    return out
