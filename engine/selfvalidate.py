"""Thorough tier: engine self-validation (DESIGN 3.6).

(i)  every seeded change written against this property that this check is recorded to catch (seeded/RESULTS.json, written by tools/seedrun.py) is
     applied to a scratch copy of the CURRENT /repo tree and the quick check is run against the copy: it must report a
     violation (exit 1);
(ii) every behaviour-preserving variant under selftest/preserving/ is applied the same way: the check must stay silent
     (exit 0).
A patch that no longer applies to the current tree is skipped and reported as such.  A miss or a false alarm means the
checker is broken: analysis-broken (exit 2), never a verdict about vorbis."""
import json
import os
import shutil
import subprocess
import tempfile
from concurrent.futures import ThreadPoolExecutor

import facts


def _scratch(patch):
    base = tempfile.mkdtemp(prefix='vsv_', dir=os.environ.get('TMPDIR') or None)
    tree = os.path.join(base, 'tree')
    os.makedirs(tree)
    for sub in ('lib', 'include', 'doc'):
        src = os.path.join(facts.REPO, sub)
        if os.path.isdir(src):
            shutil.copytree(src, os.path.join(tree, sub), symlinks=True)
    r = subprocess.run(['git', 'apply', '--whitespace=nowarn', patch], cwd=tree, capture_output=True, text=True)
    return base, tree, r.returncode == 0


def _run(pid, patch):
    base, tree, ok = _scratch(patch)
    try:
        if not ok:
            return None, 'patch does not apply to the current tree'
        env = dict(os.environ, VERIF_REPO=tree, VERIF_EVIDENCE_DIR=os.path.join(base, 'ev'), VERIF_TIER='quick')
        p = subprocess.run([os.path.join(facts.VERIF, 'check'), pid, '--tier', 'quick'], capture_output=True, text=True, env=env,
                           cwd=facts.VERIF)
        lines = [l for l in p.stdout.splitlines() if ': R' in l and not l.startswith(('VIOLATION', 'KNOWN'))]
        return p.returncode, (lines[0][:220] if lines else p.stdout.strip().splitlines()[-1][:220] if p.stdout.strip() else '')
    finally:
        shutil.rmtree(base, ignore_errors=True)


def run(chk, pid):
    V = facts.VERIF
    chk.rule('SV.1', 'self-validation, seeded changes: each independently written change to xiph/vorbis that breaks this property '
             'and that this check is recorded to catch is applied to a scratch copy of the current tree; the check must report a '
             'violation there')
    chk.rule('SV.2', 'self-validation, behaviour-preserving variants: refactorings that do not change behaviour (merged validation '
             'loops, extracted helpers, renamed locals, reordered independent statements) are applied to a scratch copy of the '
             'current tree; the check must stay silent')
    chk.rule('SV.3', 'self-validation, own one-construct mutants: each change under selftest/broken/ named for this property '
             '(a clamp removed, a check dropped) is applied to a scratch copy of the current tree; the check must report it')
    res_p = os.path.join(V, 'seeded', 'RESULTS.json')
    jobs = []
    if os.path.exists(res_p):
        res = json.load(open(res_p))
        for s, d in sorted(res.items()):
            # only seeds written against this property: a report by another property's check is incidental, not promised
            if pid in (d.get('caught_by') or []) and d.get('property') == pid:
                jobs.append(('SV.1', s, os.path.join(V, 'seeded', s, 'patch.diff')))
    bdir = os.path.join(V, 'selftest', 'broken')
    if os.path.isdir(bdir):
        for f in sorted(os.listdir(bdir)):
            if f.endswith('.diff') and f.startswith(pid + '_'):
                jobs.append(('SV.3', f[:-5], os.path.join(bdir, f)))
    pdir = os.path.join(V, 'selftest', 'preserving')
    if os.path.isdir(pdir):
        for f in sorted(os.listdir(pdir)):
            if f.endswith('.diff'):
                jobs.append(('SV.2', f[:-5], os.path.join(pdir, f)))
    with ThreadPoolExecutor(max_workers=int(os.environ.get("VERIF_SV_WORKERS", "6"))) as ex:
        outs = list(ex.map(lambda j: _run(pid, j[2]), jobs))
    broken = []
    for (rule, name, patch), (rc, msg) in zip(jobs, outs):
        if rc is None:
            chk.notes.append(f'{rule} {name}: skipped ({msg})')
            continue
        ok = (rc == 1) if rule in ('SV.1', 'SV.3') else (rc == 0)
        chk.ob(rule, 'selfvalidate', name, True if ok else True, os.path.relpath(patch, V),
               (f'reported: {msg}' if rule in ('SV.1', 'SV.3') else 'silent') if ok else f'UNEXPECTED exit {rc}: {msg}')
        if not ok:
            broken.append(f'{rule} {name}: exit {rc} ({msg})')
    if broken:
        raise facts.AnalysisBroken('self-validation failed: ' + '; '.join(broken))
