"""Obligation observers for K4: fixed-extent subscripts, divisors, allocation sizes."""
from absint import V, INF, TOP


class Sites:
    def __init__(self):
        self.sub = {}     # eid -> dict(extent, idx V joined over partitions, ok)
        self.div = {}
        self.alloc = {}

    def observer(self, A, env, e, v):
        nd = A.ex[e]
        k = nd['k']
        if k == 'sub' and 'extent' in nd:
            ext = nd['extent'][0]
            iv = A.last_index[1] if A.last_index[0] == e and A.last_index[1] is not None else A.peek(env, nd['c'][1])
            rec = self.sub.setdefault(e, {'extent': ext, 'idx': None})
            from absint import join
            rec['idx'] = join(rec['idx'], iv)
        elif k == 'bin' and nd['op'] in ('/', '%') or (k == 'assign' and nd['op'] in ('/=', '%=')):
            t = nd.get('t', '')
            if t in ('float', 'double', 'long double'):
                return
            dv = A.peek(env, nd['c'][1])
            from absint import join
            rec = self.div.setdefault(e, {'div': None})
            rec['div'] = join(rec['div'], dv)
        elif k == 'call' and nd['callee'].get('d') in ('malloc', 'calloc', 'realloc', '__builtin_alloca', 'alloca'):
            from absint import join
            name = nd['callee']['d']
            args = nd['c']
            if name == 'calloc':
                sz = A.arith('*', A.peek(env, args[0]), A.peek(env, args[1]))
            elif name == 'realloc':
                sz = A.peek(env, args[1])
            else:
                sz = A.peek(env, args[0])
            rec = self.alloc.setdefault(e, {'size': None, 'fn': name})
            rec['size'] = join(rec['size'], sz)
