"""Positive/negative controls: small C files under /verif/selftest parsed with the same extractor and flags."""
import json
import os
import subprocess
import tempfile

import facts

_cache = {}


def control_program(name, sub='positive'):
    key = (sub, name)
    if key in _cache:
        return _cache[key]
    src = os.path.join(facts.VERIF, 'selftest', sub, name)
    if not os.path.exists(src):
        raise facts.AnalysisBroken(f'control file {src} missing')
    with tempfile.TemporaryDirectory() as td:
        out = os.path.join(td, 'u.json')
        r = subprocess.run([facts.VX, os.path.dirname(src), out, src, '--'] + facts.flags(), capture_output=True, text=True)
        if r.returncode != 0:
            raise facts.AnalysisBroken(f'vx failed on control {src}: {r.stderr[-500:]}')
        d = json.load(open(out))
    if d.get('errors'):
        raise facts.AnalysisBroken(f'control {src} has parse errors')
    P = facts.Program([d], repo=os.path.dirname(src))
    _cache[key] = P
    return P
