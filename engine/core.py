"""Check context: obligations, violations, known findings, evidence, exit codes."""
import json
import os
import sys
import time

from facts import VERIF, REPO, AnalysisBroken

KNOWN = os.path.join(VERIF, 'known_findings.json')
EVID = os.environ.get('VERIF_EVIDENCE_DIR') or os.path.join(VERIF, 'evidence')


class Ob:
    __slots__ = ('rule', 'fn', 'construct', 'ok', 'where', 'msg', 'status', 'path')

    def __init__(self, rule, fn, construct, ok, where, msg, status=None, path=None):
        self.rule, self.fn, self.construct, self.ok, self.where, self.msg = rule, fn, construct, ok, where, msg
        self.status = status or ('discharged' if ok else 'violated')
        self.path = path

    def as_dict(self):
        d = {'rule': self.rule, 'function': self.fn, 'construct': self.construct, 'verdict': self.status,
             'where': self.where, 'detail': self.msg}
        if self.path:
            d['path'] = self.path
        return d


class Check:
    def __init__(self, pid, tier='quick'):
        self.pid = pid
        self.tier = tier
        self.t0 = time.time()
        self.obs = []
        self.rules = {}       # rule id -> text
        self.floors = {}      # rule id -> (count, floor)
        self.assumptions = []
        self.trusted = []
        self.notes = []
        self.analysed = {}
        self.only = None      # replay filter (rule, fn, construct)
        self.broken = []      # instance-floor failures (deferred)

    # -- rule bookkeeping -----------------------------------------------------------------------
    def rule(self, rid, text):
        self.rules[rid] = text

    def ob(self, rule, fn, construct, ok, where, msg='', path=None):
        """Record one obligation. (rule, fn, construct) is its stable key: symbols, never positions."""
        o = Ob(rule, fn, construct, bool(ok), where, msg, path=path)
        self.obs.append(o)
        return o

    def assumed(self, rule, fn, construct, where, why):
        o = Ob(rule, fn, construct, True, where, 'ASSUMED: ' + why, status='assumed')
        self.obs.append(o)
        self.assumptions.append(f'{rule} {fn} {construct}: {why}')
        return o

    def floor(self, rule, minimum):
        """Fail as analysis-broken when a rule matched fewer instances than confirmed by reading."""
        n = sum(1 for o in self.obs if o.rule == rule)
        self.floors[rule] = (n, minimum)
        if n < minimum:
            # deferred: the other rules still run; if one of them reports a violation that verdict stands (exit 1), otherwise
            # the run ends as analysis-broken (exit 2) -- never as a pass
            self.broken.append(f'rule {rule}: only {n} instances examined, at least {minimum} expected '
                               f'(an anchor vanished or the rule no longer matches the code)')

    def require(self, cond, msg):
        if not cond:
            raise AnalysisBroken(msg)

    # -- finish ---------------------------------------------------------------------------------
    def finish(self, explanation, level_rule=''):
        known = []
        try:
            known = json.load(open(KNOWN)).get('findings', [])
        except FileNotFoundError:
            pass
        viol = [o for o in self.obs if not o.ok]
        new, kf = [], []
        for o in viol:
            hit = None
            for k in known:
                if k.get('status') != 'known':
                    continue
                if k['property'] == self.pid and k['rule'] == o.rule and k['key']['function'] == o.fn \
                        and k['key']['construct'] == o.construct:
                    hit = k
                    break
            if hit:
                o.status = 'known-finding'
                kf.append((o, hit))
            else:
                new.append(o)
        os.makedirs(os.path.join(EVID, 'replay'), exist_ok=True)
        for o, k in kf:
            print(f'KNOWN-FINDING: property={self.pid} {o.rule} {o.fn} {o.construct} at {o.where}: {k["what"]}')
        for i, o in enumerate(new):
            rp = os.path.join(EVID, 'replay', f'{self.pid}_{o.rule}_{i}.json')
            json.dump({'property': self.pid, 'rule': o.rule, 'function': o.fn, 'construct': o.construct,
                       'where': o.where, 'message': o.msg, 'path': o.path,
                       'rule_text': self.rules.get(o.rule, '')}, open(rp, 'w'), indent=1)
            print(f'{o.where}: {o.rule} [{o.fn}] {o.construct}: {o.msg}')
            if o.path:
                print('    path: ' + ' -> '.join(str(x) for x in o.path))
            print(f'VIOLATION property={self.pid} replay={rp}')
        per_rule = {}
        for o in self.obs:
            r = per_rule.setdefault(o.rule, {'text': self.rules.get(o.rule, ''), 'examined': 0, 'discharged': 0,
                                             'assumed': 0, 'violated': 0, 'known_findings': 0})
            r['examined'] += 1
            if o.status == 'discharged':
                r['discharged'] += 1
            elif o.status == 'assumed':
                r['assumed'] += 1
            elif o.status == 'known-finding':
                r['known_findings'] += 1
            else:
                r['violated'] += 1
        for r, (n, fl) in self.floors.items():
            per_rule.setdefault(r, {})['floor'] = fl
        # samples: a few obligations of every rule, violations first
        samples = []
        seen_rule = {}
        for o in sorted(self.obs, key=lambda o: (o.ok, o.rule)):
            c = seen_rule.get(o.rule, 0)
            if c < 4 or not o.ok:
                samples.append(o.as_dict())
                seen_rule[o.rule] = c + 1
        distinct = len({(o.rule, o.fn, o.construct) for o in self.obs})
        wall = time.time() - self.t0
        ev = {
            'property_id': self.pid,
            'tier': self.tier,
            'seed': int(os.environ.get('VERIF_SEED', '0') or 0),
            'level': 'other',
            'coverage': {
                'explanation': explanation,
                'obligations': len(self.obs),
                'discharged': sum(1 for o in self.obs if o.status == 'discharged'),
                'assumed': sum(1 for o in self.obs if o.status == 'assumed'),
                'known_findings': len(kf),
                'evaluations': max(1, len(self.obs)),
                'distinct_nontrivial': distinct,
                'rule': level_rule or 'one evaluation = one static obligation (rule instance at a named construct of the '
                        'current /repo source); distinct = distinct (rule, function, construct) keys; non-trivial = the '
                        'rule had to analyse a CFG/call graph/table to decide it (every obligation is)',
                'samples': samples[:60],
                'rules': per_rule,
                'analysed': self.analysed,
                'checker_cmd': ' '.join(sys.argv),
                'trusted_base': self.trusted,
                'exhaustive': True,
                'notes': self.notes,
            },
            'assumptions': self.assumptions[:200],
            'wall_s': round(wall, 2),
            'violations': len(new),
        }
        os.makedirs(EVID, exist_ok=True)
        json.dump(ev, open(os.path.join(EVID, f'{self.pid}.json'), 'w'), indent=1)
        nr = len(per_rule)
        if self.broken and not new:
            raise AnalysisBroken('; '.join(self.broken))
        for b in self.broken:
            print(f'NOTE property={self.pid}: {b}')
        print(f'{self.pid} [{self.tier}]: {len(self.obs)} obligations over {nr} rules; '
              f'{ev["coverage"]["discharged"]} discharged, {ev["coverage"]["assumed"]} assumed, '
              f'{len(kf)} known findings, {len(new)} violations; {wall:.1f}s')
        return 1 if new else 0
