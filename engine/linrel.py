"""Linear relational domain over integer-valued terms: finite conjunctions  sum(a_i * x_i) <= c  with exact rational
arithmetic, decided by Fourier-Motzkin elimination (no solver, no floating point).

All terms are integer-valued program quantities, so a constraint with integer coefficients is tightened to an integer
constant and the negation of  a.x <= c  is  a.x >= c+1.  The domain is used as a client of the K4 interpreter (one
polyhedron per partition of the state); it is meant for a dozen variables and a few dozen constraints.

  Poly.add(lin, c)          a.x <= c          lin: {var: coefficient}
  Poly.add_eq(lin, c)       a.x == c
  Poly.entails(lin, c)      every point satisfies a.x <= c
  Poly.empty()              no (rational) point; integer tightening is applied to every derived row
  Poly.forget(vars)         existential projection
  Poly.assign(x, lin, c)    x := a.x + c  (x may occur in lin)
  join(a, b, widen)         rows of a that b entails, plus (unless widening) rows of b that a entails
"""
from fractions import Fraction
from math import gcd

MAXROWS = 4000


def _norm(lin, c):
    """-> (tuple of (var, int coef) sorted, int const) of an equivalent integer-tightened row, or None when trivial"""
    items = [(v, Fraction(a)) for v, a in lin.items() if a != 0]
    c = Fraction(c)
    if not items:
        return ((), -1) if c < 0 else None
    den = 1
    for _, a in items:
        den = den * a.denominator // gcd(den, a.denominator)
    den = den * c.denominator // gcd(den, c.denominator)
    items = [(v, int(a * den)) for v, a in items]
    c = c * den
    g = 0
    for _, a in items:
        g = gcd(g, abs(a))
    items = tuple(sorted((v, a // g) for v, a in items))
    c = c / g
    ci = c.numerator // c.denominator      # floor: all terms are integers
    return (items, ci)


class Poly:
    __slots__ = ('rows', 'age', '_empty')

    def __init__(self, rows=None, age=0):
        self.rows = dict(rows or {})      # coefficient tuple -> tightest constant
        self.age = age
        self._empty = None

    def copy(self):
        p = Poly(self.rows, self.age)
        p._empty = self._empty
        return p

    def __eq__(self, o):
        return isinstance(o, Poly) and self.rows == o.rows

    def __ne__(self, o):
        return not self.__eq__(o)

    def __hash__(self):
        return hash(len(self.rows))

    def vars(self):
        return {v for k in self.rows for v, _ in k}

    # -- building -------------------------------------------------------------------------------------
    def _put(self, r):
        if r is None:
            return
        k, c = r
        old = self.rows.get(k)
        if old is None or c < old:
            self.rows[k] = c
            self._empty = None

    def add(self, lin, c):
        self._put(_norm(lin, c))
        return self

    def add_ge(self, lin, c):
        return self.add({v: -a for v, a in lin.items()}, -Fraction(c))

    def add_eq(self, lin, c):
        self.add(lin, c)
        return self.add_ge(lin, c)

    # -- elimination ----------------------------------------------------------------------------------
    @staticmethod
    def _eliminate(rows, x):
        pos, neg, rest = [], [], {}
        for k, c in rows.items():
            a = dict(k).get(x)
            if a is None:
                if k not in rest or c < rest[k]:
                    rest[k] = c
            elif a > 0:
                pos.append((k, c, a))
            else:
                neg.append((k, c, -a))
        for kp, cp, ap in pos:
            dp = dict(kp)
            for kn, cn, an in neg:
                dn = dict(kn)
                lin = {}
                for v, a in dp.items():
                    if v != x:
                        lin[v] = lin.get(v, 0) + Fraction(a * an)
                for v, a in dn.items():
                    if v != x:
                        lin[v] = lin.get(v, 0) + Fraction(a * ap)
                r = _norm(lin, Fraction(cp * an + cn * ap))
                if r is None:
                    continue
                k, c = r
                if k not in rest or c < rest[k]:
                    rest[k] = c
        return rest

    @staticmethod
    def _pick(rows, cand):
        best, bs = None, None
        for x in cand:
            p = n = 0
            for k in rows:
                a = dict(k).get(x)
                if a is None:
                    continue
                if a > 0:
                    p += 1
                else:
                    n += 1
            s = p * n - p - n
            if bs is None or s < bs:
                best, bs = x, s
        return best

    @staticmethod
    def _rows_empty(rows):
        rows = dict(rows)
        while True:
            if rows.get(()) is not None and rows[()] < 0:
                return True
            vs = {v for k in rows for v, _ in k}
            if not vs:
                return False
            x = Poly._pick(rows, vs)
            rows = Poly._eliminate(rows, x)
            if len(rows) > MAXROWS:
                return False          # give up: "not known to be empty" is the sound answer

    def empty(self):
        if self._empty is None:
            self._empty = self._rows_empty(self._relevant(None))
        return self._empty

    def _relevant(self, seed):
        """rows connected (through shared variables) to the variables in seed; all rows when seed is None"""
        if seed is None:
            return self.rows
        seen, out = set(seed), {}
        changed = True
        while changed:
            changed = False
            for k, c in self.rows.items():
                if k in out:
                    continue
                if not k or any(v in seen for v, _ in k):
                    out[k] = c
                    for v, _ in k:
                        if v not in seen:
                            seen.add(v)
                            changed = True
        return out

    def entails(self, lin, c):
        r = _norm(lin, c)
        if r is None:
            return True
        k, ci = r
        if k == ():
            return self.empty()
        have = self.rows.get(k)
        if have is not None and have <= ci:
            return True
        if self.empty():
            return True
        rows = dict(self._relevant({v for v, _ in k}))
        nk = tuple((v, -a) for v, a in k)
        nc = -ci - 1
        if nk not in rows or nc < rows[nk]:
            rows[nk] = nc
        return self._rows_empty(rows)

    def entails_ge(self, lin, c):
        return self.entails({v: -a for v, a in lin.items()}, -Fraction(c))

    def entails_eq(self, lin, c):
        return self.entails(lin, c) and self.entails_ge(lin, c)

    def forget(self, xs):
        xs = [x for x in xs if any(x == v for k in self.rows for v, _ in k)]
        rows = self.rows
        for x in xs:
            rows = self._eliminate(rows, x)
            if len(rows) > MAXROWS:
                rows = {k: c for k, c in rows.items() if not any(v in xs for v, _ in k)}
        self.rows = {k: c for k, c in rows.items() if not any(v in xs for v, _ in k)}
        self._empty = None
        return self

    def forget_matching(self, pred):
        return self.forget([v for v in self.vars() if pred(v)])

    def rename(self, old, new):
        rows = {}
        for k, c in self.rows.items():
            k2 = tuple(sorted((new if v == old else v, a) for v, a in k))
            rows[k2] = c
        self.rows = rows
        return self

    def assign(self, x, lin, c=0):
        """x := lin + c"""
        tmp = '$new'
        eq = dict(lin)
        eq[tmp] = eq.get(tmp, 0) - 1
        self.add_eq(eq, -Fraction(c))          # lin - tmp == -c
        self.forget([x])
        self.rename(tmp, x)
        return self

    def bounds(self, lin):
        """(lo, hi) of a.x by projection; None where unbounded (cheap: only rows that mention exactly these variables
        after eliminating the others)"""
        t = '$obj'
        p = self.copy()
        eq = dict(lin)
        eq[t] = -1
        p.add_eq(eq, 0)
        p.forget([v for v in p.vars() if v != t])
        lo = hi = None
        for k, c in p.rows.items():
            if k == ((t, 1),):
                hi = c
            elif k == ((t, -1),):
                lo = -c
        return lo, hi

    def __repr__(self):
        out = []
        for k, c in sorted(self.rows.items(), key=str):
            out.append(' + '.join(f'{a}*{v}' if a != 1 else v for v, a in k).replace('+ -', '- ') + f' <= {c}')
        return '{' + '; '.join(out) + '}'


def join(a, b, widen=False):
    if a is None or b is None:
        return None
    if a.empty():
        return b.copy()
    if b.empty():
        return a.copy()
    out = Poly(age=max(a.age, b.age) + 1)
    for k, c in a.rows.items():
        if b.entails(dict(k), c):
            out.rows[k] = c
    if not widen:
        for k, c in b.rows.items():
            if k not in out.rows and a.entails(dict(k), c):
                out.rows[k] = c
    return out


if __name__ == '__main__':
    p = Poly()
    p.add({'R': 1}, 100).add_ge({'R': 1}, 0)            # 0 <= R <= 100
    p.add({'R': 1, 't': 1, 'm': -1}, 100)               # R + t - m <= RB(100)
    q = p.copy().assign('R', {'R': 1, 't': 1, 'm': -1})
    assert q.entails({'R': 1}, 100), q
    assert not q.entails_ge({'R': 1}, 0)
    # division: q8 = floor(e/8), e >= 0
    d = Poly().add_ge({'e': 1}, 0).add({'q': 8, 'e': -1}, 0).add({'e': 1, 'q': -8}, 7)
    assert d.entails({'q': 8, 'e': -1}, 0) and d.entails_ge({'q': 1}, 0)
    j = join(Poly().add_eq({'x': 1}, 0), Poly().add_eq({'x': 1}, 5))
    assert j.entails({'x': 1}, 5) and j.entails_ge({'x': 1}, 0) and not j.entails({'x': 1}, 4), j
    e = Poly().add({'x': 1}, 3).add_ge({'x': 1}, 4)
    assert e.empty()
    print('linrel ok')
