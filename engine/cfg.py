"""CFG utilities over Function facts: dominators, post-dominators, event-level path queries, loops."""


def _order(F):
    """Reverse post-order of reachable blocks from entry."""
    seen, out = set(), []
    # successors are taken last-first (the false/exit edge of a loop before its body), so that in the reverse
    # post-order a loop body precedes the code after the loop: the K4 worklist then stabilises a loop before it
    # propagates downstream
    st = [(F.entry, iter(reversed(F.blocks[F.entry]['succs'])))]
    seen.add(F.entry)
    while st:
        b, it = st[-1]
        adv = False
        for s in it:
            if s is not None and s not in seen:
                seen.add(s)
                st.append((s, iter(reversed(F.blocks[s]['succs']))))
                adv = True
                break
        if not adv:
            out.append(b)
            st.pop()
    return list(reversed(out))


def rpo(F):
    if not hasattr(F, '_rpo'):
        F._rpo = _order(F)
    return F._rpo


def dominators(F):
    """block -> set of dominating blocks (including itself), reachable blocks only."""
    if hasattr(F, '_dom'):
        return F._dom
    order = rpo(F)
    allb = set(order)
    dom = {b: set(allb) for b in order}
    dom[F.entry] = {F.entry}
    changed = True
    while changed:
        changed = False
        for b in order:
            if b == F.entry:
                continue
            ps = [p for p in F.preds[b] if p in allb]
            new = set(allb)
            for p in ps:
                new &= dom[p]
            new = new | {b}
            if new != dom[b]:
                dom[b] = new
                changed = True
    F._dom = dom
    return dom


def postdominators(F):
    """block -> set of post-dominating blocks w.r.t. the CFG exit (blocks that cannot reach exit get all)."""
    if hasattr(F, '_pdom'):
        return F._pdom
    blocks = [b for b in F.reach]
    allb = set(blocks)
    pd = {b: set(allb) for b in blocks}
    pd[F.exit] = {F.exit}
    changed = True
    while changed:
        changed = False
        for b in blocks:
            if b == F.exit:
                continue
            ss = [s for s in F.blocks[b]['succs'] if s is not None and s in allb]
            if not ss:
                continue
            new = set(allb)
            for s in ss:
                new &= pd[s]
            new = new | {b}
            if new != pd[b]:
                pd[b] = new
                changed = True
    F._pdom = pd
    return pd


def pos_dominates(F, a, b):
    """Does the evaluation of node a dominate the evaluation of node b?"""
    pa, pb = F.pos.get(a), F.pos.get(b)
    if pa is None or pb is None:
        return False
    if pa[0] == pb[0]:
        return pa[1] < pb[1] or (pa[1] == pb[1] and a != b)
    return pa[0] in dominators(F).get(pb[0], ())


def loops(F):
    """Natural loops: header -> set of blocks."""
    if hasattr(F, '_loops'):
        return F._loops
    dom = dominators(F)
    res = {}
    for b in F.reach:
        for s in F.blocks[b]['succs']:
            if s is not None and s in dom.get(b, ()):   # back edge b -> s
                body = res.setdefault(s, {s})
                st = [b]
                while st:
                    x = st.pop()
                    if x in body:
                        continue
                    body.add(x)
                    for p in F.preds[x]:
                        if p in F.reach:
                            st.append(p)
    F._loops = res
    return res


def search(F, start, is_target, is_block, edge_ok=None):
    """Is there a CFG path from position `start`=(block, idx) (exclusive) on which a node n with is_target(n)
    is evaluated before any node with is_block(n)?  Returns the list of blocks of a witness path, or None.
    Nodes are visited in evaluation order (block element order).  start=None means function entry.
    edge_ok(block, succ_index) may prune edges."""
    if start is None:
        start = (F.entry, -1)
    # per-block ordered node lists
    if not hasattr(F, '_bynodes'):
        by = {b: [] for b in F.blocks}
        for n, (b, i) in F.pos.items():
            by[b].append((i, n))
        for b in by:
            by[b].sort()
        F._bynodes = by
    by = F._bynodes
    b0, i0 = start
    seen = set()
    st = [(b0, i0, [b0])]
    while st:
        b, i, path = st.pop()
        blocked = False
        for idx, n in by[b]:
            if idx <= i:
                continue
            if is_target(n):
                return path
            if is_block(n):
                blocked = True
                break
        if blocked:
            continue
        for si, s in enumerate(F.blocks[b]['succs']):
            if s is None or s in seen:
                continue
            if edge_ok is not None and not edge_ok(b, si):
                continue
            seen.add(s)
            st.append((s, -1, path + [s]))
    return None


def reaches_exit_avoiding(F, start, is_block, edge_ok=None):
    """Path from start to the function exit block that evaluates no blocking node. Returns path or None."""
    if start is None:
        start = (F.entry, -1)
    if not hasattr(F, '_bynodes'):
        search(F, start, lambda n: False, lambda n: False)
    by = F._bynodes
    b0, i0 = start
    seen = set()
    st = [(b0, i0, [b0])]
    while st:
        b, i, path = st.pop()
        blocked = False
        for idx, n in by[b]:
            if idx <= i:
                continue
            if is_block(n):
                blocked = True
                break
        if blocked:
            continue
        if b == F.exit:
            return path
        for si, s in enumerate(F.blocks[b]['succs']):
            if s is None or s in seen:
                continue
            if edge_ok is not None and not edge_ok(b, si):
                continue
            seen.add(s)
            st.append((s, -1, path + [s]))
    return None


def returns(F):
    """All return nodes that are evaluated."""
    return [n for n in F.pos if F.ex[n]['k'] == 'ret']


def block_lines(F, path):
    """Human-readable rendition of a block path: first source line of each block."""
    out = []
    for b in path:
        blk = F.blocks[b]
        ln = None
        for e in blk['elems']:
            ln = F.loc(e)
            if ln:
                break
        if ln is None and blk.get('term'):
            ln = blk['term']['loc'][0]
        out.append(f'B{b}@{ln}' if ln else f'B{b}')
    return out
