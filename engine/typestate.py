"""K5 clients: typestate rules of the OggVorbis_File handle for C03 (R03.1), C12 (R12.4) and C20 (R20.4)."""
import k5
from facts import AnalysisBroken
from rules import common

_SCAN = {}

# requires-live sites the finite-state abstraction cannot exclude and that were not demonstrated against the library:
# (function, construct) -> reason
ASSUME = {
    ('ov_pcm_seek', '_make_decode_ready#0:entered-at-STREAMSET-or-above'):
        'the handle can be in OPENED here only when ov_raw_seek (delegated to by ov_pcm_seek_page) met the BOS page of a stream '
        'that is not a vorbis link and the next page read failed inside this very call; the call then reports an error code, '
        'which is what the property asks of a call during which the source failed.  The ordinary path (ov_pcm_seek_page\'s own '
        'success returns) is checked separately (own-success-returns-at-STREAMSET-or-above)',
    ('ov_pcm_seek', '_make_decode_ready#0:entered-below-STREAMSET'):
        'as for the entry at STREAMSET or above: only through the delegated ov_raw_seek with a foreign BOS page and a failing read',
    ('ov_pcm_seek', 'vorbis_synthesis_pcmout#0:decoder-live'):
        'reached with the decoder dumped only if the packet-discard loop is left through a failing _get_next_page directly '
        'after the BOS page of a serial number that is not a vorbis link of the file, while the packets of the link ran out '
        'before the target (needs a multiplexed later link, an overstated end granule and an I/O error at that very read); '
        'a replay with all three did not reach it (findings/replay_seek_foreign_bos.c), so it is listed as an assumption, '
        'not as a finding',
}


def scan(P):
    """run every public vorbisfile function with a handle parameter from each consistent entry state"""
    if id(P) in _SCAN:
        return _SCAN[id(P)]
    K = k5.K5(P)
    api = {}
    for fn in common.file_api(P):
        F = P.need(fn)
        hp = K.handle_params(F)
        if not hp:
            continue
        for rs in range(5):
            entry = {gi: (rs, rs == 4, rs == 4, False) for gi in hp}
            sm = K.summary(P.key(F), entry, ())
            api[(fn, rs)] = sm
    uses, ready = {}, {}
    clears = {}
    links = {}
    for mk, h in list(K.memo.items()):
        if isinstance(mk, tuple) and len(mk) == 2 and mk[1] == 'hook':
            F = h.F
            for (e, live, rs) in getattr(h, 'link_stores', ()):
                l_ = links.setdefault((P.key(F), e), {'ok': True, 'entries': []})
                if live:
                    l_['ok'] = False
                    l_['entries'].append((mk[0][1], str(rs)))
            for (e, ok, rs) in getattr(h, 'info_clears', ()):
                c_ = clears.setdefault((P.key(F), e), {'ok': True, 'entries': []})
                if not ok:
                    c_['ok'] = False
                    c_['entries'].append((mk[0][1], str(rs)))
            for (e, d, need, ok, rs) in h.uses:
                u = uses.setdefault((P.key(F), e), {'callee': d, 'need': need, 'ok': True, 'entries': []})
                if not ok:
                    u['ok'] = False
                    u['entries'].append((mk[0][1], str(rs)))
            for (e, rs) in h.ready_calls:
                # the API-level entry state is not known here (summaries are shared); classify by this function's own entry
                ent = mk[0][1]
                low_entry = all(en[0] < k5.STREAMSET for (_, en) in ent)
                r = ready.setdefault((P.key(F), e, 'entered-below-STREAMSET' if low_entry else 'entered-at-STREAMSET-or-above'),
                                     {'ok': True, 'entries': []})
                if rs is None or rs.lo < k5.STREAMSET:
                    r['ok'] = False
                    r['entries'].append((ent, str(rs)))
    K.info_clears = clears
    K.link_stores = links
    _SCAN[id(P)] = (K, api, uses, ready)
    return _SCAN[id(P)]


def _ordinal(F, e, name):
    same = sorted(F.calls(name), key=lambda x: F.ex[x]['loc'])
    return same.index(e) if e in same else 0


def c03(chk, P):
    chk.rule('R03.1', 'typestate of the handle, finite-state and exact over (ready_state, decoder live, block live, packet queue '
             'known empty) with relational summaries of every internal function per entry state: (a) every public vorbisfile '
             'function, entered in any consistent state (ready_state==INITSET <=> vd and vb initialised), returns in a consistent '
             'state on every path; (b) every call of a decode function that dereferences the decoder or the block '
             '(vorbis_synthesis_trackonly/blockin/pcmout/lapout) is reached only with that object initialised')
    K, api, uses, ready = scan(P)
    fns = sorted({fn for (fn, rs) in api})
    for fn in fns:
        F = P.need(fn)
        bad = []
        n = 0
        for rs in range(5):
            sm = api.get((fn, rs))
            if sm is None:
                raise AnalysisBroken(f'K5: no summary for {fn} from ready_state {rs}')
            for (cls, lo, hi, ex) in sm:
                for (gi, rlo, rhi, vd, vb, qe) in ex:
                    n += 1
                    for r in range(rlo, rhi + 1):
                        if not k5.consistent(r, vd, vb):
                            bad.append(f'entered with ready_state {rs}: returns [{lo},{hi}] with ready_state {r}, vd {"live" if vd else "cleared"}, '
                                       f'vb {"live" if vb else "cleared"}')
        chk.ob('R03.1', fn, 'returns-consistent-typestate', not bad, F.where(),
               f'{n} exit states over 5 entry states, all consistent' if not bad else '; '.join(sorted(set(bad))[:3]))
    for (k, e), u in sorted(uses.items(), key=lambda kv: (kv[0][0], P.fn[kv[0][0]].ex[kv[0][1]]['loc'])):
        F = P.fn[k]
        cons = f'{u["callee"]}#{_ordinal(F, e, u["callee"])}:{"decoder" if u["need"] == "vd" else "block"}-live'
        if not u['ok'] and (k, cons) in ASSUME:
            chk.assumed('R03.1', k, cons, F.where(e), ASSUME[(k, cons)])
            continue
        chk.ob('R03.1', k, cons, u['ok'], F.where(e),
               'the object is initialised in every state that reaches the call' if u['ok'] else
               f'reached with the {"decoder" if u["need"] == "vd" else "block"} cleared (entry state / ready_state at the call: '
               f'{u["entries"][:2]}): {u["callee"]} dereferences it')
    chk.floor('R03.1', 40)
    chk.rule('R03.7', 'the link index moves only while no decoder is live: every store to vf->current_link in vorbisfile.c is reached, '
             'from every consistent entry state, only with the decoder cleared (K5 state).  The decoder was sized from the info '
             'of the link it was built for; changing the index under it makes the read functions take the channel count of '
             'another link and index the decoder\'s channel vectors with it')
    for (k, e), u in sorted(K.link_stores.items(), key=lambda kv: (kv[0][0], P.fn[kv[0][0]].ex[kv[0][1]]['loc'])):
        F = P.fn[k]
        chk.ob('R03.7', k, f'link-index-stored-with-decoder-cleared@{F.loc(e)}', u['ok'], F.where(e),
               f'`{F.s(e)}`: the decoder is cleared in every state that reaches the store' if u['ok'] else
               f'`{F.s(e)}` is reachable with the decoder live (entry state / ready_state at the store: {u["entries"][:2]}): the '
               'decoder built for one link keeps running under another link\'s info')
    chk.floor('R03.7', 3)
    chk.notes.append(f'K5: {K.runs} function analyses; recursion assumed state-preserving for {sorted(K.recursion_assumed)}')


def c12(chk, P):
    chk.rule('R12.4', 'the handle stays usable after a failure: from every consistent entry state (in particular OPENED, where a '
             'failed seek leaves the handle) every call of _make_decode_ready is reached with ready_state >= STREAMSET, i.e. its '
             '"internal logic fault" return (OV_EFAULT) is unreachable: the next seek or read can rebuild the decoder')
    K, api, uses, ready = scan(P)
    for (k, e, cls), r in sorted(ready.items(), key=lambda kv: (kv[0][0], P.fn[kv[0][0]].ex[kv[0][1]]['loc'], kv[0][2])):
        F = P.fn[k]
        cons = f'_make_decode_ready#{_ordinal(F, e, "_make_decode_ready")}:{cls}'
        if not r['ok'] and (k, cons) in ASSUME:
            chk.assumed('R12.4', k, cons, F.where(e), ASSUME[(k, cons)])
            continue
        chk.ob('R12.4', k, cons, r['ok'], F.where(e),
               'ready_state >= STREAMSET in every state that reaches the call' if r['ok'] else
               f'reachable with ready_state below STREAMSET (entry state / value at the call: {r["entries"][:2]}): the call returns '
               'OV_EFAULT although nothing is wrong with the stream')
    _own_success_returns(chk, P, K, 'ov_pcm_seek_page', 'R12.4')
    chk.floor('R12.4', 4)


def c08(chk, P):
    chk.rule('R08.10', 'a page seek that reports success has selected a stream: from every consistent entry state of the handle -- '
             'including OPENED, where a raw seek to the end of the file or a failed seek leaves it -- every literal success return '
             'of ov_pcm_seek_page is reached with ready_state >= STREAMSET (K5 typestate), so the sample-accurate seek built on '
             'it can make the decoder ready instead of failing with OV_EFAULT on an intact stream')
    K, api, uses, ready = scan(P)
    _own_success_returns(chk, P, K, 'ov_pcm_seek_page', 'R08.10')
    chk.floor('R08.10', 1)


def _own_success_returns(chk, P, K, fn, rule):
    F = P.need(fn)
    bad, n = {}, 0
    for mk, rets in list(K.memo.items()):
        if not (isinstance(mk, tuple) and len(mk) == 2 and mk[1] == 'rets' and mk[0][0] == P.key(F)):
            continue
        ent = mk[0][1]
        if not all(k5.consistent(en[0], en[1], en[2]) and en[0] >= k5.OPENED for (_, en) in ent):
            continue
        for (e, own, v, rs, gi) in rets:
            if not own or v is None or not (v.lo <= 0 <= v.hi) or 0 in v.ne:
                continue
            n += 1
            if rs is None or rs.lo < k5.STREAMSET:
                bad.setdefault(e, []).append((ent, str(rs)))
    chk.require(n > 0, f'{fn}: no own success return seen')
    rs_ = sorted({e for e in bad})
    chk.ob(rule, fn, 'own-success-returns-at-STREAMSET-or-above', not bad, F.where(rs_[0]) if rs_ else F.where(),
           f'{n} success-return states from entry states OPENED..INITSET, all with ready_state >= STREAMSET' if not bad else
           f'return on line {F.loc(rs_[0])} can report success with ready_state {bad[rs_[0]][0][1]} (entered with {bad[rs_[0]][0][0]}): the decoder '
           'cannot be rebuilt from there and the caller\'s _make_decode_ready fails with OV_EFAULT')


def c13(chk, P):
    chk.rule('R13.11', 'the set-up a live decoder refers to is not cleared under it: the handle\'s vorbis_dsp_state points at '
             'vf->vi[link] and vorbis_dsp_clear sizes its release loops from it (channels, floors, residues); every call of '
             'vorbis_info_clear on the handle\'s set-up array is reached only with the decoder already cleared (typestate K5, '
             'from every consistent entry state).  Cleared in the other order, the dsp clear finds a zeroed info, frees the outer '
             'arrays only and loses every per-channel buffer and look-up of the link')
    K, api, uses, ready = scan(P)
    n = 0
    for (k, e), c_ in sorted(K.info_clears.items(), key=lambda kv: (kv[0][0], P.fn[kv[0][0]].ex[kv[0][1]]['loc'])):
        F = P.fn[k]
        chk.ob('R13.11', k, f'vorbis_info_clear#{_ordinal(F, e, "vorbis_info_clear")}:decoder-cleared-first', c_['ok'], F.where(e),
               'the decoder is cleared in every state that reaches the call' if c_['ok'] else
               f'reached with the decoder still live (entry state / ready_state: {c_["entries"][:2]}): vorbis_dsp_clear, which '
               'follows, reads the cleared info and releases nothing below the outer arrays')
        n += 1
    return n


def c20(chk, P):
    return


def c07(chk, P):
    chk.rule('R07.15', 'the packets a seek passes over are tracked by a live decoder: every call of vorbis_synthesis_trackonly / '
             'vorbis_synthesis_blockin in the seek functions of vorbisfile.c is reached, from every consistent entry state of the '
             'handle, only with the decoder and the block initialised (K5 state, same exploration as C03 R03.1).  Since the '
             'decode calls answer a cleared object with an error code instead of crashing, a seek that discards its lead-in '
             'packets before the decoder exists loses them without a trace: the sample count and granule reference miss them and '
             'the trim of the link\'s last packet after the seek is computed from the wrong count -- the audio delivered runs past '
             'the position reported')
    K, api, uses, ready = scan(P)
    n = 0
    for (k, e), u in sorted(uses.items(), key=lambda kv: (kv[0][0], P.fn[kv[0][0]].ex[kv[0][1]]['loc'])):
        F = P.fn[k]
        if 'seek' not in F.name or u['callee'] not in ('vorbis_synthesis_trackonly', 'vorbis_synthesis_blockin'):
            continue
        cons = f'{u["callee"]}#{_ordinal(F, e, u["callee"])}:{"decoder" if u["need"] == "vd" else "block"}-live'
        if not u['ok'] and (k, cons) in ASSUME:
            chk.assumed('R07.15', k, cons, F.where(e), ASSUME[(k, cons)])
            n += 1
            continue
        chk.ob('R07.15', k, cons, u['ok'], F.where(e),
               'the object is initialised in every state that reaches the call' if u['ok'] else
               f'reached with the {"decoder" if u["need"] == "vd" else "block"} cleared (entry state / ready_state at the call: '
               f'{u["entries"][:2]}): the packet is dropped without updating the decoder\'s bookkeeping')
        n += 1
    chk.floor('R07.15', 2)
    return n
