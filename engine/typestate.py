"""K5 — handle typestate (filled in later in the build)."""


def c12(chk, P):
    return


def c03(chk, P):
    return


def c20(chk, P):
    return
