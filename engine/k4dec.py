"""K4 whole-pipeline driver: value ranges of stream-derived set-up fields and decoder state across functions.

The intraprocedural interpreter (absint.py) is run over every function that the abstract execution of the given entry
points can reach, in Jacobi rounds, until three kinds of cross-function facts are stable:

  * set-up field invariants   (record, field[, element]) -> V : what the header unpackers guarantee on their *success*
                               returns (`inv_ok`), and what may be in those fields at *any* return or clear call (`inv_any`,
                               used for the clear/free functions that must cope with half-unpacked objects);
  * state field invariants    the same for decoder state records (vorbis_block, vorbis_dsp_state, private_state, look
                               structures, codebook): join over all returns of all functions that store to the field,
                               starting from the zero state (every such object is calloc'ed / memset);
  * calling contexts          joined argument ranges per internal function (integers), element invariants of pointer
                               arguments that designate a field with a known element invariant, and return ranges.

Assume/guarantee: every function assumes the invariants for memory it has not written itself and is checked to
re-establish them at its returns (that is how they were computed); by induction over the length of an execution they
hold at every function boundary.  The obligations (subscripts, divisors, allocation sizes) are evaluated in the last
round.  See DESIGN 3.3/K4 and 4/C02."""
import os
import sys
import time
import multiprocessing

import absint
import k4obs
from absint import V, K, INF, TOP, BOT, join, int_type_range
from facts import AnalysisBroken

SETUP_RECORDS = {'vorbis_info', 'codec_setup_info', 'static_codebook', 'vorbis_info_floor0', 'vorbis_info_floor1',
                 'vorbis_info_residue0', 'vorbis_info_mapping0', 'vorbis_info_mode', 'vorbis_comment'}
STATE_RECORDS = {'vorbis_block', 'vorbis_dsp_state', 'private_state', 'vorbis_look_floor0', 'vorbis_look_floor1',
                 'vorbis_look_residue0', 'codebook', 'vorbis_look_mapping0', 'mdct_lookup', 'drft_lookup'}
# records whose fields may serve as symbolic bounds across functions (one instance per decoder, or the relation is
# between fields of one and the same object)
ALLOCA_BUDGET = 1 << 20      # bytes of one alloca that is accepted as "within the default thread stack"


def strip_local_syms(v):
    """a value leaving its function keeps only bounds that name struct fields"""
    if v is None:
        return None
    lt = frozenset(s for s in v.lt if not (s.startswith('v') and s[1:].isdigit()))
    le = frozenset(s for s in v.le if not (s.startswith('v') and s[1:].isdigit()))
    return v.copy(lt=lt, le=le, eop=None, rd=0, tag='strlen' if v.tag == 'strlen' else None)


def vkey(v):
    if v is None:
        return None
    return (v.lo, v.hi, tuple(sorted(v.lt)), tuple(sorted(v.le)), v.nn, v.tag if v.tag == 'strlen' else None)


def canon_inc(F, e):
    """canonical text of an accumulate operand: locals anonymous, fields by name"""
    return F.s(e, names=False) if e else '1'


class Ctx:
    """what is known about one function's inputs"""
    __slots__ = ('params', 'elems', 'seen', 'fields', 'zero')

    def __init__(self):
        self.params = {}     # param name -> V
        self.elems = {}      # param name -> V   (element invariant of the memory a pointer parameter designates)
        self.fields = None   # (record, field, elem) -> V : set-up fields as they stand at the call sites (unpackers only)
        self.zero = None     # set of (param name, suffix): memory known zero-filled at every call site (unpackers only)
        self.seen = False

    def key(self):
        return (tuple(sorted((k, vkey(v)) for k, v in self.params.items())),
                tuple(sorted((k, vkey(v)) for k, v in self.elems.items())),
                tuple(sorted((str(k), vkey(v)) for k, v in (self.fields or {}).items())),
                tuple(sorted(self.zero or ())))


class FnResult:
    """picklable result of analysing one function in one round"""

    def __init__(self):
        self.calls = {}        # callee key -> list of per-parameter V (joined over sites)  +  elems
        self.call_elems = {}
        self.call_fields = {}  # callee (an unpacker) -> set-up field values at the call sites
        self.call_zero = {}    # callee (an unpacker) -> {(param name, suffix)} zero-filled memory behind its pointer arguments
        self.ret = None
        self.ok_fields = {}    # mk -> V at success returns
        self.any_fields = {}   # mk -> V at all returns and at calls
        self.state_fields = {}
        self.sumq = {}         # (inc canon, bound canon) -> hi  at success returns
        self.sites = []        # obligations: dicts
        self.lemmas = set()
        self.broken = []       # (mk, V, callee) invariant violated across a call
        self.time = 0.0
        self.iterations = 0
        self.unreached = False


class Driver:
    def __init__(self, P, roots, unpackers, ungated=(), root_params=None, setup_records=SETUP_RECORDS,
                 state_records=STATE_RECORDS, entry_zero=None, widen_delay=None, jobs=None, verbose=False):
        self.P = P
        self.roots = list(roots)
        self.unpackers = set(unpackers)
        self.ungated = set(ungated) | self.unpackers
        self.root_params = root_params or {}
        self.setup_records = set(setup_records)
        self.state_records = set(state_records)
        self.entry_zero = entry_zero or {}
        self.widen_delay = widen_delay or {}
        self.jobs = jobs or min(16, os.cpu_count() or 1)
        self.verbose = verbose
        self.inv_ok = {}
        self.inv_any = {}
        self.inv_state = {}
        self.ctx = {k: Ctx() for k in self.roots}
        for k in self.roots:
            self.ctx[k].seen = True
            for pn, v in self.root_params.get(k, {}).items():
                self.ctx[k].params[pn] = v
        self.rets = {}
        self.sumq = {}
        self.results = {}
        self.memo = {}
        self.rounds = 0
        self.pure = {}
        self._pure_memo = {}
        absint.writers_of(P)        # K3 summaries, computed once before forking

    # -- invariants handed to one function -----------------------------------------------------------
    def field_inv_for(self, key):
        inv = dict(self.inv_state)
        src = self.inv_any if key in self.ungated else self.inv_ok
        for mk, v in src.items():
            inv[mk] = v
        return inv

    # -- pure integer helpers: context-sensitive, iteration-partitioned -------------------------------
    def is_pure_helper(self, G):
        k = self.P.key(G)
        if k in self.pure:
            return self.pure[k]
        ok = True
        if not int_type_range(G.d.get('ret_t', '')):
            ok = False
        for p in G.params:
            if not int_type_range(p['t']):
                ok = False
        E = getattr(self.P, '_effects', None)
        sm = E.summ.get(k) if E else None
        if sm is None or sm['stores'] or sm['frees']:
            # stores to its own locals are not in the summary; anything else disqualifies
            if sm is None or any(o[0] != 'L' for (o, r, f) in sm['stores']) or sm['frees']:
                ok = False
        self.pure[k] = False     # recursion guard
        if ok:
            for n in G.calls():
                for t in self.P.call_targets(G, n):
                    if t.startswith('ext:'):
                        import k3
                        if t[4:] not in k3.EXT_PURE_MATH and t[4:] not in ('abs', 'labs'):
                            ok = False
                    elif t.startswith(('cb:', 'unk:')):
                        ok = False
                    else:
                        if not self.is_pure_helper(self.P.fn[t]):
                            ok = False
        if ok and len(G.ex) > 400:
            ok = False
        self.pure[k] = ok
        return ok

    def pure_summary(self, G, avals, inv):
        k = (self.P.key(G), tuple(vkey(strip_local_syms(a)) for a in avals))
        if k in self._pure_memo:
            return self._pure_memo[k]
        self._pure_memo[k] = None
        pi = {}
        for p, a in zip(G.params, avals):
            r = int_type_range(p['t'])
            a = absint.Analyzer.convert(strip_local_syms(a), r)
            pi[p['name']] = a
        h = absint.Hooks()
        h.on_call = lambda A, env, e, av: self.on_call(A, env, e, av, inv)
        A = absint.Analyzer(self.P, G, hooks=h, field_inv=inv, param_init=pi, unroll=70)
        try:
            A.run()
        except AnalysisBroken:
            return None
        r = None
        for (e, env, v) in A.ret_states:
            r = join(r, strip_local_syms(v) if v is not None else None)
        if r is not None:
            r = V(r.lo, r.hi)
        self._pure_memo[k] = r
        return r

    def on_call(self, A, env, e, avals, inv):
        nd = A.ex[e]
        d = nd['callee'].get('d')
        # zero-filled memory (calloc'ed set-up arrays nothing has been stored into yet) behind the pointer arguments of a
        # call of an unpacker, as it stands before the call
        z = env.get('$zero')
        if z:
            for t in self.P.call_targets(A.F, e):
                if t in self.unpackers:
                    G_ = self.P.fn[t]
                    args = nd.get('c', [])
                    zs = set()
                    for i, p in enumerate(G_.params):
                        if i < len(args) and p['t'].endswith('*'):
                            rp = A.rpath(args[i], env)
                            if rp and not rp.startswith('&'):
                                for pre in z:
                                    if (pre.startswith(rp + '->') or pre.startswith(rp + '[')) and \
                                            not any(isinstance(k_, str) and k_.startswith(pre) for k_ in env):
                                        zs.add((p['name'], pre[len(rp):]))
                    cz = A.__dict__.setdefault('_callzero', {})
                    cz[e] = zs if e not in cz else (cz[e] & zs)
        if not d or d == 'ov_ilog' and False:
            return None
        G = self.P.get(d, A.F)
        if G is None:
            return None
        if self.is_pure_helper(G):
            r = self.pure_summary(G, avals, inv)
            if r is not None:
                return r
        return None

    # -- one function, one round ---------------------------------------------------------------------
    def analyse(self, key):
        P = self.P
        F = P.fn[key]
        R = FnResult()
        t0 = time.time()
        ctx = self.ctx.get(key)
        if ctx is None or not ctx.seen:
            R.unreached = True
            return key, R
        A = self.make_analyzer(key)
        inv = A.field_inv
        S = k4obs.Sites()
        A.observers.append(S.observer)
        callobs = {}
        return self._analyse_rest(key, F, R, A, S, callobs, t0)

    def make_analyzer(self, key, **kw):
        """the K4 analyzer for one function exactly as the driver runs it (invariants, calling context, callee summaries)"""
        P = self.P
        F = P.fn[key]
        ctx = self.ctx.get(key) or Ctx()
        inv = self.field_inv_for(key)
        if ctx.fields:
            # a header unpacker called from another one sees the fields validated earlier in the same header
            inv.update(ctx.fields)
        pinit = dict(ctx.params)
        hooks = absint.Hooks()
        hooks.on_call = lambda A, env, e, av: self.on_call(A, env, e, av, inv)
        rets = self.rets

        def post_call(A, env, e, r):
            tg = P.call_targets(A.F, e)
            if not tg or any(t.startswith(('ext:', 'cb:', 'unk:')) for t in tg):
                return None
            out = None
            for t in tg:
                rv = rets.get(t)
                if rv is None:
                    return None
                out = join(out, rv)
            if out is None:
                return None
            tr = int_type_range(A.ex[e].get('t', ''))
            if tr:
                out = absint.meet_range(out, tr[0], tr[1])
                return V(out.lo, out.hi, out.lt, out.le, ne=out.ne)
            return None
        hooks.post_call = post_call
        ez = self.entry_zero.get(key)
        ezp = None
        if ez:
            ezp = ez(F)
        if ctx.zero:
            pid = {p['name']: p['id'] for p in F.params}
            ezp = list(ezp or []) + [f'v{pid[pn]}{suf}' for (pn, suf) in sorted(ctx.zero) if pn in pid]
        A = absint.Analyzer(P, F, hooks=hooks, field_inv=inv, param_init=pinit, uninit_summaries=True,
                            entry_zero=ezp, widen_delay=self.widen_delay.get(key, 2), **kw)
        A.param_elems = {}
        for p in F.params:
            ev = ctx.elems.get(p['name'])
            if ev is not None:
                A.param_elems[f'v{p["id"]}'] = ev
        A.sumq = self.sumq
        return A

    def _analyse_rest(self, key, F, R, A, S, callobs, t0):
        P = self.P
        inv = A.field_inv

        def call_observer(A_, env, e, v):
            nd = A_.ex[e]
            if nd['k'] != 'call':
                return
            tg = P.call_targets(A_.F, e)
            args = nd.get('c', [])
            for t in tg:
                if t.startswith(('ext:', 'cb:', 'unk:')):
                    continue
                G = P.fn[t]
                vals, elems = [], []
                for i, p in enumerate(G.params):
                    if i >= len(args):
                        vals.append(None); elems.append(None); continue
                    a = args[i]
                    if int_type_range(p['t']):
                        av = A_.peek(env, a)
                        av = absint.Analyzer.convert(av, int_type_range(p['t']))
                        vals.append(strip_local_syms(av))
                    else:
                        vals.append(None)
                    # element invariant of the designated memory
                    ev = None
                    if p['t'].endswith('*'):
                        rp = A_.rpath(a, env)
                        if rp is not None:
                            sk = rp + '[*]'
                            if sk in env and isinstance(env[sk], V):
                                ev = strip_local_syms(env[sk])
                            else:
                                ax = A_.F.strip_casts(a)
                                an = A_.ex[ax]
                                if an['k'] == 'ref' and an['decl'].get('id') in A_.alias:
                                    ax = A_.F.strip_casts(A_.alias[an['decl']['id']])     # `const char *lens=s->lengthlist`
                                mk = A_.member_key(ax)
                                if mk is not None and (mk[0], mk[1], True) in A_.field_inv:
                                    ev = A_.field_inv[(mk[0], mk[1], True)]
                                elif rp in A_.param_elems:
                                    ev = A_.param_elems[rp]
                    elems.append(ev)
                if t in self.unpackers:
                    fl = {}
                    self._collect(A_, env, fl, self.setup_records, stored_only=False)
                    pf = R.call_fields.get(t)
                    R.call_fields[t] = fl if pf is None else {m: join(pf[m], fl[m]) for m in pf if m in fl}
                    zs = set(getattr(A_, '_callzero', {}).get(e) or ())
                    pz = R.call_zero.get(t)
                    R.call_zero[t] = zs if pz is None else (pz & zs)
                prev = callobs.get(t)
                if prev is None:
                    callobs[t] = [vals, elems, [e is not None] * 0]
                else:
                    pv, pe, _ = prev
                    for i in range(len(vals)):
                        pv[i] = join(pv[i], vals[i]) if (pv[i] is not None and vals[i] is not None) else None
                        pe[i] = join(pe[i], elems[i]) if (pe[i] is not None and elems[i] is not None) else None
            # snapshot of set-up / state fields at calls (inv_any; broken-invariant detection)
            if key in self.unpackers:
                self._collect(A_, env, R.any_fields, self.setup_records)
        A.observers.append(call_observer)
        try:
            A.run()
        except AnalysisBroken as ex:
            raise AnalysisBroken(f'{key}: {ex}')
        R.iterations = A.iterations
        R.lemmas = set(A.lemmas_used)
        for t, (vals, elems, _) in callobs.items():
            R.calls[t] = vals
            R.call_elems[t] = elems
        isptr = F.d.get('ret_t', '').endswith('*')
        rv = None
        for (e, env, v) in A.ret_states:
            if v is not None:
                rv = join(rv, strip_local_syms(v))
            success = True
            if v is not None:
                if isptr and (v.nn is False or v.const() == 0):
                    success = False
                if not isptr and v.const() is not None and v.const() != 0:
                    success = False
            self._collect(A, env, R.state_fields, self.state_records)
            if key not in self.unpackers:
                # a set-up field written outside the unpackers (the half-rate flag): holds from every return on
                self._collect(A, env, R.ok_fields, self.setup_records)
                self._collect(A, env, R.any_fields, self.setup_records)
            if key in self.unpackers:
                self._collect(A, env, R.any_fields, self.setup_records)
                if success:
                    self._collect(A, env, R.ok_fields, self.setup_records)
                    for n, (vid, chain, hout, inc) in A.acc_info.items():
                        hin = chain[-1]
                        bexp = A.ind[hin][1]
                        x = env.get(f'v{vid}')
                        if x is not None and x.hi != INF and len(chain) == 1:
                            qk = (A.canon_named(inc) if inc else '1', A.canon_named(bexp))
                            R.sumq[qk] = max(R.sumq.get(qk, 0), x.hi)
        if rv is not None and int_type_range(F.d.get('ret_t', '')):
            R.ret = V(rv.lo, rv.hi, rv.lt, rv.le, ne=rv.ne)
        # obligations
        for e, r in S.sub.items():
            ok = r['idx'].lo >= 0 and r['idx'].hi < r['extent']
            R.sites.append({'kind': 'sub', 'e': e, 'canon': F.s(e, names=False), 'text': F.s(e), 'where': F.where(e),
                            'bound': f'index {r["idx"]} extent {r["extent"]}', 'ok': ok})
        for e, r in S.div.items():
            ok = r['div'].lo > 0 or r['div'].hi < 0 or 0 in r['div'].ne and False
            R.sites.append({'kind': 'div', 'e': e, 'canon': F.s(F.ex[e]['c'][1], names=False), 'text': F.s(e), 'where': F.where(e),
                            'bound': f'divisor {r["div"]}', 'ok': ok})
        for e, r in S.alloc.items():
            sz = r['size']
            if r['fn'] in ('__builtin_alloca', 'alloca'):
                ok = sz.lo >= 0 and sz.hi <= ALLOCA_BUDGET
            else:
                ok = sz.lo >= 0 and sz.hi < 2 ** 62
            R.sites.append({'kind': 'alloca' if 'alloca' in r['fn'] else 'alloc', 'e': e, 'canon': F.s(e, names=False),
                            'text': F.s(e), 'where': F.where(e), 'bound': f'size {sz}', 'ok': ok, 'strlen': sz.tag == 'strlen'})
        R.time = time.time() - t0
        return key, R

    def stored_fields(self, F):
        """(record, field) classes the function stores to syntactically (assignment, ++/--, compound assignment)"""
        c = getattr(F, '_stored_fields', None)
        if c is None:
            c = set()
            for n in F.pos:
                nd = F.ex[n]
                tgt = None
                if nd['k'] == 'assign':
                    tgt = nd['c'][0]
                elif nd['k'] == 'un' and nd['op'] in ('pre++', 'post++', 'pre--', 'post--'):
                    tgt = nd['c'][0]
                if tgt is None:
                    continue
                t = F.ex[F.strip_casts(tgt)]
                while t['k'] == 'sub':
                    t = F.ex[F.strip_casts(t['c'][0])]
                if t['k'] == 'member' and 'record' in t:
                    c.add((t['record'], t['field']))
            F._stored_fields = c
        return c

    def _collect(self, A, env, out, records, stored_only=True):
        sf = self.stored_fields(A.F)
        for k, x in env.items():
            if not isinstance(k, str) or k.startswith('$') or not isinstance(x, V):
                continue
            info = A.keyinfo.get(k)
            if not info or not info[0]:
                continue
            mk = info[0]
            if mk[0] not in records or (stored_only and (mk[0], mk[1]) not in sf):
                continue
            if not int_type_range_of_field(A.P, mk):
                continue
            out[mk] = join(out.get(mk), strip_local_syms(x))

    # -- rounds --------------------------------------------------------------------------------------
    def run(self, max_rounds=12):
        P = self.P
        t0 = time.time()
        pool = None
        for rnd in range(max_rounds):
            self.rounds = rnd + 1
            keys = [k for k, c in self.ctx.items() if c.seen]
            todo = []
            for k in keys:
                sig = (self.ctx[k].key(), self._inv_sig(k), tuple(sorted((a, vkey(b)) for a, b in self.rets.items()))
                       if False else self._rets_sig(k), tuple(sorted(self.sumq.items())))
                if self.memo.get(k) == sig and k in self.results:
                    continue
                self.memo[k] = sig
                todo.append(k)
            if self.verbose:
                print(f'  round {rnd}: {len(todo)} of {len(keys)} functions to analyse', file=sys.stderr)
            if not todo:
                break
            global _DRV
            _DRV = self
            if self.jobs > 1 and len(todo) > 3:
                with multiprocessing.get_context('fork').Pool(self.jobs) as pool:
                    res = pool.map(_work, todo, chunksize=1)
            else:
                res = [self.analyse(k) for k in todo]
            for k, R in res:
                self.results[k] = R
            changed = self._merge(rnd)
            if not changed:
                break
        self.stable = not changed
        self.wall = time.time() - t0
        return self

    def _inv_sig(self, key):
        inv = self.field_inv_for(key)
        return tuple(sorted((mk, vkey(v)) for mk, v in inv.items()))

    def _rets_sig(self, key):
        return tuple(sorted((t, vkey(self.rets.get(t))) for t in self.P.callees.get(key, ()) if t in self.rets))

    def _merge(self, rnd):
        """Recompute every cross-function fact from the latest result of every function.  Round r's facts were derived
        under round r-1's (weaker or equal) facts, starting from "nothing known" (top); by induction over r each round's
        facts hold in every execution, so the iteration may stop at any round (DESIGN 3.3/K4, assume/guarantee)."""
        P = self.P
        inv_ok, inv_any, inv_state, rets, sumq = {}, {}, {}, {}, {}
        ctx = {k: Ctx() for k in self.roots}
        for k in self.roots:
            ctx[k].seen = True
            for pn, v in self.root_params.get(k, {}).items():
                ctx[k].params[pn] = v
        first = set()
        for k, R in self.results.items():
            if R.unreached or not self.ctx.get(k, Ctx()).seen:
                continue
            for mk, v in R.ok_fields.items():
                inv_ok[mk] = join(inv_ok.get(mk), v)
            for mk, v in R.any_fields.items():
                inv_any[mk] = join(join(inv_any.get(mk), v), K(0))
            for mk, v in R.state_fields.items():
                inv_state[mk] = join(join(inv_state.get(mk), v), K(0))
            for qk, hi in R.sumq.items():
                sumq[qk] = max(hi, sumq.get(qk, 0))
            if R.ret is not None:
                rets[k] = R.ret
            for t, vals in R.calls.items():
                c = ctx.get(t)
                if c is None:
                    c = ctx[t] = Ctx()
                G = P.fn[t]
                if t not in first and t not in self.roots:
                    first.add(t)
                    c.seen = True
                    for p_, v in zip(G.params, vals):
                        if v is not None:
                            c.params[p_['name']] = v
                    for p_, v in zip(G.params, R.call_elems[t]):
                        if v is not None:
                            c.elems[p_['name']] = v
                    if t in R.call_fields:
                        c.fields = dict(R.call_fields[t])
                        c.zero = set(R.call_zero.get(t) or ())
                elif t in self.roots:
                    # an API function that is also called internally: its parameters stay unconstrained
                    continue
                else:
                    for p_, v in zip(G.params, vals):
                        old = c.params.get(p_['name'])
                        if old is None:
                            continue
                        if v is None:
                            del c.params[p_['name']]
                        else:
                            c.params[p_['name']] = join(old, v)
                    for p_, v in zip(G.params, R.call_elems[t]):
                        old = c.elems.get(p_['name'])
                        if old is None:
                            continue
                        if v is None:
                            del c.elems[p_['name']]
                        else:
                            c.elems[p_['name']] = join(old, v)
                    if c.fields is not None:
                        fl = R.call_fields.get(t) or {}
                        c.fields = {m: join(c.fields[m], fl[m]) for m in c.fields if m in fl}
                        c.zero = (c.zero or set()) & set(R.call_zero.get(t) or ())
        for mk, v in inv_ok.items():
            inv_any[mk] = join(join(inv_any.get(mk), v), K(0))
        # a field of a tracked record that no analysed function stores to keeps the value its allocation gave it: 0
        # (all these records are calloc'ed or memset by their init functions; the encoder-only fields, e.g. psys)
        written = set()
        for k, c in ctx.items():
            if c.seen or (k in self.ctx and self.ctx[k].seen):
                written |= self.stored_fields(P.fn[k])
        for rec in self.setup_records | self.state_records:
            r = P.records.get(rec)
            if not r:
                continue
            for f in r['fields']:
                if (rec, f['name']) in written:
                    continue
                for el in (False, True):
                    mk = (rec, f['name'], el)
                    if int_type_range_of_field(P, mk) and (el == bool(f.get('extent')) or f['t'].strip().endswith('*')):
                        if rec in self.setup_records:
                            inv_ok.setdefault(mk, K(0))
                            inv_any.setdefault(mk, K(0))
                        else:
                            inv_state.setdefault(mk, K(0))
        # functions seen in an earlier round stay in the analysed set
        for k, c in self.ctx.items():
            if c.seen and k not in ctx:
                ctx[k] = c

        def sig(d):
            return sorted((str(a), vkey(b)) for a, b in d.items())
        changed = (sig(inv_ok) != sig(self.inv_ok) or sig(inv_any) != sig(self.inv_any) or sig(inv_state) != sig(self.inv_state)
                   or sig(rets) != sig(self.rets) or sumq != self.sumq
                   or sorted((k, c.key(), c.seen) for k, c in ctx.items()) != sorted((k, c.key(), c.seen) for k, c in self.ctx.items()))
        self.inv_ok, self.inv_any, self.inv_state, self.rets, self.sumq, self.ctx = inv_ok, inv_any, inv_state, rets, sumq, ctx
        return changed


_FT = {}


def int_type_range_of_field(P, mk):
    r = _FT.get(mk)
    if r is None:
        rec = P.records.get(mk[0])
        r = False
        if rec:
            for f in rec['fields']:
                if f['name'] == mk[1]:
                    t = f['t']
                    base = t.split('[')[0].strip()
                    while base.endswith('*'):
                        base = base[:-1].strip()
                    r = int_type_range(base) or False
                    # a pointer field itself is not an integer; its elements are when mk[2]
                    if f['t'].strip().endswith('*') and not mk[2]:
                        r = False
        _FT[mk] = r
    return r


_DRV = None


def _work(key):
    return _DRV.analyse(key)


# ----------------------------------------------------------------------------------------------------
# The decode pipeline instance (C02; reused by C16/C11 where they need decoder value ranges)
def _stored_field_classes(F):
    c = set()
    for n in F.pos:
        nd = F.ex[n]
        tgt = None
        if nd['k'] == 'assign':
            tgt = nd['c'][0]
        elif nd['k'] == 'un' and nd['op'] in ('pre++', 'post++', 'pre--', 'post--'):
            tgt = nd['c'][0]
        if tgt is None:
            continue
        t = F.ex[F.strip_casts(tgt)]
        while t['k'] == 'sub':
            t = F.ex[F.strip_casts(t['c'][0])]
        if t['k'] == 'member' and 'record' in t:
            c.add((t['record'], t['field']))
    return c


def decode_driver(P, verbose=False):
    """Driver over everything the abstract execution of the codec.h decode API reaches.  Cached on P."""
    D = getattr(P, '_decode_driver', None)
    if D is not None:
        return D
    from rules import common
    roots = [P.key(P.need(n)) for n in common.decode_api(P)]
    slot_unp = sorted({P.key(P.get(f)) for (r, fl), fs in P.slots.items() if fl == 'unpack' for f in fs if P.get(f) is not None})
    if len(slot_unp) < 4:
        raise AnalysisBroken(f'backend unpack slots not found ({slot_unp})')
    unp = [P.key(P.need(n)) for n in ('_vorbis_unpack_info', 'vorbis_staticbook_unpack', '_vorbis_unpack_books',
                                      '_vorbis_unpack_comment')] + slot_unp
    # file-local helpers that an unpacker was split into: they store set-up fields and are called by unpackers only
    # (callees[] also lists functions whose address is taken, so a helper used as a value never qualifies)
    named = list(unp)
    callers = {}
    for k_, cs in P.callees.items():
        for c_ in cs:
            callers.setdefault(c_, set()).add(k_)
    changed = True
    while changed:
        changed = False
        for G in P.functions():
            gk = P.key(G)
            if gk in unp or not G.static or not callers.get(gk):
                continue
            if callers[gk] <= set(unp) and any(r in SETUP_RECORDS for (r, f) in _stored_field_classes(G)):
                unp.append(gk)
                changed = True
    free_info = sorted({P.key(P.get(f)) for (r, fl), fs in P.slots.items() if fl == 'free_info' for f in fs if P.get(f) is not None})
    ungated = [P.key(P.need(n)) for n in ('vorbis_info_clear', 'vorbis_comment_clear', 'vorbis_staticbook_destroy',
                                          'vorbis_info_init', 'vorbis_comment_init', 'vorbis_synthesis_headerin',
                                          'vorbis_synthesis_idheader', 'vorbis_info_blocksize')] + free_info

    def ez_books(F):
        # codec_setup_info is zero-filled by vorbis_info_init (calloc) and vorbis_info_clear (memset), and the set-up header
        # is accepted only once (ci->books>0 is refused): the arrays _vorbis_unpack_books fills start out zero
        vid = F.params[0]['id']
        mine = set()
        for u in unp:
            mine |= {f_ for (r_, f_) in _stored_field_classes(P.fn[u]) if r_ == 'codec_setup_info'}
        return [f'v{vid}->codec_setup->{f["name"]}[' for f in P.record('codec_setup_info')['fields']
                if f.get('extent') and f['name'] in mine and f['name'] != 'blocksizes']
    root_params = {
        # documented API precondition (vorbis_info_blocksize(vi,zo): "zo" selects the short (0) or long (1) block)
        'vorbis_info_blocksize': {'zo': V(0, 1)},
    }
    D = Driver(P, roots, unp, ungated=ungated, entry_zero={'_vorbis_unpack_books': ez_books}, root_params=root_params,
               verbose=verbose)
    D.run()
    D.unp = unp
    D.unp_helpers = [u for u in unp if u not in named]
    D.ungated_list = ungated
    P._decode_driver = D
    return D
