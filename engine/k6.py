"""K6 — ownership analysis (DESIGN 3.3/K6).

Per function, the K4 interpreter is partitioned by the set of objects the current frame owns:

  A<eid>   heap memory returned by an allocator call (or by a repo function whose K3 summary says it returns fresh memory)
  L<vid>   a local aggregate of a record type with a release function, made live by its init function or by a callee
  C<eid>.k heap memory a callee left in the local pointer cell passed as argument k (out-parameter)
  P<k>     (summaries only) the caller's aggregate behind pointer parameter k, made live here
  Q<k>     (summaries only) the caller's pointer cell behind parameter k, filled here

Events: allocation / init (acquire); free / release call (release); store into memory that outlives the frame, return,
struct copy into such memory, argument of a callee that keeps it (transfer).  An object of kind A, L or C still owned at a
return is a leak on that path.  Calls of functions with a relational summary (what they leave in the caller's objects
depends on their result) split the state by result class, so `ret=f(&x); if(ret)return ret;` is exact."""
import multiprocessing
import os

import absint
import cfg
import k3
from absint import V, K, INF, Hooks, join, int_type_range
from facts import AnalysisBroken

ALLOCATORS = {'malloc', 'calloc', 'realloc', 'strdup'}
# record type -> functions that release everything the object owns (object pointer is argument 0)
RELEASE = {
    'vorbis_info': {'vorbis_info_clear'},
    'vorbis_comment': {'vorbis_comment_clear'},
    'vorbis_dsp_state': {'vorbis_dsp_clear'},
    'vorbis_block': {'vorbis_block_clear'},
    'ogg_stream_state': {'ogg_stream_clear'},
    'ogg_sync_state': {'ogg_sync_clear'},
    'oggpack_buffer': {'oggpack_writeclear'},
    'codebook': {'vorbis_book_clear'},
    'OggVorbis_File': {'ov_clear'},
}
# init functions that make an aggregate own memory: name -> (record, acquires when: 'always' | 'zero')
INIT = {
    'vorbis_info_init': ('vorbis_info', 'always'),
    'ogg_stream_init': ('ogg_stream_state', 'always'),
    'ogg_sync_init': ('ogg_sync_state', 'always'),
    'oggpack_writeinit': ('oggpack_buffer', 'always'),
}
ALL_RELEASE = {f for fs in RELEASE.values() for f in fs}


def base_record(t):
    t = t.replace('const ', '').replace('struct ', '').strip()
    while t.endswith('*'):
        t = t[:-1].strip()
    return t


def ret_class(v, isptr):
    if v is None:
        return 'void'
    if isptr:
        if v.nn is False or v.const() == 0:
            return 'null'
        if v.nn is True or (isinstance(v.tag, str) and v.tag.startswith('fresh')):
            return 'nonnull'
        return 'any'
    if v.hi < 0:
        return 'neg'
    if v.lo == 0 and v.hi == 0:
        return 'zero'
    if v.lo > 0:
        return 'pos'
    if v.lo >= 0:
        return 'nonneg'
    if v.hi <= 0:
        return 'nonpos'
    return 'any'


def class_value(c, tr):
    lo, hi = tr if tr else (-INF, INF)
    return {'neg': V(lo, -1), 'zero': K(0), 'pos': V(1, hi), 'nonneg': V(0, hi), 'nonpos': V(lo, 0), 'any': V(lo, hi),
            'null': V(0, 0, nn=False), 'nonnull': V(nn=True), 'void': V()}[c]


class Own(Hooks):
    def __init__(self, K6, F):
        self.K6 = K6
        self.F = F
        self.P = K6.P
        self.events = []          # (kind, obj, eid)
        self.field_sinks = set()  # (record, field) classes that received owned memory here
        self.members = {}         # container obj -> set of member objs
        self.desc = {}            # obj -> human description
        self.shallow = []         # (eid, container, members)
        self.pidx = {p['id']: i for i, p in enumerate(F.params)}
        self.track_params = set()
        for i, p in enumerate(F.params):
            t = p['t']
            if t.endswith('*') and base_record(t) in RELEASE and t.count('*') == 1:
                self.track_params.add(i)
            if t.count('*') == 2 and int_type_range(base_record(t)):
                self.track_params.add(i)

    # -- state helpers ----------------------------------------------------------------------------
    @staticmethod
    def own(env):
        return env.get('$own', frozenset())

    def acquire(self, env, obj, e, what):
        o = self.own(env)
        if obj[0] in 'PQ':
            o = o - {'E' + obj[1:]}
        env['$own'] = o | {obj}
        self.desc.setdefault(obj, what)

    def drop(self, env, obj):
        o = self.own(env)
        if obj[0] in 'PQ':
            o2 = o - {obj, 'E' + obj[1:], ('Q' if obj[0] == 'P' else 'P') + obj[1:]}
            if o2 != o:
                env['$own'] = o2
            return
        if obj in o:
            env['$own'] = o - {obj}

    def on_entry(self, A, env):
        # E<k>: the caller's aggregate / cell behind tracked parameter k is as it was on entry (untouched so far)
        env['$own'] = frozenset(f'E{k}' for k in self.track_params)
        return env

    def join_special(self, k, a, b):
        return a if a == b else None

    # -- what does an argument expression designate? ------------------------------------------------
    def arg_object(self, A, env, a):
        """object identity of a call argument: ('L',vid) for &local aggregate / &local pointer cell, ('P',k) for a
        pointer parameter passed on, tag string for an owned heap pointer value, or None"""
        F = self.F
        x = F.ex[F.strip_casts(a)]
        if x['k'] == 'un' and x['op'] == '&':
            y = F.ex[F.strip_casts(x['c'][0])]
            if y['k'] == 'ref' and y['decl']['kind'] == 'var':
                return ('L', y['decl']['id'])
            return None
        if x['k'] == 'ref' and x['decl']['kind'] == 'param' and x['decl']['id'] in self.pidx:
            return ('P', self.pidx[x['decl']['id']])
        return None

    def tag_of(self, A, env, a):
        v = A.peek(env, a)
        if isinstance(v.tag, str) and v.tag.startswith('fresh'):
            return v.tag
        return None

    # -- calls ------------------------------------------------------------------------------------
    def on_call(self, A, env, e, avals):
        F = self.F
        nd = A.ex[e]
        args = nd.get('c', [])
        d = nd['callee'].get('d')
        tg = self.P.call_targets(F, e)
        if d in ALLOCATORS:
            if d == 'realloc' and args:
                t = avals[0].tag if isinstance(avals[0].tag, str) and avals[0].tag.startswith('fresh') else None
                if t:
                    self.drop(env, t)
            tag = ('fresh0:' if d == 'calloc' else 'fresh:') + str(e)
            same = sorted(F.calls(d), key=lambda x: F.ex[x]['loc'])
            self.acquire(env, tag, e, f'{d}#{same.index(e)}')
            return V(nn=None, tag=tag)
        if d == 'free' and args:
            self.release_value(A, env, e, avals[0], args[0], shallow=True)
            return V()
        if d in INIT and args:
            o = self.arg_object(A, env, args[0])
            if o is not None and o[0] == 'L':
                self.acquire(env, f'L{o[1]}', e, f'local {F.vars[o[1]]["name"]} ({INIT[d][0]})')
            elif o is not None and o[0] == 'P' and o[1] in self.track_params:
                self.acquire(env, f'P{o[1]}', e, f'param {o[1]}')
            return None
        if d in ALL_RELEASE and args:
            o = self.arg_object(A, env, args[0])
            if o is not None:
                self.drop(env, f'{o[0]}{o[1]}')
            else:
                self.release_value(A, env, e, avals[0], args[0])
            return None
        # internal callees: K3-derived ownership effects
        for t in tg:
            if t.startswith(('ext:', 'cb:', 'unk:')):
                continue
            sm = self.K6.k3summ(t)
            for i, a in enumerate(args):
                if i in sm['frees']:
                    o = self.arg_object(A, env, a)
                    if o is not None:
                        self.drop(env, f'{o[0]}{o[1]}')
                    self.release_value(A, env, e, avals[i], a)
                elif i in sm['keeps']:
                    tagv = avals[i].tag if isinstance(avals[i].tag, str) and avals[i].tag.startswith('fresh') else None
                    if tagv:
                        self.transfer(env, tagv, e, None)
        fresh = [t for t in tg if not t.startswith(('ext:', 'cb:', 'unk:')) and self.K6.k3summ(t)['fresh']]
        if fresh and len(fresh) == len(tg):
            tag = 'fresh:' + str(e)
            nm = d or '.'.join(nd['callee'].get('slot', ['?']))
            same = [x for x in sorted(F.calls(), key=lambda x: F.ex[x]['loc']) if (F.ex[x]['callee'].get('d') or '.'.join(F.ex[x]['callee'].get('slot', ['?']))) == nm]
            self.acquire(env, tag, e, f'{nm}()#{same.index(e)}')
            return V(nn=None, tag=tag)
        return None

    def release_value(self, A, env, e, val, aexpr, shallow=False):
        t = val.tag if isinstance(val.tag, str) and val.tag.startswith('fresh') else None
        if t is None:
            return
        if shallow:
            ms = {m for m in self.members.get(t, ()) if m in env.get('$held', frozenset())}
            if ms:
                self.shallow.append((e, t, ms))
        self.drop(env, t)
        # members die with a properly released container
        h = env.get('$held', frozenset())
        if h:
            env['$held'] = h - self.members.get(t, set())

    def transfer(self, env, tag, e, sink):
        self.drop(env, tag)
        if sink:
            self.field_sinks.add(sink)

    # -- stores -----------------------------------------------------------------------------------
    def on_store(self, A, env, e, key, val):
        F = self.F
        if key is None:
            # unknown target: an owned value stored there is handed over
            t = val.tag if isinstance(val, V) and isinstance(val.tag, str) and val.tag.startswith('fresh') else None
            if t:
                self.drop(env, t)
            return None
        nd = A.ex[e]
        if nd['k'] == 'assign':
            lhs = nd['c'][0]
            rhs = nd['c'][1]
            # struct copy of a live local aggregate into memory that outlives the frame
            r = A.ex[F.strip_casts(rhs)]
            if r['k'] == 'ref' and r['decl']['kind'] == 'var' and base_record(r.get('t', '')) in RELEASE and not r.get('t', '').endswith('*'):
                if not (key.startswith('v') and key[1:].isdigit()):
                    self.drop(env, f'L{r["decl"]["id"]}')
        t = val.tag if isinstance(val, V) and isinstance(val.tag, str) and val.tag.startswith('fresh') else None
        if key.startswith('*v') and key[2:].isdigit() and int(key[2:]) in {p['id'] for p in F.params}:
            # the caller's pointer cell: filled (with anything non-null we own) or emptied
            k = self.pidx[int(key[2:])]
            if k in self.track_params:
                if t:
                    self.drop(env, t)
                    self.acquire(env, f'Q{k}', e, f'cell of param {k}')
                elif isinstance(val, V) and (val.nn is False or val.const() == 0):
                    self.drop(env, f'Q{k}')
            return None
        if t is None or t not in self.own(env):
            return None
        if key.startswith('v') and key[1:].isdigit():
            return None                       # held in a local pointer: still ours
        # stored into a field / element / through a pointer
        root = key.split('->')[0].split('[')[0].split('.')[0]
        rootv = env.get(root) if root.startswith('v') else None
        ctag = rootv.tag if isinstance(rootv, V) and isinstance(rootv.tag, str) and rootv.tag.startswith('fresh') else None
        mk = A.member_key(nd['c'][0]) if nd['k'] == 'assign' else None
        if root.startswith('v') and root[1:].isdigit() and int(root[1:]) in self.pidx and self.pidx[int(root[1:])] in self.track_params \
                and ('->' in key):
            k = self.pidx[int(root[1:])]
            if self.F.params[k]['t'].count('*') == 1:
                self.transfer(env, t, e, (mk[0], mk[1]) if mk else None)
                self.acquire(env, f'P{k}', e, f'param {k}')
                return None
        if ctag and ctag in self.own(env):
            # member of an object we still own: lives and dies with its container
            self.members.setdefault(ctag, set()).add(t)
            env['$held'] = env.get('$held', frozenset()) | {t}
            self.drop(env, t)
            if mk:
                self.field_sinks.add((mk[0], mk[1]))
            return None
        self.transfer(env, t, e, (mk[0], mk[1]) if mk else None)
        return None

    # -- returns and nullness ---------------------------------------------------------------------
    def on_node(self, A, env, e, v):
        nd = A.ex[e]
        if nd['k'] == 'ret' and nd.get('c'):
            rv = A.peek(env, nd['c'][0])
            t = rv.tag if isinstance(rv.tag, str) and rv.tag.startswith('fresh') else None
            if t:
                self.drop(env, t)

    def on_edge(self, A, env, cond, truth):
        # an allocation known to have failed is not owned
        o = self.own(env)
        if not o:
            return
        for k, x in env.items():
            if isinstance(x, V) and isinstance(x.tag, str) and x.tag in o and x.nn is False:
                self.drop(env, x.tag)

    # -- relational summaries -----------------------------------------------------------------------
    def fork(self, A, env, e):
        nd = A.ex[e]
        if nd['k'] != 'call':
            return None
        tg = [t for t in self.P.call_targets(self.F, e)]
        if len(tg) != 1 or tg[0].startswith(('ext:', 'cb:', 'unk:')):
            return None
        sm = self.K6.summary.get(tg[0])
        if not sm:
            return None
        args = nd.get('c', [])
        G = self.P.fn[tg[0]]
        # does any tracked parameter of the callee receive one of our objects?
        bind = {}
        for i in sm['params']:
            if i < len(args):
                o = self.arg_object(A, env, args[i])
                if o is not None:
                    bind[i] = o
        if not bind:
            return None
        tr = int_type_range(G.d.get('ret_t', ''))
        outs = []
        for (cls, live) in sorted(sm['outcomes'], key=str):
            e2 = env.copy()
            tmp = dict(e2.get('$tmp') or {})
            cur = tmp.get(e)
            nv = class_value(cls, tr)
            if cur is not None and cls not in ('void',):
                nv = cur.copy(lo=max(cur.lo, nv.lo), hi=min(cur.hi, nv.hi), nn=nv.nn if nv.nn is not None else cur.nn)
                if nv.is_bottom():
                    continue
            tmp[e] = nv
            e2['$tmp'] = tmp
            for i, o in bind.items():
                pt = G.params[i]['t']
                iscell = pt.count('*') == 2
                if o[0] == 'L':
                    vt = self.F.vars[o[1]].get('t', '')
                    if iscell:
                        obj = f'fresh:C{e}.{i}'
                        if f'Q{i}' in live:
                            # the cell now holds a pointer we own: the object is identified by the value's tag
                            old = e2.get(f'v{o[1]}')
                            if isinstance(old, V) and isinstance(old.tag, str) and old.tag != obj:
                                self.drop(e2, old.tag)
                            self.acquire(e2, obj, e, f'memory left in {self.F.vars[o[1]]["name"]} by {G.name}()')
                            e2[f'v{o[1]}'] = V(nn=None, tag=obj)
                        elif f'E{i}' not in live:
                            # callee emptied the cell: whatever we owned through it is gone
                            old = e2.get(f'v{o[1]}')
                            if isinstance(old, V) and isinstance(old.tag, str):
                                self.drop(e2, old.tag)
                    else:
                        if f'P{i}' in live:
                            self.acquire(e2, f'L{o[1]}', e, f'local {self.F.vars[o[1]]["name"]} ({base_record(vt)}) filled by {G.name}()')
                        elif f'E{i}' not in live:
                            self.drop(e2, f'L{o[1]}')
                elif o[0] == 'P' and o[1] in self.track_params:
                    mine = f'{"Q" if iscell else "P"}{o[1]}'
                    theirs = f'{"Q" if iscell else "P"}{i}'
                    if theirs in live:
                        self.acquire(e2, mine, e, f'param {o[1]}')
                    elif f'E{i}' not in live:
                        self.drop(e2, mine)
            outs.append(e2)
        return outs if outs else None


class K6:
    def __init__(self, P, jobs=None):
        self.P = P
        self.jobs = jobs or min(16, os.cpu_count() or 1)
        self.E = getattr(P, '_effects', None)
        if self.E is None:
            self.E = P._effects = k3.Effects(P)
        absint.writers_of(P)
        self._k3 = {}
        self.summary = {}      # fn key -> {'params': set(idx), 'outcomes': set((ret class, frozenset(live objs)))}
        self.results = {}      # fn key -> dict(leaks=[...], sinks=set, shallow=[...])
        self._summaries()

    def k3summ(self, t):
        s = self._k3.get(t)
        if s is None:
            sm = self.E.summ.get(t) or {'stores': set(), 'frees': set(), 'ret': set(), 'pstores': set()}
            frees = {o[1] for o in sm['frees'] if o[0] == 'P' and o[2] == 1}
            keeps = {v[1] for (tg, v) in sm['pstores'] if v[0] == 'P' and v[2] == 1}
            stored = {v for (tg, v) in sm['pstores']}
            fresh = any(o[0] == 'A' and o not in stored for o in sm['ret']) and not any(o[0] in ('P', 'F', 'G') for o in sm['ret'])
            s = self._k3[t] = {'frees': frees, 'keeps': keeps, 'fresh': fresh}
        return s

    def tracked(self, F):
        out = set()
        for i, p in enumerate(F.params):
            t = p['t']
            if t.endswith('*') and t.count('*') == 1 and base_record(t) in RELEASE:
                out.add(i)
            if t.count('*') == 2 and int_type_range(base_record(t)):
                out.add(i)
        return out

    def run_fn(self, F, final=False):
        h = Own(self, F)
        A = absint.Analyzer(self.P, F, hooks=h, partition=lambda A_, env: (env.get('$own', frozenset()), env.get('$held', frozenset())))
        A.run()
        return A, h

    def _summaries(self):
        """relational summaries of functions that take a releasable aggregate or a pointer cell by pointer, to a fixpoint
        (Jacobi rounds; the functions of a round are analysed in parallel)"""
        P = self.P
        cand = []
        for F in P.functions():
            tp = self.tracked(F)
            if not tp:
                continue
            if F.name in ALL_RELEASE or F.name in INIT:
                continue
            cand.append(P.key(F))
        self.cand = cand
        global _K6
        _K6 = self
        self.rounds = 0
        callers = {}
        for k in cand:
            for t in P.callees.get(k, ()):
                callers.setdefault(t, set()).add(k)
        todo = list(cand)
        for rnd in range(16):
            self.rounds = rnd + 1
            if self.jobs > 1 and len(todo) > 2:
                with multiprocessing.get_context('fork').Pool(self.jobs) as pool:
                    res = pool.map(_summ_work, todo, chunksize=1)
            else:
                res = [_summ_work(k) for k in todo]
            changed = set()
            for k, new in res:
                if self.summary.get(k) != new:
                    if new is None:
                        self.summary.pop(k, None)
                    else:
                        self.summary[k] = new
                    changed.add(k)
            if not changed:
                break
            # only the callers of a function whose summary changed need another look
            todo = sorted({c for k in changed for c in callers.get(k, ())})
            if not todo:
                break
        else:
            raise AnalysisBroken('K6 summaries did not stabilise')

    def summarise(self, k):
        F = self.P.fn[k]
        tp = self.tracked(F)
        try:
            A, h = self.run_fn(F)
        except AnalysisBroken:
            return k, self.summary.get(k)
        isptr = F.d.get('ret_t', '').endswith('*')
        outs = set()
        for (e, env, v) in self.exit_states(A, F):
            live = frozenset(o for o in env.get('$own', frozenset()) if o[0] in 'PQE')
            outs.add((ret_class(v, isptr), live))
        # a callee that leaves every tracked object as it found it needs no summary
        if all(all(f'E{i}' in live for i in tp) for (_, live) in outs):
            return k, None
        return k, {'params': set(tp), 'outcomes': outs}

    @staticmethod
    def exit_states(A, F):
        """(return eid or None, env, value) for every way out of the function"""
        if F.d.get('ret_t', 'void').strip() != 'void':
            return list(A.ret_states)
        out = []
        for pk, env in (A.block_in.get(F.exit) or {}).items():
            out.append((None, env, None))
        return out

    def _releases_params(self, F, tp):
        """tracked parameters this function (syntactically) passes to a release/init function or a summarised callee, or
        whose cell it stores to"""
        out = set()
        pidx = {p['id']: i for i, p in enumerate(F.params)}
        for c in F.calls():
            nd = F.ex[c]
            d = nd['callee'].get('d')
            tg = self.P.call_targets(F, c)
            for i, a in enumerate(nd.get('c', [])):
                x = F.ex[F.strip_casts(a)]
                if x['k'] == 'ref' and x['decl']['kind'] == 'param' and pidx.get(x['decl']['id']) in tp:
                    if d in ALL_RELEASE or d in INIT or any(t in self.summary for t in tg):
                        out.add(pidx[x['decl']['id']])
        for n in F.pos:
            nd = F.ex[n]
            if nd['k'] == 'assign':
                l = F.ex[F.strip_casts(nd['c'][0])]
                if l['k'] == 'un' and l['op'] == '*':
                    y = F.ex[F.strip_casts(l['c'][0])]
                    if y['k'] == 'ref' and y['decl']['kind'] == 'param' and pidx.get(y['decl']['id']) in tp:
                        out.add(pidx[y['decl']['id']])
        return out

    # -- leak rule ----------------------------------------------------------------------------------
    def has_acquisition(self, F):
        for c in F.calls():
            nd = F.ex[c]
            d = nd['callee'].get('d')
            if d in ALLOCATORS or d in INIT:
                return True
            for t in self.P.call_targets(F, c):
                if t.startswith(('ext:', 'cb:', 'unk:')):
                    continue
                if self.k3summ(t)['fresh'] or t in self.summary:
                    return True
        return False

    def leaks(self, F):
        """[(object description, [return eids where it is still owned])] plus sinks and shallow frees"""
        A, h = self.run_fn(F)
        out = {}
        for (e, env, v) in self.exit_states(A, F):
            for o in env.get('$own', frozenset()):
                if o[0] in 'PQE':
                    continue
                if v is not None and v.tag == o:
                    continue
                out.setdefault(o, []).append(e)
        return A, h, out


    def analyse_all(self):
        """leak analysis of every function that acquires something: key -> plain result dict"""
        P = self.P
        keys = sorted(P.key(F) for F in P.functions() if self.has_acquisition(F))
        global _K6
        _K6 = self
        if self.jobs > 1:
            with multiprocessing.get_context('fork').Pool(self.jobs) as pool:
                res = pool.map(_leak_work, keys, chunksize=2)
        else:
            res = [_leak_work(k) for k in keys]
        self.results = dict(res)
        return self.results

    def leak_result(self, k):
        F = self.P.fn[k]
        A, h, leaks = self.leaks(F)
        objs = {}
        for o, what in h.desc.items():
            if o[0] in 'PQE':
                continue
            objs[o] = {'what': what, 'leaks': sorted({(F.loc(r) if r else F.d.get('end_line', F.line)) for r in leaks.get(o, [])}),
                       'where': F.where(int(o.split(':')[1].split('.')[0][1:]) if o.startswith('fresh') and o.split(':')[1][0] == 'C'
                                        else (int(o.split(':')[1]) if o.startswith('fresh') else None))}
        return k, {'objects': objs, 'sinks': sorted(h.field_sinks),
                   'shallow': [(F.where(e), h.desc.get(c, c), sorted(h.desc.get(m, m) for m in ms)) for (e, c, ms) in h.shallow]}


_K6 = None


def _summ_work(k):
    return _K6.summarise(k)


def _leak_work(k):
    try:
        return _K6.leak_result(k)
    except AnalysisBroken as ex:
        return k, {'error': str(ex)}
