"""Oracle documents: the Vorbis I specification sources under /repo/doc/*.tex.

Extracts (a) per section the sequence of bit-field widths in document order ("read N bits", byte diagrams
annotated "(N bit)", "N bit unsigned quantity"), (b) numeric tables (dB table, floor1 range vector)."""
import os
import re

from facts import AnalysisBroken, REPO

WORDS = {'one': 1, 'two': 2, 'three': 3, 'four': 4, 'five': 5, 'six': 6, 'seven': 7, 'eight': 8, 'single': 1}
NUM = r'(\d+|one|two|three|four|five|six|seven|eight|single)'
TOKEN_RE = re.compile(
    r'(?P<ilog>\{ilog\}\s*\()'
    r'|(?P<num>\b' + NUM + r')[\s-]+bits?\b'
    r'|(?P<var>\[[a-z_\\0-9]+\]\}?\s+(?:bits\b|each\b))'
    r'|(?P<str>octets\s+coded|as\s+six\s+octets|\]\s+octets)', re.I)
MARK_RE = re.compile(r'\bread|bit\s+sync\s+pattern|bit\s+unsigned\s+quantity|\(\s*' + NUM + r'\s+bit(?:\s+unsigned)?\)|bit\s+value|octets', re.I)


def _num(s):
    return WORDS[s.lower()] if s.lower() in WORDS else int(s)


def doc(name):
    p = os.path.join(REPO, 'doc', name)
    try:
        return open(p, encoding='utf-8', errors='replace').read()
    except OSError as e:
        raise AnalysisBroken(f'oracle document {p} unreadable: {e}')


def section(name, start_pat, end_pat=None):
    """text of doc `name` from the first match of start_pat up to the next match of end_pat"""
    t = doc(name)
    m = re.search(start_pat, t)
    if not m:
        raise AnalysisBroken(f'spec anchor {start_pat!r} not found in {name}')
    s = m.end()
    e = len(t)
    if end_pat:
        m2 = re.search(end_pat, t[s:])
        if not m2:
            raise AnalysisBroken(f'spec anchor {end_pat!r} not found in {name}')
        e = s + m2.start()
    return t[s:e]


def widths(text):
    """width mentions in document order: ints, 'V' (computed width), 'S' (octet string).  Only lines that talk about
    reading from the bitstream (or byte diagrams / length annotations) are considered."""
    text = re.sub(r'(?m)(?<!\\)%.*$', '', text)
    out = []
    for line in text.split('\n'):
        m = MARK_RE.search(line)
        if not m:
            continue
        start = m.start() if m.group(0).lower().startswith('read') else 0
        for t in TOKEN_RE.finditer(line, start):
            if t.group('ilog'):
                out.append('V')
            elif t.group('num'):
                out.append(_num(t.group(3)))
            elif t.group('var'):
                out.append('V')
            elif t.group('str'):
                out.append('S')
    # an ilog(...) width is followed by its own "bits" token only when a bracketed variable directly precedes it
    return out


def collapse(seq):
    out = []
    for x in seq:
        if not out or out[-1] != x:
            out.append(x)
    return out


# -- tables --------------------------------------------------------------------------------------------
def db_table():
    """floor1_inverse_dB_static_table of 10-tables.tex as a list of 256 floats"""
    t = doc('10-tables.tex')
    m = re.search(r'\\begin\{Verbatim\}(.*?)\\end\{Verbatim\}', t, re.S)
    if not m:
        raise AnalysisBroken('dB table not found in 10-tables.tex')
    vals = [float(x) for x in re.findall(r'[-+]?\d+\.\d*(?:e[-+]?\d+)?', m.group(1))]
    if len(vals) != 256:
        raise AnalysisBroken(f'dB table in 10-tables.tex has {len(vals)} entries, 256 expected')
    return vals


def floor1_ranges():
    """the vector of [range] values indexed by floor1_multiplier-1 (07-floor1.tex packet decode)"""
    t = doc('07-floor1.tex')
    m = re.search(r'\{\s*256\s*,\s*128\s*,\s*86\s*,\s*64\s*\}|vector\s*\\?\{?\s*\[?\s*(\d+)\s*,\s*(\d+)\s*,\s*(\d+)\s*,\s*(\d+)', t)
    m2 = re.search(r'\[range\]\s*=\s*vector\s*\\\{\s*(\d+)\s*,\s*(\d+)\s*,\s*(\d+)\s*,\s*(\d+)\s*\\\}', t)
    if m2:
        return [int(x) for x in m2.groups()]
    raise AnalysisBroken('floor1 [range] vector not found in 07-floor1.tex')
