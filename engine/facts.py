"""Fact base: runs the vx extractor over the translation units the build compiles and offers the
resolved program (functions with CFG and typed expression trees, records, globals, slots, call graph)
to the rules.  Nothing here or downstream reads source text."""
import hashlib
import json
import os
import re
import subprocess
import sys
import time
from concurrent.futures import ThreadPoolExecutor

VERIF = os.path.dirname(os.path.dirname(os.path.abspath(__file__)))
REPO = os.environ.get('VERIF_REPO', '/repo')
VX = os.path.join(VERIF, 'build', 'vx')
CACHE = os.path.join(VERIF, '.cache')


class AnalysisBroken(Exception):
    """The analysis cannot give a verdict (anchor vanished, unit failed to parse, ...): exit 2."""


def unit_list(repo=REPO):
    """Translation units of the three libraries, read from lib/CMakeLists.txt on every run."""
    path = os.path.join(repo, 'lib', 'CMakeLists.txt')
    try:
        txt = open(path).read()
    except OSError as e:
        raise AnalysisBroken(f'cannot read {path}: {e}')
    units = []
    for var in ('VORBIS_SOURCES', 'VORBISFILE_SOURCES', 'VORBISENC_SOURCES'):
        m = re.search(r'set\(\s*' + var + r'\s+([^)]*)\)', txt)
        if not m:
            raise AnalysisBroken(f'{var} not found in lib/CMakeLists.txt')
        for w in m.group(1).split():
            if w.endswith('.c'):
                units.append(os.path.join(repo, 'lib', w))
    if len(units) < 20:
        raise AnalysisBroken(f'only {len(units)} units found in lib/CMakeLists.txt')
    # cross-check with the ninja compile database when a build tree exists
    bn = os.path.join(repo, '_build', 'build.ninja')
    if os.path.exists(bn):
        try:
            out = subprocess.run(['ninja', '-C', os.path.join(repo, '_build'), '-t', 'compdb'],
                                 capture_output=True, text=True, timeout=60).stdout
            db = json.loads(out)
            built = {e['file'] for e in db if e['file'].startswith(os.path.join(repo, 'lib') + os.sep)
                     and e['file'].endswith('.c')}
            if built and built != set(units):
                # a stale build tree is not an error of the source; only note it
                pass
        except Exception:
            pass
    return units


def _source_hash(repo, units):
    h = hashlib.sha256()
    files = []
    for root in (os.path.join(repo, 'lib'), os.path.join(repo, 'include')):
        for dp, dn, fn in os.walk(root):
            for f in fn:
                if f.endswith(('.c', '.h')) or f == 'CMakeLists.txt':
                    files.append(os.path.join(dp, f))
    for f in sorted(files):
        h.update(f.encode())
        with open(f, 'rb') as fh:
            h.update(hashlib.sha256(fh.read()).digest())
    st = os.stat(VX)
    h.update(f'{st.st_size}:{st.st_mtime_ns}'.encode())
    return h.hexdigest()[:24]


_RESDIR = None


def _resource_dir():
    global _RESDIR
    if _RESDIR is None:
        _RESDIR = subprocess.run(['clang', '-print-resource-dir'], capture_output=True, text=True).stdout.strip()
    return _RESDIR


def flags(repo=REPO):
    return ['-I' + os.path.join(repo, 'include'), '-I' + os.path.join(repo, 'lib'), '-DNDEBUG', '-std=gnu11',
            '-UXIPH_VORBIS_VERIF', '-resource-dir', _resource_dir(), '-w']


def extract(repo=REPO):
    """Run vx on all units (parallel), return list of unit fact dicts."""
    if not os.path.exists(VX):
        raise AnalysisBroken(f'{VX} missing: run MANIFEST.setup_cmd (make -C /verif)')
    units = unit_list(repo)
    key = _source_hash(repo, units)
    outdir = os.path.join(CACHE, 'facts-' + key)
    done = os.path.join(outdir, '.done')
    if not os.path.exists(done):
        os.makedirs(CACHE, exist_ok=True)
        # prune older fact dirs (disk hygiene)
        for d in os.listdir(CACHE):
            p = os.path.join(CACHE, d)
            if d.startswith('facts-') and p != outdir:
                try:
                    if time.time() - os.path.getmtime(p) > 3600:
                        subprocess.run(['rm', '-rf', p])
                except OSError:
                    pass
        # several checks may start side by side on a fresh tree: each extracts into a directory of its own and
        # publishes it with one atomic rename; whoever comes second keeps the published one
        import tempfile, shutil
        tmp = tempfile.mkdtemp(prefix='facts-' + key + '.tmp.', dir=CACHE)

        def one(u):
            out = os.path.join(tmp, os.path.basename(u) + '.json')
            r = subprocess.run([VX, repo, out, u, '--'] + flags(repo), capture_output=True, text=True)
            return u, r.returncode, r.stderr
        with ThreadPoolExecutor(max_workers=16) as ex:
            res = list(ex.map(one, units))
        for u, rc, err in res:
            if rc != 0:
                shutil.rmtree(tmp, ignore_errors=True)
                raise AnalysisBroken(f'vx failed on {u}: {err[-2000:]}')
        open(os.path.join(tmp, '.done'), 'w').write('ok')
        for attempt in range(3):
            try:
                os.rename(tmp, outdir)
                break
            except OSError:
                if os.path.exists(done):
                    shutil.rmtree(tmp, ignore_errors=True)
                    break
                shutil.rmtree(outdir, ignore_errors=True)      # a stale, unfinished directory
        else:
            outdir = tmp
    facts = []
    for u in units:
        p = os.path.join(outdir, os.path.basename(u) + '.json')
        try:
            d = json.load(open(p))
        except Exception as e:
            raise AnalysisBroken(f'cannot load facts for {u}: {e}')
        if d.get('errors'):
            raise AnalysisBroken(f'unit {u} has {d["errors"]} parse errors')
        facts.append(d)
    return facts


# ----------------------------------------------------------------------------------------------------
class Function:
    def __init__(self, unit, d):
        self.unit = unit
        self.d = d
        self.name = d['name']
        self.file = d['file']
        self.line = d['line']
        self.static = d.get('static', False)
        self.params = d['params']
        self.vars = {v['id']: v for v in d.get('vars', [])}
        self.ex = {int(k): v for k, v in d.get('exprs', {}).items()}
        for k, v in self.ex.items():
            v['id'] = k
        self.blocks = {b['id']: b for b in d.get('blocks', [])}
        self.entry = d.get('entry')
        self.exit = d.get('exit')
        self._prep()

    # -- structure ----------------------------------------------------------------------------
    def _prep(self):
        self.preds = {b: [] for b in self.blocks}
        for b, blk in self.blocks.items():
            blk['succs'] = [s for s in blk['succs']]
            for s in blk['succs']:
                if s is not None:
                    self.preds[s].append(b)
        # reachable blocks
        seen = set()
        st = [self.entry] if self.entry is not None else []
        while st:
            b = st.pop()
            if b in seen:
                continue
            seen.add(b)
            for s in self.blocks[b]['succs']:
                if s is not None and s not in seen:
                    st.append(s)
        self.reach = seen
        # element set and positions
        self.elem_set = set()
        for b in self.blocks.values():
            for e in b['elems']:
                self.elem_set.add(e)
        self.pos = {}
        self.parent = {}
        for bid in sorted(self.blocks):
            blk = self.blocks[bid]
            for idx, e in enumerate(blk['elems']):
                if e not in self.pos:
                    self.pos[e] = (bid, idx)
                stack = [e]
                while stack:
                    n = stack.pop()
                    for c in self.ex[n].get('c', []):
                        if c == 0:
                            continue
                        self.parent.setdefault(c, n)
                        if c in self.elem_set:
                            continue
                        if c not in self.pos:
                            self.pos[c] = (bid, idx)
                        stack.append(c)
            t = blk.get('term')
            if t and t.get('cond') and t['cond'] not in self.pos:
                # condition not listed as element (switch): evaluate at block end
                e = t['cond']
                self.pos[e] = (bid, len(blk['elems']))
                stack = [e]
                while stack:
                    n = stack.pop()
                    for c in self.ex[n].get('c', []):
                        if c and c not in self.pos and c not in self.elem_set:
                            self.parent.setdefault(c, n)
                            self.pos[c] = (bid, len(blk['elems']))
                            stack.append(c)
        # true parents over the whole pool (a node has one syntactic parent)
        self.sparent = {}
        for n, node in self.ex.items():
            for c in node.get('c', []):
                if c:
                    self.sparent[c] = n

    def node(self, e):
        return self.ex[e]

    def walk(self, e, into_elems=True):
        """All node ids of the tree rooted at e (pre-order)."""
        st = [e]
        while st:
            n = st.pop()
            if not n:
                continue
            yield n
            cs = self.ex[n].get('c', [])
            for c in reversed(cs):
                if c and (into_elems or c not in self.elem_set):
                    st.append(c)

    def nodes(self, kind=None):
        """All nodes that are evaluated somewhere in the CFG (have a position)."""
        for n in self.pos:
            if kind is None or self.ex[n]['k'] == kind:
                yield n

    def calls(self, name=None):
        for n in self.pos:
            nd = self.ex[n]
            if nd['k'] == 'call':
                if name is None or nd['callee'].get('d') == name:
                    yield n

    def loc(self, e):
        n = self.ex.get(e)
        if n and 'loc' in n:
            return n['loc'][0]
        # climb
        p = self.sparent.get(e)
        while p:
            if 'loc' in self.ex[p]:
                return self.ex[p]['loc'][0]
            p = self.sparent.get(p)
        return self.line

    def where(self, e=None):
        ln = self.loc(e) if e else self.line
        return f'{os.path.relpath(self.file, REPO)}:{ln}'

    # -- pretty printer (diagnostics and canonical keys; never parsed back) -----------------------
    def s(self, e, names=True):
        n = self.ex.get(e)
        if n is None:
            return '?'
        k = n['k']
        c = n.get('c', [])
        if k == 'int':
            return str(n['v'])
        if k == 'flt':
            return repr(n['v'])
        if k == 'str':
            return json.dumps(n.get('v', ''))
        if k == 'ref':
            return n['decl']['name'] if names else ('$' if n['decl']['kind'] in ('var', 'param') else n['decl']['name'])
        if k == 'member':
            return self.s(c[0], names) + ('->' if n['arrow'] else '.') + n['field']
        if k == 'sub':
            return f'{self.s(c[0], names)}[{self.s(c[1], names)}]'
        if k == 'un':
            op = n['op']
            if op.startswith('post'):
                return f'{self.s(c[0], names)}{op[4:]}'
            if op.startswith('pre'):
                return f'{op[3:]}{self.s(c[0], names)}'
            return f'{op}{self.s(c[0], names)}'
        if k in ('bin', 'assign'):
            return f'({self.s(c[0], names)}{n["op"]}{self.s(c[1], names)})'
        if k == 'comma':
            return f'({self.s(c[0], names)},{self.s(c[1], names)})'
        if k == 'cond':
            return f'({self.s(c[0], names)}?{self.s(c[1], names)}:{self.s(c[2], names)})'
        if k == 'call':
            cal = n['callee']
            nm = cal.get('d') or ('.'.join(cal['slot']) if 'slot' in cal else cal.get('name', '?'))
            return f'{nm}({",".join(self.s(x, names) for x in c)})'
        if k == 'cast':
            if n.get('explicit'):
                return f'({n["t"]}){self.s(c[0], names)}'
            return self.s(c[0], names)
        if k == 'ret':
            return 'return ' + (self.s(c[0], names) if c else '')
        if k == 'decl':
            out = []
            for v in n['vars']:
                out.append(v['name'] + ('=' + self.s(v['init'], names) if v.get('init') else ''))
            return 'decl ' + ','.join(out)
        if k == 'init':
            return '{' + ','.join(self.s(x, names) for x in c) + '}'
        return f'<{k}>'

    def strip_casts(self, e):
        while self.ex[e]['k'] == 'cast':
            e = self.ex[e]['c'][0]
        return e


class Program:
    def __init__(self, facts, repo=REPO):
        self.repo = repo
        self.units = []
        self.records = {}
        self.globals = {}
        self.global_list = []
        self.fn = {}            # key -> Function ; key = name, or "unit.c:name" on collision
        self.by_name = {}       # name -> [Function]
        self.decls = {}         # name -> [decl]
        seen_fn = set()
        for u in facts:
            uname = os.path.basename(u['file'])
            self.units.append(uname)
            for r in u['records']:
                self.records.setdefault(r['name'], r)
            for g in u['globals']:
                gk = (g['name'], g['file'], g.get('fn'))
                if gk in [(x['name'], x['file'], x.get('fn')) for x in self.globals.get(g['name'], [])]:
                    continue
                self.globals.setdefault(g['name'], []).append(g)
                self.global_list.append(g)
            for d in u['decls']:
                self.decls.setdefault(d['name'], []).append(d)
            for f in u['functions']:
                # functions defined in headers appear in several units: keep one per (file,name)
                k = (f['file'], f['name'])
                if k in seen_fn:
                    continue
                seen_fn.add(k)
                F = Function(uname, f)
                self.by_name.setdefault(F.name, []).append(F)
        for name, lst in self.by_name.items():
            if len(lst) == 1:
                self.fn[name] = lst[0]
            else:
                for F in lst:
                    self.fn[f'{os.path.basename(F.file)}:{name}'] = F
        self._slots()
        self._callgraph()

    # -- lookup --------------------------------------------------------------------------------
    def get(self, name, frm=None):
        """Resolve a function name as seen from function `frm` (static functions are per file)."""
        lst = self.by_name.get(name)
        if not lst:
            return None
        if len(lst) == 1:
            return lst[0]
        if frm is not None:
            for F in lst:
                if F.file == frm.file:
                    return F
            for F in lst:
                if not F.static:
                    return F
        return lst[0]

    def need(self, name):
        F = self.get(name)
        if F is None:
            raise AnalysisBroken(f'anchor function {name} not found in the analysed units')
        return F

    def key(self, F):
        return F.name if len(self.by_name[F.name]) == 1 else f'{os.path.basename(F.file)}:{F.name}'

    def functions(self):
        return list(self.fn.values())

    def record(self, name):
        r = self.records.get(name)
        if r is None:
            raise AnalysisBroken(f'anchor record {name} not found')
        return r

    def field(self, rec, field):
        r = self.record(rec)
        for f in r['fields']:
            if f['name'] == field:
                return f
        raise AnalysisBroken(f'anchor field {rec}.{field} not found')

    def public_api(self, header=None):
        """Names declared in the public headers (include/vorbis/*.h)."""
        out = {}
        inc = os.path.join(self.repo, 'include', 'vorbis') + os.sep
        for name, ds in self.decls.items():
            for d in ds:
                if d['file'].startswith(inc):
                    h = os.path.basename(d['file'])
                    if header is None or h == header:
                        out[name] = h
        return out

    # -- slots -----------------------------------------------------------------------------------
    def _slots(self):
        """(record, field) -> set of function names stored there by static initialisers."""
        self.slots = {}

        def visit(init):
            if not isinstance(init, dict):
                return
            if init.get('kind') == 'list':
                rec = init.get('record')
                fields = init.get('fields')
                for i, e in enumerate(init['elems']):
                    if rec and fields and i < len(fields) and isinstance(e, dict) and e.get('kind') == 'ref' and e.get('fn'):
                        self.slots.setdefault((rec, fields[i]), set()).add(e['name'])
                    visit(e)
        for g in self.global_list:
            visit(g.get('init'))

    # -- call graph ------------------------------------------------------------------------------
    def _callgraph(self):
        self.callees = {}     # key -> set of keys (internal) / 'ext:name' / 'cb:field'
        self.callsites = {}   # key -> list of (caller Function, call expr id)
        self.param_bind = {}  # (key, param id) -> set of function names passed
        fns = self.functions()
        # first pass: bind function-typed parameters
        for F in fns:
            for n in F.ex:
                nd = F.ex[n]
                if nd['k'] != 'call':
                    continue
                tgt = nd['callee'].get('d')
                if not tgt:
                    continue
                G = self.get(tgt, F)
                if G is None:
                    continue
                for i, a in enumerate(nd.get('c', [])):
                    a = F.strip_casts(a)
                    an = F.ex[a]
                    if an['k'] == 'un' and an['op'] == '&':
                        an = F.ex[F.strip_casts(an['c'][0])]
                    if an['k'] == 'ref' and an['decl']['kind'] == 'fn' and i < len(G.params):
                        self.param_bind.setdefault((self.key(G), G.params[i]['id']), set()).add(an['decl']['name'])
                    elif an['k'] == 'ref' and an['decl']['kind'] == 'param' and i < len(G.params):
                        # parameter forwarded: resolved by fixpoint below
                        self.param_bind.setdefault((self.key(G), G.params[i]['id']), set()).add(('fwd', self.key(F), an['decl']['id']))
        changed = True
        while changed:
            changed = False
            for k, vs in list(self.param_bind.items()):
                for v in list(vs):
                    if isinstance(v, tuple):
                        src = self.param_bind.get((v[1], v[2]), set())
                        for s in src:
                            if not isinstance(s, tuple) and s not in vs:
                                vs.add(s)
                                changed = True
        for F in fns:
            k = self.key(F)
            out = set()
            for n in F.ex:
                nd = F.ex[n]
                if nd['k'] == 'call':
                    for t in self.call_targets(F, n):
                        out.add(t)
                        if not t.startswith(('ext:', 'cb:', 'unk:')):
                            self.callsites.setdefault(t, []).append((F, n))
                elif nd['k'] == 'ref' and nd['decl']['kind'] == 'fn':
                    # function used as a value (qsort comparator, stored pointer): may be called
                    p = F.sparent.get(n)
                    if p and F.ex[p]['k'] == 'call' and F.ex[p].get('fnexpr') == n:
                        continue
                    G = self.get(nd['decl']['name'], F)
                    if G is not None:
                        pk = F.sparent.get(n)
                        # skip the callee position of direct calls (not exported as child) -- value use only
                        out.add(self.key(G))
            self.callees[k] = out

    def call_targets(self, F, n):
        """Resolved targets of call node n in F."""
        nd = F.ex[n]
        cal = nd['callee']
        if 'd' in cal:
            G = self.get(cal['d'], F)
            return [self.key(G)] if G is not None else ['ext:' + cal['d']]
        if 'slot' in cal:
            rec, fld = cal['slot']
            if rec == 'ov_callbacks':
                return ['cb:' + fld]
            tg = self.slots.get((rec, fld))
            if tg:
                out = []
                for t in sorted(tg):
                    G = self.get(t, None)
                    out.append(self.key(G) if G is not None else 'ext:' + t)
                return out
            return [f'unk:{rec}.{fld}']
        if 'param' in cal:
            tg = self.param_bind.get((self.key(F), cal['param']), set())
            out = []
            for t in sorted(x for x in tg if not isinstance(x, tuple)):
                G = self.get(t, None)
                out.append(self.key(G) if G is not None else 'ext:' + t)
            return out or [f'unk:param:{cal.get("name")}']
        if 'var' in cal:
            # a call through a local function pointer: follow the local's only definition (`int (*const seek)(..)=vf->callbacks.seek_func`)
            vid = cal['var']
            inits, other = [], 0
            for m, md in F.ex.items():
                if md['k'] == 'decl':
                    for v in md.get('vars', ()):
                        if v.get('id') == vid and v.get('init'):
                            inits.append(v['init'])
                elif md['k'] == 'assign':
                    l = F.ex[F.strip_casts(md['c'][0])]
                    if l['k'] == 'ref' and l['decl'].get('id') == vid:
                        if md.get('op') == '=':
                            inits.append(md['c'][1])
                        else:
                            other += 1
                elif md['k'] == 'un' and md.get('op') == '&':
                    l = F.ex[F.strip_casts(md['c'][0])]
                    if l['k'] == 'ref' and l['decl'].get('id') == vid:
                        other += 1
            if len(inits) == 1 and not other:
                d = F.ex[F.strip_casts(inits[0])]
                while d['k'] == 'paren':
                    d = F.ex[F.strip_casts(d['c'][0])]
                if d['k'] == 'member' and d.get('record') == 'ov_callbacks':
                    return ['cb:' + d['field']]
                if d['k'] == 'member' and self.slots.get((d.get('record'), d.get('field'))):
                    out = []
                    for t in sorted(self.slots[(d['record'], d['field'])]):
                        G = self.get(t, None)
                        out.append(self.key(G) if G is not None else 'ext:' + t)
                    return out
                if d['k'] == 'ref' and d['decl'].get('kind') == 'func':
                    G = self.get(d['decl'].get('name'), F)
                    return [self.key(G)] if G is not None else ['ext:' + d['decl'].get('name', '?')]
        return ['unk:' + F.s(nd.get('fnexpr', 0))]

    def reachable(self, roots):
        """Transitive closure over the call graph from function keys `roots`. Returns dict key->parent."""
        par = {}
        st = []
        for r in roots:
            if r not in par:
                par[r] = None
                st.append(r)
        while st:
            k = st.pop()
            for t in sorted(self.callees.get(k, ())):
                if t not in par:
                    par[t] = k
                    st.append(t)
        return par

    @staticmethod
    def path_to(par, t):
        p = []
        while t is not None:
            p.append(t)
            t = par[t]
        return list(reversed(p))


_PROG = None


def load(repo=REPO):
    global _PROG
    if _PROG is None:
        _PROG = Program(extract(repo), repo)
    return _PROG


if __name__ == '__main__':
    t = time.time()
    P = load()
    print(f'{len(P.units)} units, {len(P.fn)} functions, {len(P.records)} records, {len(P.global_list)} globals, '
          f'{len(P.slots)} slots in {time.time()-t:.1f}s')
    for k, v in sorted(P.slots.items()):
        print(k, sorted(v))
