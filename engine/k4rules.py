"""K4-based rule groups shared by several properties (filled in as the range analysis is built)."""


def c16(chk, P):
    return


def c03(chk, P):
    return
