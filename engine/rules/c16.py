"""C16 — comments survive the round trip; queries are consistent (partial, DESIGN 4/C16).

Decided: R16.1 comment header writer == reader == specification (shared with C05/C01); R16.3 tag folding is locale-free;
R16.4 vorbis_comment_query and vorbis_comment_query_count apply one and the same match predicate over the same range;
R16.2/R16.5 allocation sizes of the unpacker and of vorbis_comment_add (K4, see rules/c16 R16.2)."""
import k8
from facts import AnalysisBroken
from rules import common, layout, c05


def r16_3(chk, P):
    chk.rule('R16.3', 'no locale-dependent libc function (toupper, tolower, strcasecmp, isalpha, ...) is reachable from '
             'vorbis_comment_query / vorbis_comment_query_count: tag folding is the private ASCII-only _v_toupper')
    bad = {'ext:' + x for x in common.LOCALE_DEPENDENT}
    for en in ('vorbis_comment_query', 'vorbis_comment_query_count'):
        F = P.need(en)
        par = P.reachable([P.key(F)])
        hit = sorted(bad & set(par))
        chk.ob('R16.3', en, 'locale-free-folding', not hit, F.where(),
               f'reaches {hit[0][4:]}' if hit else f'{len(par)} functions reachable: {sorted(x for x in par if not x.startswith("ext:"))}',
               path=P.path_to(par, hit[0]) if hit else None)
    # the folding helper itself: only ASCII arithmetic (no call at all)
    T = P.get('_v_toupper')
    if T is not None:
        calls = [T.s(e) for e in T.calls()]
        chk.ob('R16.3', '_v_toupper', 'pure-ascii-fold', not calls, T.where(), f'calls: {calls}')


def match_predicate(P, F, sk):
    """canonical description of when an entry counts as a match: the conditions (with polarity) that control the
    increment of the match counter, locals expanded by their single definitions, minus conditions over locals only"""
    incs = []
    for n in F.pos:
        nd = F.ex[n]
        if nd['k'] == 'un' and nd['op'] in ('post++', 'pre++'):
            t = F.ex[F.strip_casts(nd['c'][0])]
            if t['k'] == 'ref' and t['decl']['kind'] == 'var':
                # not the loop induction variable: the induction variable is compared in a loop condition
                incs.append((n, t['decl']['id'], t['decl']['name']))
    out = {}
    for n, vid, nm in incs:
        conds = common.controlling_conditions(F, n)
        if not conds:
            continue
        cs = []
        for c, pol in conds:
            s = common.canon_x(F, c, sk)
            if '.' not in s and '(' not in s.replace('(', '', 1):
                pass
            cs.append(('' if pol else '!') + s)
        out[nm] = cs
    return out


def r16_4(chk, P):
    chk.rule('R16.4', 'vorbis_comment_query and vorbis_comment_query_count decide "entry i matches tag" by the same predicate: '
             'the branch conditions controlling their match counters (callee, argument shapes with locals expanded to their '
             'definitions, loop range) are equal once conditions that only relate locals/parameters to each other are set aside')
    sk = k8.Skel(P, 'r')
    Q = P.need('vorbis_comment_query')
    C = P.need('vorbis_comment_query_count')
    pq = match_predicate(P, Q, sk)
    pc = match_predicate(P, C, sk)

    def pick(d, F):
        # the counter that is controlled by a call condition (tagcompare); drop pure-local conditions
        best = None
        for nm, cs in d.items():
            if any('(' in c and '.' in c for c in cs):
                keep = [c for c in cs if '.' in c]
                if best is None or len(keep) > len(best):
                    best = keep
        return best
    a, b = pick(pq, Q), pick(pc, C)
    chk.require(a is not None and b is not None, 'match counters not found in the comment query functions')
    chk.ob('R16.4', 'vorbis_comment_query', 'same-match-predicate', sorted(a) == sorted(b), Q.where(),
           f'query: {a}  query_count: {b}')


def run(chk, P):
    chk.rule('R16.1', 'comment header: _vorbis_pack_comment mirrors _vorbis_unpack_comment (see R05.1) and the reader '
             'implements the layout of 05-comment.tex (see R01.1)')
    c05.r05_1(chk, P, rule='R16.1', only={'_vorbis_pack_comment'})
    sp = [s for s in layout.SPEC if s[0] == 'comment header']
    saved = layout.SPEC
    try:
        layout.SPEC = sp
        layout.spec_vs_reader(chk, 'R16.1', P)
    finally:
        layout.SPEC = saved
    chk.floor('R16.1', 3)
    r16_3(chk, P)
    chk.floor('R16.3', 3)
    r16_4(chk, P)
    chk.floor('R16.4', 1)
    import k4rules
    k4rules.c16(chk, P)
    chk.trusted += ['clang 14 front end', 'libc: strlen/strcpy/strcat have their ISO C meaning']
    return ('Comment header writer/reader/specification layouts are compared (K8); the query functions are compared as '
            'siblings (same match predicate); locale-dependent libc is proven unreachable (K1). Decides the structural '
            'clauses of the comment round trip and query consistency; does not decide byte equality of content.')
