"""C16 — comments survive the round trip; queries are consistent (partial, DESIGN 4/C16).

Decided: R16.1 comment header writer == reader == specification (shared with C05/C01); R16.3 tag folding is locale-free;
R16.4 vorbis_comment_query and vorbis_comment_query_count apply one and the same match predicate over the same range;
R16.2/R16.5 allocation sizes of the unpacker and of vorbis_comment_add (K4, see rules/c16 R16.2)."""
import cfg
import k8
from facts import AnalysisBroken
from rules import common, layout, c05


def r16_3(chk, P):
    chk.rule('R16.3', 'no locale-dependent libc function (toupper, tolower, strcasecmp, isalpha, ...) is reachable from '
             'vorbis_comment_query / vorbis_comment_query_count: tag folding is the private ASCII-only _v_toupper')
    bad = {'ext:' + x for x in common.LOCALE_DEPENDENT}
    for en in ('vorbis_comment_query', 'vorbis_comment_query_count'):
        F = P.need(en)
        par = P.reachable([P.key(F)])
        hit = sorted(bad & set(par))
        chk.ob('R16.3', en, 'locale-free-folding', not hit, F.where(),
               f'reaches {hit[0][4:]}' if hit else f'{len(par)} functions reachable: {sorted(x for x in par if not x.startswith("ext:"))}',
               path=P.path_to(par, hit[0]) if hit else None)
    # the folding helper itself: only ASCII arithmetic (no call at all)
    T = P.get('_v_toupper')
    if T is not None:
        calls = [T.s(e) for e in T.calls()]
        chk.ob('R16.3', '_v_toupper', 'pure-ascii-fold', not calls, T.where(), f'calls: {calls}')


def match_predicate(P, F, sk):
    """canonical description of when an entry counts as a match: the conditions (with polarity) that control the
    increment of the match counter, locals expanded by their single definitions, minus conditions over locals only"""
    incs = []
    for n in F.pos:
        nd = F.ex[n]
        if nd['k'] == 'un' and nd['op'] in ('post++', 'pre++'):
            t = F.ex[F.strip_casts(nd['c'][0])]
            if t['k'] == 'ref' and t['decl']['kind'] == 'var':
                # not the loop induction variable: the induction variable is compared in a loop condition
                incs.append((n, t['decl']['id'], t['decl']['name']))
    out = {}
    for n, vid, nm in incs:
        conds = common.controlling_conditions(F, n)
        if not conds:
            continue
        cs = []
        for c, pol in conds:
            s = common.canon_x(F, c, sk)
            if '.' not in s and '(' not in s.replace('(', '', 1):
                pass
            cs.append(('' if pol else '!') + s)
        out[nm] = cs
    return out


def r16_4(chk, P):
    chk.rule('R16.4', 'vorbis_comment_query and vorbis_comment_query_count decide "entry i matches tag" by the same predicate: '
             'the branch conditions controlling their match counters (callee, argument shapes with locals expanded to their '
             'definitions, loop range) are equal once conditions that only relate locals/parameters to each other are set aside')
    sk = k8.Skel(P, 'r')
    Q = P.need('vorbis_comment_query')
    C = P.need('vorbis_comment_query_count')
    pq = match_predicate(P, Q, sk)
    pc = match_predicate(P, C, sk)

    def pick(d, F):
        # the counter that is controlled by a call condition (tagcompare); drop pure-local conditions
        best = None
        for nm, cs in d.items():
            if any('(' in c and '.' in c for c in cs):
                keep = [c for c in cs if '.' in c]
                if best is None or len(keep) > len(best):
                    best = keep
        return best
    a, b = pick(pq, Q), pick(pc, C)
    chk.require(a is not None and b is not None, 'match counters not found in the comment query functions')
    chk.ob('R16.4', 'vorbis_comment_query', 'same-match-predicate', sorted(a) == sorted(b), Q.where(),
           f'query: {a}  query_count: {b}')


def r16_2(chk, P):
    chk.rule('R16.2', 'in _vorbis_unpack_comment every string is allocated zero-filled with one byte more than the length that is '
             'then read into it (calloc(len+1,1) ... _v_readstring(opb,dest,len) with the same destination and the same length '
             'expression), the stored length is that same value, and the two parallel arrays are both allocated with '
             'comments+1 entries: strings come back NUL-terminated with exactly their bytes')
    sk = k8.Skel(P, 'r')
    F = P.need('_vorbis_unpack_comment')
    defs = common.single_defs(F)
    allocs = {}      # canon of destination -> (count canon, size canon, eid)
    for e in sorted(F.pos):
        nd = F.ex[e]
        if nd['k'] == 'assign' and nd['op'] == '=':
            r = F.ex[F.strip_casts(nd['c'][1])]
            if r['k'] == 'call' and r['callee'].get('d') == 'calloc':
                b_, off_ = sk.affine(F, r['c'][0])
                allocs[sk.canon(F, F.strip_casts(nd['c'][0]))] = (F.s(F.strip_casts(r['c'][0])), F.s(F.strip_casts(r['c'][1])), e,
                                                                   F.s(F.strip_casts(b_)), off_)
    reads = list(F.calls('_v_readstring'))
    chk.require(len(reads) >= 2 and allocs, '_vorbis_unpack_comment: string reads / allocations not found')
    for i, c in enumerate(sorted(reads, key=lambda x: F.ex[x]['loc'])):
        a = F.ex[c]['c']
        dest = sk.canon(F, F.strip_casts(a[1]))
        ln = F.s(F.strip_casts(a[2]))
        al = allocs.get(dest)
        ok = al is not None and al[3] == ln and al[4] == 1 and al[1] == '1' and cfg.pos_dominates(F, al[2], c)
        chk.ob('R16.2', F.name, f'string#{i}:allocated-len+1-filled-len', ok, F.where(c),
               f'destination {dest}: calloc({al[0]},{al[1]}) then {ln} bytes read' if al else f'no calloc found for destination {dest}')
    cnt = [(d, v) for d, v in allocs.items() if d in ('.user_comments', '.comment_lengths')]
    ok = len(cnt) == 2 and len({(v[3], v[4]) for d, v in cnt}) == 1 and all('comments' in v[3] and v[4] == 1 for d, v in cnt)
    chk.ob('R16.2', F.name, 'parallel-arrays-comments+1', ok, F.where(), f'{[(d, v[0]) for d, v in cnt]}')
    # the recorded length is the length read
    lens = []
    for e in sorted(F.pos):
        nd = F.ex[e]
        if nd['k'] == 'assign' and nd['op'] == '=' and '.comment_lengths[' in sk.canon(F, F.strip_casts(nd['c'][0])):
            lens.append((e, F.s(F.strip_casts(nd['c'][1]))))
    rd = [F.s(F.strip_casts(F.ex[c]['c'][2])) for c in reads]
    ok = bool(lens) and all(v in rd for e, v in lens)
    chk.ob('R16.2', F.name, 'stored-length-is-length-read', ok, F.where(lens[0][0]) if lens else F.where(), f'stored {[v for e, v in lens]}; read {rd}')


def r16_5(chk, P):
    chk.rule('R16.5', 'vorbis_comment_add grows both parallel arrays by the same element count (comments+2: the new entry and the '
             'terminating NULL), allocates the new string with its length+1, and stores the terminating NULL at the incremented '
             'count: the NULL stays inside the allocation')
    sk = k8.Skel(P, 'r')
    F = P.need('vorbis_comment_add')
    grow = {}
    for e in sorted(F.pos):
        nd = F.ex[e]
        if nd['k'] == 'assign' and nd['op'] == '=':
            r = F.ex[F.strip_casts(nd['c'][1])]
            if r['k'] == 'call' and r['callee'].get('d') == 'realloc':
                sz = F.ex[F.strip_casts(r['c'][1])]
                ce = sz['c'][0] if sz['k'] == 'bin' and sz['op'] == '*' else r['c'][1]
                if sz['k'] == 'bin' and sz['op'] == '*' and F.ex[F.strip_casts(sz['c'][0])]['k'] == 'int':
                    ce = sz['c'][1]
                b_, off_ = sk.affine(F, ce)
                grow[sk.canon(F, F.strip_casts(nd['c'][0]))] = f'({common.canon_at(F, F.strip_casts(b_), sk, e)}+{off_})'
    ok = set(grow) >= {'.user_comments', '.comment_lengths'} and grow['.user_comments'] == grow['.comment_lengths'] == '(.comments+2)'
    chk.ob('R16.5', F.name, 'both-arrays-grow-by-comments+2', ok, F.where(), f'{grow}')
    # new string: malloc(length+1)
    ok2 = False
    for c in F.calls('malloc'):
        b_, off_ = sk.affine(F, F.ex[c]['c'][0])
        a = common.canon_at(F, F.strip_casts(b_), sk, c)
        if off_ == 1 and a in ('.comment_lengths[.comments]', 'strlen($)'):
            ok2 = True
    chk.ob('R16.5', F.name, 'string-allocated-length+1', ok2, F.where(), 'the copy has room for the terminating NUL')
    # NULL terminator stored after the increment
    inc = [e for e in F.pos if F.ex[e]['k'] == 'un' and F.ex[e]['op'] in ('post++', 'pre++') and sk.canon(F, F.strip_casts(F.ex[e]['c'][0])) == '.comments']
    nul = [e for e in F.pos if F.ex[e]['k'] == 'assign' and common.canon_at(F, F.strip_casts(F.ex[e]['c'][0]), sk, e) == '.user_comments[.comments]'
           and common.is_zero(F, F.ex[e]['c'][1])]
    ok3 = bool(inc) and bool(nul) and all(cfg.pos_dominates(F, inc[0], n_) for n_ in nul)
    chk.ob('R16.5', F.name, 'terminator-at-incremented-count', ok3, F.where(nul[0]) if nul else F.where(),
           'user_comments[comments]=NULL after comments++ (index old+1 < old+2)')


def r16_6(chk, P):
    chk.rule('R16.6', 'an entry matches a tag exactly when its first strlen(tag)+1 bytes fold to "TAG=": every further condition on the '
             'way to the match counter of vorbis_comment_query / vorbis_comment_query_count is one that a match implies -- the loop '
             'range, conditions over locals/parameters only, a null test of the entry, or a linear condition over the entry\'s length '
             'and the pattern length that follows from  length >= strlen(entry) >= strlen(tag)+1  (exact linear domain).  A length '
             'pre-check that is off by one (`>` for `>=`) hides every entry with an empty value from both functions alike, so the '
             'sibling comparison R16.4 cannot see it')
    import linrel
    sk = k8.Skel(P, 'r')
    n = 0
    for fn in ('vorbis_comment_query', 'vorbis_comment_query_count'):
        F = P.need(fn)
        defs = common.single_defs(F)

        def lin(e, depth=0):
            """linear form {var: coef}, const over: len (recorded length of the entry), slen (strlen of the entry), tlen (strlen of the tag)"""
            e = F.strip_casts(e)
            nd = F.ex[e]
            k = nd['k']
            if k == 'paren':
                return lin(nd['c'][0], depth)
            if k == 'int':
                return {}, nd['v']
            c = sk.canon(F, e)
            if c.startswith('.comment_lengths['):
                return {'len': 1}, 0
            if k == 'call' and nd['callee'].get('d') == 'strlen' and nd.get('c'):
                a = F.ex[F.strip_casts(nd['c'][0])]
                ca = sk.canon(F, F.strip_casts(nd['c'][0]))
                if ca.startswith('.user_comments['):
                    return {'slen': 1}, 0
                if a['k'] == 'ref' and a['decl']['kind'] == 'param':
                    return {'tlen': 1}, 0
                return None
            if k == 'ref' and nd['decl']['kind'] == 'var' and nd['decl']['id'] in defs and depth < 3:
                return lin(defs[nd['decl']['id']], depth + 1)
            if k == 'bin' and nd['op'] in ('+', '-'):
                a, b = lin(nd['c'][0], depth), lin(nd['c'][1], depth)
                if a is None or b is None:
                    return None
                s_ = 1 if nd['op'] == '+' else -1
                d = dict(a[0])
                for v, q in b[0].items():
                    d[v] = d.get(v, 0) + s_ * q
                return d, a[1] + s_ * b[1]
            return None
        for site, vid, nm in [(n_, v_, m_) for n_, v_, m_ in _counters(F)]:
            atoms = common.atomic_conditions(F, site)
            if not any(F.ex[F.strip_casts(c)]['k'] == 'call' for c, pol in atoms):
                continue
            for c, pol in atoms:
                c0 = F.strip_casts(c)
                nd = F.ex[c0]
                cs = sk.canon(F, c0)
                if nd['k'] == 'call':
                    continue            # the tag comparison itself (R16.4 compares it between the siblings)
                if '.' not in cs and 'strlen' not in cs:
                    continue            # relates locals / parameters only (which match is wanted, not whether it is one)
                if nd['k'] == 'bin' and nd['op'] in ('<', '<=', '>', '>=', '!=') and cs.replace(' ', '') in ('($<.comments)', '(.comments>$)', '($!=.comments)'):
                    continue            # the loop range
                if cs.startswith('.user_comments[') and pol:
                    continue            # null test of the entry
                ok = False
                why = 'not a linear condition over the lengths'
                if nd['k'] == 'bin' and nd['op'] in ('<', '<=', '>', '>=', '==', '!='):
                    a, b = lin(nd['c'][0]), lin(nd['c'][1])
                    if a is not None and b is not None:
                        op = nd['op']
                        if not pol:
                            op = {'<': '>=', '<=': '>', '>': '<=', '>=': '<', '==': '!=', '!=': '=='}[op]
                        po = linrel.Poly()
                        po.add_ge({'slen': 1, 'tlen': -1}, 1)     # a match of strlen(tag)+1 non-NUL bytes
                        po.add_ge({'len': 1, 'slen': -1}, 0)      # the recorded length covers the string
                        po.add_ge({'tlen': 1}, 0)
                        d = dict(a[0])
                        for v, q in b[0].items():
                            d[v] = d.get(v, 0) - q
                        k0 = b[1] - a[1]                            # a - b  (op)  0   <=>   d.x (op) k0
                        if op == '<=':
                            ok = po.entails(d, k0)
                        elif op == '<':
                            ok = po.entails(d, k0 - 1)
                        elif op == '>=':
                            ok = po.entails_ge(d, k0)
                        elif op == '>':
                            ok = po.entails_ge(d, k0 + 1)
                        elif op == '==':
                            ok = po.entails_eq(d, k0)
                        else:
                            ok = po.entails(d, k0 - 1) or po.entails_ge(d, k0 + 1)
                        why = 'follows from a match' if ok else 'a matching entry can fail it (length >= strlen(entry) >= strlen(tag)+1 does not imply it)'
                n += 1
                chk.ob('R16.6', fn, f'match-needs-only-the-tag:{cs}', ok, F.where(c0),
                       f'`{("" if pol else "!") + F.s(c0)}` controls `{F.s(site)}`: {why}')
        n += 1
        chk.ob('R16.6', fn, 'match-conditions-examined', True, F.where(), 'conditions on the way to the match counter classified')
    return n


def _counters(F):
    out = []
    for n in F.pos:
        nd = F.ex[n]
        if nd['k'] == 'un' and nd['op'] in ('post++', 'pre++'):
            t = F.ex[F.strip_casts(nd['c'][0])]
            if t['k'] == 'ref' and t['decl']['kind'] == 'var':
                out.append((n, t['decl']['id'], t['decl']['name']))
    return out


def r16_7(chk, P):
    chk.rule('R16.7', 'no legal byte of a comment is taken for the end of the packet: in the comment reader and the helpers it calls, '
             'a bit-reader result is tested against -1 / for sign only at a width that holds every value of the field '
             '(common.eop_alias; a byte kept in a `char` and then compared with -1 refuses the byte 0xFF)')
    U = P.need('_vorbis_unpack_comment')
    fs = [U] + [P.fn[k] for k in sorted(P.reachable([P.key(U)])) if k in P.fn and P.fn[k] is not U and P.fn[k].file == U.file]
    n = common.eop_alias(chk, P, 'R16.7', fs)
    common.eop_alias_selftest(chk, 'R16.7')
    chk.ob('R16.7', U.name, 'reader-closure-scanned', True, U.where(), f'{len(fs)} functions: {[f.name for f in fs]}; {n} sentinel tests')


def run(chk, P):
    chk.rule('R16.1', 'comment header: _vorbis_pack_comment mirrors _vorbis_unpack_comment (see R05.1) and the reader '
             'implements the layout of 05-comment.tex (see R01.1)')
    c05.r05_1(chk, P, rule='R16.1', only={'_vorbis_pack_comment'})
    sp = [s for s in layout.SPEC if s[0] == 'comment header']
    saved = layout.SPEC
    try:
        layout.SPEC = sp
        layout.spec_vs_reader(chk, 'R16.1', P)
    finally:
        layout.SPEC = saved
    chk.floor('R16.1', 3)
    r16_3(chk, P)
    chk.floor('R16.3', 3)
    r16_4(chk, P)
    chk.floor('R16.4', 1)
    r16_2(chk, P)
    chk.floor('R16.2', 2)
    r16_5(chk, P)
    chk.floor('R16.5', 3)
    r16_6(chk, P)
    chk.floor('R16.6', 2)
    r16_7(chk, P)
    chk.floor('R16.7', 1)
    import k4rules
    k4rules.c16(chk, P)
    chk.trusted += ['clang 14 front end', 'libc: strlen/strcpy/strcat have their ISO C meaning']
    return ('Comment header writer/reader/specification layouts are compared (K8); the query functions are compared as '
            'siblings (same match predicate); locale-dependent libc is proven unreachable (K1). Decides the structural '
            'clauses of the comment round trip and query consistency; does not decide byte equality of content.')
