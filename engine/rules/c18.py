"""C18 — independent instances do not interfere; results are reproducible (partial, DESIGN 4/C18).

Decided statically: R18.1 no instruction may write or free static storage (direct, through a pointer that may
hold the address of a static object, or through a callee), except under the `allocedp` ownership test;
R18.2 const-dropping casts are covered by R18.1 (their targets are static objects) and counted;
R18.3 memory from a non-zeroing allocator is written in the allocating function before it is handed on, and
heap records have every field that the library reads assigned; R18.4 FPU mode set/restore are paired on all
paths and across call-outs; R18.5 no non-reentrant libc function is reachable from any API entry."""
import cfg
import k3
from facts import AnalysisBroken
from rules import common


def static_write_sites(P, E):
    """Direct store/free sites that may designate static storage. -> list of (F, eid, kind, obj, statics)"""
    out = []
    for key, S in E.st.items():
        F = S.F
        for (o, r, f, e, d) in S.stores:
            if not d:
                continue
            st = E.site_statics(key, o)
            if st:
                out.append((F, e, 'store', o, r, f, st))
        for (o, e, d) in S.frees:
            if not d:
                continue
            st = E.site_statics(key, o)
            if st:
                out.append((F, e, 'free', o, None, None, st))
    return out


def r18_1(chk, P, E):
    chk.rule('R18.1', 'no store or free in any function of the three libraries may designate a static-storage object '
             '(K3 points-to/effect analysis, field-sensitive type-based heap classes, call-site binding of parameters); '
             'the only accepted form is a site dominated by the true edge of a test of static_codebook.allocedp')
    sites = static_write_sites(P, E)
    by_fn = {}
    for s in sites:
        by_fn.setdefault(P.key(s[0]), []).append(s)
    nsites = 0
    for key, S in sorted(E.st.items()):
        F = S.F
        nsites += sum(1 for x in S.stores if x[4]) + sum(1 for x in S.frees if x[2])
        bad = []
        for (F_, e, kind, o, r, f, st) in by_fn.get(key, []):
            guarded = common.guarded_by_true_edge(
                F, e, lambda c: common.cond_mentions_field(F, c, 'static_codebook', 'allocedp'))
            if guarded:
                continue
            bad.append((e, kind, o, r, f, st))
        if not bad:
            chk.ob('R18.1', key, 'writes-static-storage', True, F.where(),
                   f'{sum(1 for x in S.stores if x[4])} store sites, {sum(1 for x in S.frees if x[2])} free sites; '
                   f'{len(by_fn.get(key, []))} may reach static objects, all under the allocedp test')
        else:
            seen = set()
            for (e, kind, o, r, f, st) in bad:
                names = sorted(x[1] for x in st)
                cons = f'{kind}:{k3.fmt(o)}' + (f':{r}.{f}' if r else '')
                if cons in seen:
                    continue
                seen.add(cons)
                chk.ob('R18.1', key, cons, False, F.where(e),
                       f'{kind} `{F.s(e)[:80]}` may write static storage: {", ".join(names[:4])}'
                       + (f' (+{len(names)-4} more)' if len(names) > 4 else ''))
    return nsites


def r18_2_count(P):
    n_body = 0
    for F in P.functions():
        for e, nd in F.ex.items():
            if nd['k'] == 'cast' and nd.get('drops_const'):
                n_body += 1
    n_init = 0

    def visit(i):
        nonlocal n_init
        if isinstance(i, dict):
            if i.get('drops_const'):
                n_init += 1
            for e in i.get('elems', []):
                visit(e)
    for g in P.global_list:
        visit(g.get('init'))
    return n_body, n_init


def nonzeroing_allocs(P, E):
    """malloc sites (not calloc): (F, call eid, assigned lvalue eid or None, decl var id or None)"""
    out = []
    for F in P.functions():
        for e in F.calls('malloc'):
            p = F.sparent.get(e)
            while p and F.ex[p]['k'] == 'cast':
                p = F.sparent.get(p)
            lv, var = None, None
            if p and F.ex[p]['k'] == 'assign' and F.ex[p]['op'] == '=':
                lv = F.ex[p]['c'][0]
            elif p and F.ex[p]['k'] == 'decl':
                for v in F.ex[p]['vars']:
                    if v.get('init') and e in set(F.walk(v['init'])):
                        var = v
            out.append((F, e, lv, var))
    return out


# malloc'ed tables that are legitimately filled outside the allocating activation (confirmed by reading; symbols only)
FILLED_ELSEWHERE = {
    ('_vds_shared_init', 'vorbis_dsp_state', 'pcmret'):
        'scratch pointer array: vorbis_analysis_buffer / synthesis_pcmout / synthesis_lapout store all `channels` entries '
        'immediately before handing the array out; it is never read otherwise',
    ('_bisect_forward_serialno', 'OggVorbis_File', 'serialnos'):
        'per-link table allocated in the terminal recursion frame; entry m+1 is stored by each unrolling frame and entry 0 '
        'by _open_seekable2 (C09 R09.1 checks those stores)',
    ('_bisect_forward_serialno', 'OggVorbis_File', 'dataoffsets'):
        'per-link table allocated in the terminal recursion frame; entry m+1 is stored by each unrolling frame and entry 0 '
        'by _open_seekable2 (C09 R09.1 checks those stores)',
}

# arena storage: bytes are handed out by _vorbis_block_alloc and written by whoever asked for them
ARENA_FUNCS = {'_vorbis_block_alloc': 'block-local arena: storage is handed to callers which write it before use'}


def r18_3(chk, P, E):
    chk.rule('R18.3', 'memory from a non-zeroing allocator (malloc) is written in the allocating function after the '
             'allocation (a store through the object or its field class, memcpy/memset/strcpy into it, or a '
             'callee that writes it, reachable from the allocation); a heap record allocated with malloc has every field that any function reads '
             'assigned in the allocating function.  Catches calloc->malloc where zero-fill was relied upon.')
    # fields read anywhere: member nodes that are not pure store targets
    read_fields = set()
    for F in P.functions():
        for n in F.pos:
            nd = F.ex[n]
            if nd['k'] == 'member' and 'record' in nd:
                p = F.sparent.get(n)
                if p and F.ex[p]['k'] == 'assign' and F.ex[p]['op'] == '=' and F.ex[p]['c'][0] == n:
                    continue
                read_fields.add((nd['record'], nd['field']))
    for (F, e, lv, var) in nonzeroing_allocs(P, E):
        key = P.key(F)
        S = E.st[key]
        cons = 'malloc->' + (F.s(lv, names=False) if lv else (var['name'] if var else '?'))
        if F.name in ARENA_FUNCS:
            chk.assumed('R18.3', key, cons, F.where(e), ARENA_FUNCS[F.name])
            continue
        if lv is not None and F.ex[lv]['k'] == 'member' and (F.name, F.ex[lv].get('record'), F.ex[lv]['field']) in FILLED_ELSEWHERE:
            chk.assumed('R18.3', key, cons, F.where(e), FILLED_ELSEWHERE[(F.name, F.ex[lv]['record'], F.ex[lv]['field'])])
            continue
        obj = ('A', key, F.loc(e))
        # the classes the assigned pointer designates afterwards: the allocation site itself plus, when the pointer
        # lives in a field, the field's heap class (later stores reload the pointer from the field)
        objs = {obj}
        if lv is not None:
            asg = F.sparent.get(e)
            while asg and F.ex[asg]['k'] == 'cast':
                asg = F.sparent.get(asg)
            objs |= set(S.lv_pts.get(asg, ()))
        elif var is not None:
            objs |= set(S.lv_pts.get(('decl', var['id']), ()))
        objs = {o for o in objs if o[0] != 'U'}
        writers = {eid for (o, r, f, eid, d) in S.stores if o in objs and eid != F.sparent.get(e)}
        # a write into the allocated memory must be reachable after the allocation (loops may run zero times, so this
        # is existence on some path, not on all paths)
        path = cfg.search(F, F.pos[e], lambda n: n in writers, lambda n: False)
        ok = path is not None
        msg = f'{len(writers)} sites write the allocated memory after the allocation'
        path = None
        # record typed?
        rec = None
        t = None
        if lv is not None:
            t = F.ex[lv].get('t', '')
        elif var is not None:
            t = var['t']
        if t and t.startswith('struct ') and t.rstrip(' *').split()[-1] in P.records and t.count('*') == 1:
            rec = t.rstrip(' *').split()[-1]
        if ok and rec:
            stored = {f for (o, r, f, eid, d) in S.stores if o == obj and r == rec}
            whole = any(o == obj and r is None for (o, r, f, eid, d) in S.stores)
            need = {f['name'] for f in P.records[rec]['fields'] if (rec, f['name']) in read_fields}
            missing = sorted(need - stored)
            if missing and not whole:
                ok = False
                msg = f'record {rec} from malloc: fields read somewhere in the library but never assigned here: {missing}'
        elif not ok:
            msg = 'memory from malloc is never written in the allocating function (zero-fill or initialisation missing)'
        chk.ob('R18.3', key, cons, ok, F.where(e), msg, path=cfg.block_lines(F, path) if path else None)


ALLOCATORS = {'_vorbis_block_alloc': 1, '_ogg_malloc': 0, 'malloc': 0, '__builtin_alloca': 0, 'alloca': 0}


def _size_form(P, F, e, defs, depth=0):
    """a size expression as (integer coefficient, sorted tuple of symbolic factor texts), or None when it is not a product"""
    e = F.strip_casts(e)
    nd = F.ex[e]
    c = common.const_val(F, e)
    if c is not None:
        return (c, ())
    if nd['k'] in ('sizeof',) and 'v' in nd:
        return (nd['v'], ())
    if nd['k'] == 'bin' and nd['op'] == '*':
        a, b = _size_form(P, F, nd['c'][0], defs, depth), _size_form(P, F, nd['c'][1], defs, depth)
        if a is None or b is None:
            return None
        return (a[0] * b[0], tuple(sorted(a[1] + b[1])))
    if nd['k'] == 'ref' and nd['decl'].get('kind') == 'var' and depth < 3:
        d = defs.get(nd['decl'].get('id'))
        if d is not None:
            sub = _size_form(P, F, d, defs, depth + 1)
            if sub is not None and sub[1] != ():
                return sub
    if nd['k'] in ('ref', 'member', 'sub', 'bin', 'call'):
        return (1, (F.s(e, names=True),))
    return None


def r18_7(chk, P):
    chk.rule('R18.7', 'a clear covers the allocation it follows: where the result of an allocator that does not zero memory '
             '(_vorbis_block_alloc, malloc, alloca) is stored into an lvalue and a memset(.., 0, ..) of the same lvalue follows in '
             'the same function, the cleared size is at least the allocated size (both sizes as products: equal symbolic factors, '
             'coefficient not smaller).  A clear that lacks a factor of the allocation (the channel count, say) leaves the rest '
             'of the table holding whatever the arena or the heap held -- and such tables hold pointers that are tested for NULL')
    n = 0
    for F in P.functions():
        defs = None
        allocs = {}
        for e in F.pos:
            nd = F.ex[e]
            tgt, rhs = None, None
            if nd['k'] == 'assign' and nd['op'] == '=':
                tgt, rhs = F.s(F.strip_casts(nd['c'][0])), nd['c'][1]
                rows = [(tgt, rhs)]
            elif nd['k'] == 'decl':
                rows = [(v['name'], v['init']) for v in nd['vars'] if v.get('init')]
            else:
                continue
            for tgt, rhs in rows:
                r = F.ex[F.strip_casts(rhs)]
                if r['k'] == 'call' and r['callee'].get('d') in ALLOCATORS:
                    ai = ALLOCATORS[r['callee']['d']]
                    if ai < len(r.get('c', [])):
                        allocs.setdefault(tgt, []).append((e, r['c'][ai]))
        if not allocs:
            continue
        for c in F.calls('memset'):
            a = F.ex[c]['c']
            if len(a) < 3 or common.const_val(F, a[1]) != 0:
                continue
            tgt = F.s(F.strip_casts(a[0]))
            if tgt not in allocs:
                continue
            # the nearest allocation that reaches the memset
            cands = [(e, sz) for (e, sz) in allocs[tgt] if cfg.search(F, F.pos[e], lambda q: q == c, lambda q: False) is not None]
            if not cands:
                continue
            if defs is None:
                defs = common.single_defs(F)
            e, sz = max(cands, key=lambda x: F.ex[x[0]].get('loc', [0])[0] if F.ex[x[0]].get('loc') else 0)
            f1, f2 = _size_form(P, F, sz, defs), _size_form(P, F, a[2], defs)
            if f1 is None or f2 is None:
                continue
            if f1[1] == f2[1]:
                ok = f2[0] >= f1[0]
            else:
                m1, m2 = list(f1[1]), list(f2[1])
                for x in list(m2):
                    if x in m1:
                        m1.remove(x)
                        m2.remove(x)
                if m1 and not m2:
                    ok = False          # the clear lacks factors of the allocation
                else:
                    continue            # incomparable products: not decided
            n += 1
            chk.ob('R18.7', P.key(F), f'clear-covers-allocation:{tgt}@{F.loc(c)}', ok, F.where(c),
                   f'allocated {F.s(sz)}, cleared {F.s(a[2])}' if ok else
                   f'{tgt}: allocated {F.s(sz)} but only {F.s(a[2])} cleared: the remainder keeps whatever the memory held before')
    return n


def r18_4(chk, P):
    chk.rule('R18.4', 'every call of vorbis_fpu_setround is followed on all paths by vorbis_fpu_restore before the '
             'function returns and before any call through a caller-supplied function pointer')
    n = 0
    for F in P.functions():
        for e in F.calls('vorbis_fpu_setround'):
            n += 1
            def blk(x):
                return common.call_name(F, x) == 'vorbis_fpu_restore'
            def callout(x):
                nd = F.ex[x]
                return nd['k'] == 'call' and ('param' in nd['callee'] or nd['callee'].get('slot', [''])[0] == 'ov_callbacks')
            p1 = cfg.reaches_exit_avoiding(F, F.pos[e], blk)
            p2 = cfg.search(F, F.pos[e], callout, blk)
            ok = p1 is None and p2 is None
            chk.ob('R18.4', P.key(F), 'fpu_setround->restore', ok, F.where(e),
                   'restore on every path' if ok else 'a path leaves the function or calls out with the rounding mode changed',
                   path=cfg.block_lines(F, p1 or p2) if not ok else None)
    return n


def r18_5(chk, P):
    chk.rule('R18.5', 'no non-reentrant / process-global libc function (rand, strtok, localtime, setlocale, getenv, '
             'strerror, ...) is reachable in the resolved call graph from any public API entry')
    entries = sorted(set(common.api(P, 'codec.h') + common.api(P, 'vorbisenc.h') + common.api(P, 'vorbisfile.h')))
    bad = {'ext:' + x for x in common.NON_REENTRANT}
    for en in entries:
        par = P.reachable([P.key(P.get(en))])
        hit = sorted(bad & set(par))
        if hit:
            chk.ob('R18.5', en, 'reaches:' + hit[0][4:], False, P.get(en).where(),
                   f'{en} can reach {hit[0][4:]}', path=P.path_to(par, hit[0]))
        else:
            chk.ob('R18.5', en, 'non-reentrant-libc', True, P.get(en).where(), f'{len(par)} functions reachable, none listed')
    return len(entries)


def r18_8(chk, P):
    chk.rule('R18.8', 'a block fill or copy covers the elements it is meant to cover: in every library function the size argument of '
             'memset / memcpy / memmove on a destination whose elements are wider than a byte is a byte count -- a constant the '
             'front end folded, or an expression with a sizeof factor.  A bare element count (`memset(p+done,0,n-done)` on floats) '
             'fills a quarter of the span and leaves the rest holding whatever the stack or the heap held before: the output '
             'then depends on freed or uninitialised memory')
    n = 0
    for F in P.functions():
        for c in sorted(F.calls(), key=lambda x: F.ex[x].get('loc') or [0, 0]):
            nm = F.ex[c]['callee'].get('d')
            if nm not in ('memset', 'memcpy', 'memmove') or len(F.ex[c].get('c', [])) < 3:
                continue
            a = F.ex[c]['c']
            dt = F.ex[F.strip_casts(a[0])].get('t', '')
            el = dt.replace('const ', '').strip()
            el = el[:el.index('[')].strip() if '[' in el else el.rstrip('*').strip() if el.endswith('*') else el
            if el in ('char', 'unsigned char', 'signed char', 'void'):
                continue
            folded = common.const_val(F, a[2]) is not None
            sdefs = common.single_defs(F)

            def has_sizeof(e, depth=0):
                for q in F.walk(e):
                    qn = F.ex[q]
                    if qn.get('from') == 'sizeof':
                        return True
                    # a byte count kept in a local: `const size_t bytes=sizeof(*p)*n; memcpy(d,s,bytes);`
                    if qn['k'] == 'ref' and qn['decl'].get('kind') == 'var' and qn['decl'].get('id') in sdefs and depth < 3 \
                            and has_sizeof(sdefs[qn['decl']['id']], depth + 1):
                        return True
                return False
            has = has_sizeof(a[2])
            same = [x for x in F.calls() if F.ex[x]['callee'].get('d') == nm]
            same.sort(key=lambda x: F.ex[x].get('loc') or [0, 0])
            chk.ob('R18.8', F.name, f'{nm}#{same.index(c)}:size-is-a-byte-count', folded or has, F.where(c),
                   f'`{F.s(a[2])[:60]}`: ' + ('constant' if folded else 'has a sizeof factor' if has else
                   f'no sizeof factor although the destination elements are `{el}`: an element count is used as a byte count'))
            n += 1
    return n


def run(chk, P):
    E = getattr(P, '_effects', None) or k3.Effects(P)
    P._effects = E
    nsites = r18_1(chk, P, E)
    chk.floor('R18.1', 250)
    nb, ni = r18_2_count(P)
    chk.notes.append(f'R18.2: {nb} const-dropping casts in function bodies and {ni} in static initialisers; every object they '
                     f'refer to is a static object, so any write through them is an R18.1 violation')
    r18_3(chk, P, E)
    chk.floor('R18.3', 30)
    r18_4(chk, P)
    chk.floor('R18.4', 1)
    r18_5(chk, P)
    chk.floor('R18.5', 70)
    chk.rule('R18.6', 'decode scratch from the block arena is initialised whatever the arena held: the block arena is reset '
             '(_vorbis_block_ripcord) before any _vorbis_block_alloc or mapping call of vorbis_synthesis / _trackonly, and in every '
             'mapping inverse function the zeroing memset of vb->pcm[i] runs for every channel (it depends on nothing but the '
             'channel loop) before the residue decode adds into it -- a channel that skipped it would carry whatever the '
             'previously freed memory contained (same obligations as R11.3)')
    from rules import c11
    c11.r11_3(common.Proxy(chk, 'R18.6'), P)
    chk.floor('R18.6', 2)
    r18_7(chk, P)
    chk.floor('R18.7', 3)
    r18_8(chk, P)
    chk.floor('R18.8', 50)
    selftest(chk, P)
    unk = sorted({u for S in E.st.values() for u in S.unknown_calls})
    chk.notes.append(f'K3: fixpoint in {E.iterations} rounds; {nsites} direct store/free sites classified; '
                     f'calls treated as writing all pointer arguments: {unk}')
    chk.trusted += ['clang 14 parser, constant evaluator and CFG builder',
                    'effect table for libc/libogg externals (engine/k3.py EXT_WRITES)',
                    'type-based heap abstraction: one class per (record, pointer field); casts between unrelated record '
                    'pointer types are not tracked']
    return ('Effect analysis (K3) over all functions of libvorbis/libvorbisenc/libvorbisfile proves that no instruction '
            'writes or frees static storage outside the allocedp-guarded destructor; call-graph reachability (K1) excludes '
            'non-reentrant libc; path rules (K2) pair FPU mode changes and require malloc memory to be written before it '
            'is handed on. Decides the structural clauses of C18 (no shared mutable state, no reliance on uninitialised '
            'memory at allocation sites); does not decide data races inside libogg/libc or floating-point reproducibility.')


def selftest(chk, P):
    """positive control: the rule must flag a seeded static write in selftest/positive/static_write.c"""
    import selfcheck
    P2 = selfcheck.control_program('static_write.c')
    E2 = k3.Effects(P2)
    sites = static_write_sites(P2, E2)
    fns = {s[0].name for s in sites}
    need = {'pc_direct_static_write', 'pc_write_through_pointer', 'pc_helper'}
    if not need <= fns:
        raise AnalysisBroken(f'R18.1 positive control not flagged: {sorted(need - fns)}')
    if 'pc_clean_reader' in fns:
        raise AnalysisBroken('R18.1 negative control flagged')
    chk.notes.append('R18.1 positive control: 3 seeded static writes flagged, clean reader not flagged')
