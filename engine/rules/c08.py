"""C08 — seeks reach every valid target and land where the API says (partial, DESIGN 4/C08).

Decided: R08.1 argument rejection precedes any state change; R08.2 every success return of the page seek passes the
result verification; R08.3 failure exits dump the decoder and the position; R08.4 target conversion is frame- and
link-consistent (K7, rules/frames.py).  Not decided: reachability and landing precision."""
import absint
import cfg
import k2
import k3
from absint import V
from facts import AnalysisBroken
from rules import common

OV_EINVAL, OV_ENOSEEK = -131, -138
SEEKS = ['ov_raw_seek', 'ov_pcm_seek_page', 'ov_pcm_seek', 'ov_time_seek', 'ov_time_seek_page']
VF = 'OggVorbis_File'


def r08_1(chk, P, E):
    chk.rule('R08.1', 'in every seek entry point, on every path from entry to a `return OV_EINVAL` / `return OV_ENOSEEK` '
             'there is no store to a field of the handle and no call that may write the handle (K3 write-sets of the '
             'callees, call-site bound): out-of-range arguments are rejected without disturbing the current position')
    touch = k2.any_of(k2.stores_field(VF, None, ops=None), k2.call_writes_object(P, E, VF))
    n = 0
    for fn in SEEKS:
        F = P.need(fn)
        A, h = k2.analyse(P, F, [('touched', touch, True)])
        for (e, fl, v, env) in k2.ret_value_classes(A):
            if v is None or v.const() not in (OV_EINVAL, OV_ENOSEEK):
                continue
            # literal rejection returns only (a code handed up from a callee is that callee's business)
            rn = A.ex[F.strip_casts(A.ex[e]['c'][0])]
            if rn['k'] != 'int':
                continue
            n += 1
            chk.ob('R08.1', fn, f'return {v.const()}@{_ordinal(F, e)}', 'touched' not in fl, F.where(e),
                   'handle untouched before this rejection' if 'touched' not in fl else
                   'a store to the handle or a call writing it can precede this rejection return')
    return n


def _ordinal(F, e):
    """stable name for a return statement: its index among the function's returns in CFG order (not a line number)"""
    rets = sorted((n for n in F.pos if F.ex[n]['k'] == 'ret'), key=lambda n: F.ex[n]['loc'])
    return rets.index(e)


def r08_2(chk, P):
    chk.rule('R08.2', 'every `return 0` of ov_pcm_seek_page is reached only with pcm_offset <= pos established by a branch '
             '(the result verification) and after the comparison of pos with the total length; the delegated '
             '`return ov_raw_seek(...)` is the stated exception')
    F = P.need('ov_pcm_seek_page')
    posid = [p['id'] for p in F.params if p['name'] == 'pos']
    chk.require(len(F.params) == 2, 'ov_pcm_seek_page signature changed')
    possym = f'v{F.params[1]["id"]}'

    def cmp_total(A, env, e):
        nd = A.ex[e]
        if nd['k'] == 'bin' and nd['op'] in ('>', '>=', '<', '<='):
            s = F.s(e)
            return 'ov_pcm_total' in s and F.params[1]['name'] in s
        return False
    A, h = k2.analyse(P, F, [('cmp_total', cmp_total, True)])
    n = 0
    for (e, fl, v, env) in k2.ret_value_classes(A):
        rn = A.ex[F.strip_casts(A.ex[e]['c'][0])]
        if rn['k'] != 'int' or rn['v'] != 0:
            continue
        n += 1
        key = None
        for k in env:
            if isinstance(k, str) and k.endswith('->pcm_offset'):
                key = k
        pv = env.get(key) if key else None
        ok = pv is not None and (possym in pv.le or possym in pv.lt) and 'cmp_total' in fl
        chk.ob('R08.2', F.name, f'return 0@{_ordinal(F, e)}', ok, F.where(e),
               f'pcm_offset {pv} at success return; total compared: {"cmp_total" in fl}')
    return n


def r08_3(chk, P, E):
    chk.rule('R08.3', 'every return of ov_pcm_seek_page / ov_raw_seek that may be negative and is reached after the handle was '
             'touched passes `vf->pcm_offset=-1` and `_decode_clear(vf)` with no later re-initialisation: a failed seek '
             'leaves a dumped machine, never a half-positioned one')
    touch = k2.any_of(k2.stores_field(VF, None, ops=None), k2.call_writes_object(P, E, VF))
    setters = [
        ('touched', touch, True),
        ('pos_dumped', k2.stores_field(VF, 'pcm_offset', ops=None), False),
        ('pos_dumped', k2.stores_field(VF, 'pcm_offset', ops=('=',), value=-1), True),
        ('cleared', k2.is_call('_decode_clear'), True),
        ('cleared', k2.is_call_any(['_make_decode_ready', 'vorbis_synthesis_init']), False),
    ]
    n = 0
    for fn in ('ov_pcm_seek_page', 'ov_raw_seek'):
        F = P.need(fn)
        A, h = k2.analyse(P, F, setters)
        for (e, fl, v, env) in k2.ret_value_classes(A):
            if v is None or v.hi >= 0 and v.lo >= 0:
                continue
            rn = A.ex[F.strip_casts(A.ex[e]['c'][0])]
            if rn['k'] == 'call':
                continue        # delegated: the callee's own exits are checked
            if 'touched' not in fl:
                continue        # argument rejection (R08.1)
            if v.lo >= 0:
                continue
            n += 1
            ok = 'pos_dumped' in fl and 'cleared' in fl
            chk.ob('R08.3', fn, f'error-return@{_ordinal(F, e)}:{"+".join(sorted(fl))}', ok, F.where(e),
                   f'value {v}; events on this path: {sorted(fl)}')
    return n


def r08_14(chk, P, rule='R08.14'):
    chk.rule(rule, 'a seek reports success only after it has repositioned: in each plain seek entry point (ov_raw_seek, '
             'ov_pcm_seek_page, ov_pcm_seek, ov_time_seek_page, ov_time_seek) every return whose value may be 0 lies on paths that '
             'all pass a call from which the seek helper (the one caller of the seek callback) is reachable.  A short cut that '
             'answers 0 because the handle "is already there" trusts a position that a failed or mapped-to-end seek may have left '
             'without the decoder standing on it')
    sh = P.need('_seek_helper')
    shk = P.key(sh)
    reach = {}

    def moves(A, env, e):
        nd = A.ex[e]
        if nd['k'] != 'call':
            return False
        for t in P.call_targets(A.F, e):
            if t not in reach:
                reach[t] = t == shk or (t in P.fn and shk in P.reachable([t]))
            if reach[t]:
                return True
        return False
    n = 0
    for fn in ('ov_raw_seek', 'ov_pcm_seek_page', 'ov_pcm_seek', 'ov_time_seek_page', 'ov_time_seek'):
        F = P.need(fn)
        A, h = k2.analyse(P, F, [('moved', moves, True)])
        rets = [(e, fl, v) for (e, fl, v, env) in k2.ret_value_classes(A) if v is None or (v.lo <= 0 <= v.hi and 0 not in (v.ne or ()))]
        chk.require(rets, f'{fn} has no return that may be 0')
        bad = [(e, fl, v) for (e, fl, v) in rets if 'moved' not in fl]
        chk.ob(rule, fn, 'success-only-after-repositioning', not bad, F.where(bad[0][0]) if bad else F.where(rets[0][0]),
               f'{len(rets)} (return, history) pairs that may answer 0, all after a repositioning call' if not bad else
               f'`{F.s(bad[0][0])}` can answer 0 on a path that never reached the seek helper: the position is taken on trust')
        n += 1
    return n


def r08_15(chk, P, rule='R08.15'):
    chk.rule(rule, 'a page\'s granule position is consulted only for a page of the stream at hand: in vorbisfile.c every call of '
             'ogg_page_granulepos on a page object is reached only through a branch that compared ogg_page_serialno of the same page '
             'object for equality (the true edge of ==, the false edge of !=, also as the first operand of &&; a `continue` filter '
             'counts), or stands next to a capture of that page\'s serial number in the same block (the pair is returned together and '
             'compared by the caller).  In a multiplexed file the pages of other logical streams carry granule positions of their '
             'own; taken for this stream\'s they become a link\'s initial offset, a bisection bound or a seek landing point')
    from rules import pagestate
    n = 0
    for F in P.functions():
        if not F.file.endswith('vorbisfile.c') or F.entry is None:
            continue
        sites = sorted(F.calls('ogg_page_granulepos'), key=lambda x: F.ex[x].get('loc') or [0, 0])
        for i, c in enumerate(sites):
            args = F.ex[c].get('c', [])
            pv = pagestate._addr_of_var(F, args[0]) if args else None
            if pv is None:
                continue

            sdefs = common.single_defs(F)

            def serial_of_same_page(e, depth=0):
                nd = F.ex[F.strip_casts(e)]
                if nd['k'] == 'ref' and nd['decl'].get('kind') == 'var' and nd['decl'].get('id') in sdefs and depth < 2:
                    # `long s=ogg_page_serialno(&og); if(s!=serialno)continue;` (the page must not be refilled in between: R03.9)
                    return serial_of_same_page(sdefs[nd['decl']['id']], depth + 1)
                return nd['k'] == 'call' and nd['callee'].get('d') == 'ogg_page_serialno' and nd.get('c') and \
                    pagestate._addr_of_var(F, nd['c'][0]) == pv
            ok = False
            how = ''
            for cnd, pol in common.controlling_conditions(F, c):
                cn = F.ex[F.strip_casts(cnd)]
                if cn['k'] == 'bin' and cn['op'] in ('==', '!=') and ((cn['op'] == '==') == pol) and \
                        (serial_of_same_page(cn['c'][0]) or serial_of_same_page(cn['c'][1])):
                    ok, how = True, f'after `{F.s(cnd)}` ({"true" if pol else "false"} edge)'
            if not ok:
                b0 = F.pos[c][0]
                for e in F.pos:
                    if F.pos[e][0] != b0:
                        continue
                    nd = F.ex[e]
                    src = None
                    if nd['k'] == 'assign' and nd['op'] == '=':
                        src = nd['c'][1]
                    elif nd['k'] == 'decl':
                        for v in nd['vars']:
                            if v.get('init') and serial_of_same_page(v['init']):
                                src = v['init']
                    if src is not None and serial_of_same_page(src):
                        ok, how = True, 'the serial number of the same page is captured next to it'
            chk.ob(rule, F.name, f'granulepos-of-a-matched-page#{i}', ok, F.where(c), how if ok else
                   f'`{F.s(c)}` is reachable for a page whose serial number was not compared: a page of another logical stream '
                   'can supply the position')
            n += 1
    return n


def r08_5(chk, P, E):
    chk.rule('R08.5', 'in ov_raw_seek, ov_pcm_seek_page, ov_pcm_seek and the lap helpers that wrap them (file-local functions that call a seek through a function-pointer parameter) no store to the handle and no call writing it happens '
             'before the position argument has been range-checked on that path (compared against a lower and an upper '
             'bound) or handed to another seek entry point that does so: there is no way around the argument validation')
    touch = k2.any_of(k2.stores_field(VF, None, ops=None), k2.call_writes_object(P, E, VF))
    n = 0
    # the lap helpers consume decoder output (for the cross-fade) before they hand the position to the plain seek: they need the
    # range check themselves, or a rejected request has already moved the decoder
    lap_helpers = [G.name for G in P.functions() if G.file.endswith('vorbisfile.c') and G.static and len(G.params) >= 3
                   and G.params[0].get('record') == VF and any('(*)' in p_.get('t', '') for p_ in G.params)
                   and any(G.ex[c]['callee'].get('param') is not None for c in G.calls())]
    for fn in ['ov_raw_seek', 'ov_pcm_seek_page', 'ov_pcm_seek'] + sorted(lap_helpers):
        F = P.need(fn)
        pos = F.params[1]['id']

        def mentions_pos(A, x):
            for n_ in A.F.walk(x):
                nd = A.ex[n_]
                if nd['k'] == 'ref' and nd['decl'].get('id') == pos and nd['decl']['kind'] == 'param':
                    return True
            return False

        def lo(A, env, e):
            # the position compared with zero (either spelling: pos<0, !(pos>=0), 0>pos)
            nd = A.ex[e]
            if nd['k'] == 'bin' and nd['op'] in ('<', '<=', '>', '>='):
                a, b = nd['c']
                if mentions_pos(A, a) and A.peek(env, b).const() == 0:
                    return True
                if mentions_pos(A, b) and A.peek(env, a).const() == 0:
                    return True
            return False

        def hi(A, env, e):
            # the position compared with a non-constant bound (the end of the file, the total length, the total time)
            nd = A.ex[e]
            if nd['k'] == 'bin' and nd['op'] in ('<', '<=', '>', '>='):
                a, b = nd['c']
                if mentions_pos(A, a) and A.peek(env, b).const() is None and not mentions_pos(A, b):
                    return True
                if mentions_pos(A, b) and A.peek(env, a).const() is None and not mentions_pos(A, a):
                    return True
            return False

        def delegated(A, env, e):
            nd = A.ex[e]
            if nd['k'] != 'call' or len(nd['c']) < 2 or not mentions_pos(A, nd['c'][1]):
                return False
            # a plain seek entry point, directly or through the function-pointer parameter of a lap helper
            return nd['callee'].get('d') in SEEKS or nd['callee'].get('param') is not None

        def watch(A, e):
            nd = A.ex[e]
            if nd['k'] == 'call' and (nd['callee'].get('d') in SEEKS or nd['callee'].get('param') is not None):
                return False
            return touch(A, None if False else {}, e) if nd['k'] in ('assign', 'un', 'call') else False
        A, h = k2.analyse(P, F, [('lo', lo, True), ('hi', hi, True), ('delegated', delegated, True)], watch=watch)
        bad = []
        for e, sets in h.at.items():
            for fl in sets:
                if not ('delegated' in fl or ('lo' in fl and 'hi' in fl)):
                    bad.append((e, fl))
        n += 1
        if bad:
            e, fl = sorted(bad, key=lambda x: F.ex[x[0]]['loc'])[0]
            chk.ob('R08.5', fn, 'validation-precedes-touch', False, F.where(e),
                   f'`{F.s(e)[:70]}` can execute with the position argument unchecked (checks seen on the path: {sorted(fl)})')
        else:
            chk.ob('R08.5', fn, 'validation-precedes-touch', True, F.where(),
                   f'{len(h.at)} handle-writing sites, all after the range check or a delegating seek call')
    return n


def r08_8(chk, P, rule='R08.8'):
    chk.rule(rule, 'the sample-discard loop of a sample-accurate seek makes progress: in every loop of vorbisfile.c that hands '
             'a count clamped to a remaining distance to vorbis_synthesis_read (`if(samples>target)samples=target;`), the '
             'remaining distance is at least one output sample whenever the body runs (K4, run separately for half-rate off '
             'and on, the loop condition remembered for the identical expression the distance is computed from).  Then each '
             'iteration either consumes >= 1 sample or, finding too few decoded, fetches a packet (which ends at end of '
             'stream); with a distance of 0 the iteration changes nothing and the loop never ends')
    import absint
    from absint import V, K, Hooks
    n = 0
    for F in P.functions():
        if not F.file.endswith('vorbisfile.c'):
            continue
        loops = cfg.loops(F)
        sites = []
        for c in F.calls('vorbis_synthesis_read'):
            b = F.pos[c][0]
            inner = [h for h, body in loops.items() if b in body]
            if not inner or len(F.ex[c].get('c', [])) < 2:
                continue
            cnt = F.ex[F.strip_casts(F.ex[c]['c'][1])]
            if cnt['k'] != 'ref':
                continue
            cid = cnt['decl'].get('id')
            # the clamp  if(cnt > T) cnt = T  inside the same loop, before the call
            for a in F.pos:
                nd = F.ex[a]
                if nd['k'] == 'assign' and nd['op'] == '=' and F.ex[F.strip_casts(nd['c'][0])].get('decl', {}).get('id') == cid \
                        and F.ex[F.strip_casts(nd['c'][0])]['k'] == 'ref' and any(F.pos[a][0] in loops[h] for h in inner) \
                        and cfg.pos_dominates(F, a, c) is not True:
                    tn = F.ex[F.strip_casts(nd['c'][1])]
                    for cnd, pol in common.controlling_conditions(F, a):
                        cn = F.ex[F.strip_casts(cnd)]
                        if pol and cn['k'] == 'bin' and cn['op'] in ('>', '>=') and tn['k'] == 'ref' and \
                                F.ex[F.strip_casts(cn['c'][0])].get('decl', {}).get('id') == cid and \
                                F.ex[F.strip_casts(cn['c'][1])].get('decl', {}).get('id') == tn['decl'].get('id'):
                            sites.append((F.strip_casts(cnd), tn['decl']['id'], c))
        if not sites:
            continue
        # the half-rate flag as a local: run the two values apart
        hsv = set()
        for e, nd in F.ex.items():
            if nd['k'] == 'decl':
                for v in nd.get('vars', []):
                    if v.get('init') is not None and 'id' in v:
                        i = F.ex[F.strip_casts(v['init'])]
                        if i['k'] == 'call' and i['callee'].get('d') == 'vorbis_synthesis_halfrate_p':
                            hsv.add((e, v['id']))

        class H(Hooks):
            def fork(self, A, env, e):
                for (de, vid) in hsv:
                    if e == de:
                        outs = []
                        for val in (0, 1):
                            e2 = env.copy()
                            e2[f'v{vid}'] = K(val)
                            outs.append(e2)
                        return outs
                return None

            def join_special(self, k, a, b):
                return a if a == b else None

        def part(A, env):
            return tuple((env.get(f'v{vid}').const() if isinstance(env.get(f'v{vid}'), V) else None) for (_, vid) in sorted(hsv))
        seen = {}

        def obs(A, env, e, v):
            for (cnd, tid, c) in sites:
                if e == cnd:
                    seen.setdefault(cnd, []).append((part(A, env), env.get(f'v{tid}') or absint.TOP))
        A = absint.Analyzer(P, F, hooks=H(), partition=part)
        A.observers.append(obs)
        A.run()
        for i, (cnd, tid, c) in enumerate(sorted(set(sites), key=lambda t: F.ex[t[0]]['loc'])):
            vals = seen.get(cnd) or []
            chk.require(vals, f'{F.name}: the clamp of the discard loop is unreachable')
            bad = sorted({(pk, str(v)) for (pk, v) in vals if v.lo < 1})
            nm = F.vars.get(tid, {}).get('name', '?')
            chk.ob(rule, F.name, f'discard-loop-distance>=1#{i}', not bad, F.where(cnd),
                   f'{nm} >= 1 in all {len({pk for pk, _ in vals})} half-rate cases' if not bad else
                   f'{nm} (the distance left, in output samples) can be {bad[0][1]} inside the loop (half-rate flag {bad[0][0]}): '
                   'nothing is consumed, no packet is fetched, and the loop condition stays true')
            n += 1
    return n


def r08_9(chk, P, rule='R08.9'):
    chk.rule(rule, 'a property of the page at hand is recomputed for every page: in vorbisfile.c a local that holds a predicate '
             'on the current page (ogg_page_eos/bos/continued of the page object, or a comparison of the position '
             '_get_next_page returned) is assigned on every path that leads from a page fetch through the submission of that page '
             '(ogg_stream_pagein) to a use of the flag.  A flag that one branch '
             'forgets to refresh describes an earlier page -- or no page at all -- when the packets of this one are handled '
             '(ov_raw_seek: "is this the first page of the link?")')
    n = 0
    for F in P.functions():
        if not F.file.endswith('vorbisfile.c'):
            continue
        fetches = [c for c in F.calls('_get_next_page')]
        if not fetches:
            continue
        # where the fetch result lands
        resvars = set()
        for c in fetches:
            p_ = F.sparent.get(c)
            while p_ is not None and F.ex[p_]['k'] == 'cast':
                p_ = F.sparent.get(p_)
            if p_ is not None and F.ex[p_]['k'] == 'assign' and F.ex[p_]['op'] == '=':
                l = F.ex[F.strip_casts(F.ex[p_]['c'][0])]
                if l['k'] == 'ref':
                    resvars.add(l['decl'].get('id'))

        def page_predicate(e):
            nd = F.ex[F.strip_casts(e)]
            if nd['k'] == 'call' and nd['callee'].get('d') in ('ogg_page_eos', 'ogg_page_bos', 'ogg_page_continued'):
                return True
            if nd['k'] == 'bin' and nd['op'] in ('<', '<=', '>', '>=', '==', '!='):
                return any(F.ex[q]['k'] == 'ref' and F.ex[q]['decl'].get('id') in resvars for q in F.walk(F.strip_casts(e)))
            return False
        flags = {}
        for e in F.pos:
            nd = F.ex[e]
            if nd['k'] == 'assign' and nd['op'] == '=':
                l = F.ex[F.strip_casts(nd['c'][0])]
                if l['k'] == 'ref' and l['decl'].get('kind') == 'var' and page_predicate(nd['c'][1]):
                    flags.setdefault(l['decl']['id'], []).append(e)
        for vid, defs_ in sorted(flags.items()):
            uses = [q for q in F.pos if F.ex[q]['k'] == 'ref' and F.ex[q]['decl'].get('id') == vid
                    and not any(F.strip_casts(F.ex[d_]['c'][0]) == q for d_ in F.pos if F.ex[d_]['k'] == 'assign')]
            alldefs = [d_ for d_ in F.pos if F.ex[d_]['k'] == 'assign' and F.ex[F.strip_casts(F.ex[d_]['c'][0])]['k'] == 'ref'
                       and F.ex[F.strip_casts(F.ex[d_]['c'][0])]['decl'].get('id') == vid]
            bad = None
            # only pages that are handed to the stream count: a page skipped (foreign serial number) leaves the flags
            # describing the last page that was submitted
            submits = [c_ for c_ in F.calls('ogg_stream_pagein')]
            for c in fetches:
                for sp in submits:
                    p1 = cfg.search(F, F.pos[c], lambda q, sp=sp: q == sp, lambda q: q in alldefs or (q in fetches and q != c))
                    if p1 is None:
                        continue
                    for u in uses:
                        p2 = cfg.search(F, F.pos[sp], lambda q, u=u: q == u, lambda q: q in alldefs or q in fetches)
                        if p2 is not None:
                            bad = (c, u, p1 + p2)
                            break
                    if bad:
                        break
                if bad:
                    break
            nm = F.vars.get(vid, {}).get('name', '?')
            chk.ob(rule, F.name, f'page-flag-refreshed:{nm}', bad is None, F.where(bad[1]) if bad else F.where(defs_[0]),
                   f'{nm} is assigned between every page fetch and every use ({len(uses)} uses)' if bad is None else
                   f'{nm} (set from a predicate on the current page on line {F.loc(defs_[0])}) is used on line {F.loc(bad[1])} on a '
                   f'path from the page fetch on line {F.loc(bad[0])} that does not assign it: it still describes an earlier page',
                   path=cfg.block_lines(F, bad[2]) if bad else None)
            n += 1
    return n


def r08_11(chk, P):
    chk.rule('R08.11', 'a time is converted to samples at a link\'s rate only relative to that link: in vorbisfile.c, wherever a value is '
             'multiplied by the sample rate of a selected link (vi[link].rate, vi+link ... ->rate), the other factor is not the '
             'caller\'s absolute time (a floating parameter, directly or through plain copies) but a difference from which the '
             'durations of the earlier links -- a local accumulated over the links -- have been subtracted.  Links may have '
             'different rates: seconds * rate_of_link_k is a sample position only inside a file whose links all share that rate')
    n = 0
    for F in P.functions():
        if not F.file.endswith('vorbisfile.c'):
            continue
        tparams = {p_['id'] for p_ in F.params if p_.get('t') in ('double', 'float')}
        if not tparams:
            continue
        defs = common.single_defs(F)
        # locals accumulated in a loop (+=) : the running duration
        acc = set()
        for e in F.nodes('assign'):
            nd = F.ex[e]
            l = F.ex[F.strip_casts(nd['c'][0])]
            if nd['op'] == '+=' and l['k'] == 'ref' and l['decl'].get('kind') == 'var':
                acc.add(l['decl']['id'])

        def is_abs_time(e, depth=0):
            nd = F.ex[F.strip_casts(e)]
            if nd['k'] == 'ref':
                if nd['decl'].get('id') in tparams:
                    return True
                d = defs.get(nd['decl'].get('id'))
                if d is not None and depth < 3 and nd['decl'].get('kind') == 'var':
                    return is_abs_time(d, depth + 1)
            return False

        def is_link_rate(e):
            nd = F.ex[F.strip_casts(e)]
            if nd['k'] != 'member' or nd['field'] != 'rate':
                return False
            b = F.ex[F.strip_casts(nd['c'][0])]
            # vi[link] / *(vi+link) / (vi+link)-> : a subscripted or offset info, i.e. a selected link
            txt = F.s(F.strip_casts(nd['c'][0]))
            return b['k'] in ('sub', 'bin', 'un') or '[' in txt or '+' in txt
        for e in sorted(F.nodes('bin'), key=lambda x: F.ex[x].get('loc') or [0, 0]):
            nd = F.ex[e]
            if nd['op'] != '*':
                continue
            a, b = nd['c']
            for rate, other in ((a, b), (b, a)):
                if not is_link_rate(rate):
                    continue
                # the time factor must still be a floating value when it meets the rate: a conversion to an integer type first
                # drops the fraction of a second (up to `rate` samples)
                on = F.ex[other]
                trunc = False
                while on['k'] == 'cast':
                    inner = F.ex[on['c'][0]]
                    if absint.int_type_range(on.get('t', '')) and (inner.get('t', '') in ('double', 'float')):
                        trunc = True
                    on = inner
                n += 1
                chk.ob('R08.11', F.name, f'time-keeps-its-fraction@{F.loc(e)}', not trunc, F.where(e),
                       f'`{F.s(e)[:70]}`: the time factor is floating when it is multiplied' if not trunc else
                       f'`{F.s(e)[:70]}`: the time is converted to an integer before it is multiplied by the rate: the fraction of a '
                       'second is lost and the seek lands up to one second early')
                bad = is_abs_time(other)
                n += 1
                chk.ob('R08.11', F.name, f'time-to-samples-is-link-relative@{F.loc(e)}', not bad, F.where(e),
                       f'`{F.s(e)[:70]}`: the time factor is not the caller\'s absolute time' if not bad else
                       f'`{F.s(e)[:70]}` multiplies the caller\'s absolute time by the rate of one link: in a chain whose links differ in '
                       'rate the product is not a position in the stream (the durations of the earlier links must be subtracted first)')
        # the dual: samples are converted to time at a link's rate only when they are a count of that link
        def is_running_total(e, depth=0):
            nd = F.ex[F.strip_casts(e)]
            while nd['k'] == 'paren':
                nd = F.ex[F.strip_casts(nd['c'][0])]
            if nd['k'] == 'ref' and nd['decl'].get('kind') == 'var':
                if nd['decl'].get('id') in acc:
                    return True
                d = defs.get(nd['decl'].get('id'))
                if d is not None and depth < 3:
                    return is_running_total(d, depth + 1)
            return False
        for e in sorted(F.nodes('bin'), key=lambda x: F.ex[x].get('loc') or [0, 0]):
            nd = F.ex[e]
            if nd['op'] != '/' or not is_link_rate(nd['c'][1]):
                continue
            bad = is_running_total(nd['c'][0])
            n += 1
            chk.ob('R08.11', F.name, f'samples-to-time-is-link-relative@{F.loc(e)}', not bad, F.where(e),
                   f'`{F.s(e)[:70]}`: the sample count divided by the link\'s rate is not a total run up over several links' if not bad else
                   f'`{F.s(e)[:70]}` divides a sample count accumulated over the links by the rate of one link: in a chain whose links '
                   'differ in rate the quotient is not the time at which that link starts, and the link search picks the wrong link')
    return n


def r08_12(chk, P, E):
    chk.rule('R08.12', 'a seek that dumped the machine says so: every return of ov_pcm_seek_page / ov_pcm_seek that is '
             'reached after the error sequence (vf->pcm_offset=-1 followed by _decode_clear(vf), with no later store of a '
             'position) returns a negative value in every state that reaches it (K2 path flags, K4 value of the returned '
             'expression).  An error exit that hands back a left-over 0 reports success with no position set: the next read '
             'starts from nowhere and ov_pcm_tell answers -1')
    setters = [
        ('pos_dumped', k2.stores_field(VF, 'pcm_offset', ops=None), False),
        ('pos_dumped', k2.stores_field(VF, 'pcm_offset', ops=('=',), value=-1), True),
        ('cleared', k2.is_call('_decode_clear'), True),
        ('cleared', k2.is_call_any(['_make_decode_ready', 'vorbis_synthesis_init']), False),
    ]
    n = 0
    # ov_raw_seek is left out on purpose: it starts with pcm_offset=-1 ("not known yet") and may legitimately return 0 with the
    # position still unknown on a stream whose packets carry no granule position
    for fn in ('ov_pcm_seek_page', 'ov_pcm_seek'):
        F = P.need(fn)
        A, h = k2.analyse(P, F, setters, post_call=k2.make_post_call(P))
        per = {}
        for (e, fl, v, env) in k2.ret_value_classes(A):
            if not ('pos_dumped' in fl and 'cleared' in fl):
                continue
            rn = A.ex[F.strip_casts(A.ex[e]['c'][0])] if A.ex[e].get('c') else None
            if rn is not None and rn['k'] == 'call':
                continue
            ok = v is not None and v.hi < 0
            cur = per.get(e)
            per[e] = (ok and (cur[0] if cur else True), v if (cur is None or not ok) else cur[1])
        for e, (ok, v) in sorted(per.items(), key=lambda kv: F.ex[kv[0]].get('loc') or [0, 0]):
            n += 1
            chk.ob('R08.12', fn, f'dumped-machine-returns-an-error@{F.loc(e)}', ok, F.where(e),
                   f'`{F.s(e)}` is negative in every state that reaches it behind the error sequence' if ok else
                   f'`{F.s(e)}` can be {v} behind `vf->pcm_offset=-1; _decode_clear(vf)`: an error exit that reports success (or a '
                   'positive value) with no position set')
    return n


def run(chk, P):
    E = getattr(P, '_effects', None) or k3.Effects(P)
    P._effects = E
    r08_1(chk, P, E)
    chk.floor('R08.1', 6)
    r08_2(chk, P)
    chk.floor('R08.2', 1)
    r08_3(chk, P, E)
    chk.floor('R08.3', 3)
    r08_5(chk, P, E)
    chk.floor('R08.5', 2)
    r08_14(chk, P)
    chk.floor('R08.14', 5)
    r08_15(chk, P)
    chk.floor('R08.15', 4)
    r08_8(chk, P)
    chk.floor('R08.8', 1)
    r08_9(chk, P)
    chk.floor('R08.9', 1)
    import typestate
    typestate.c08(chk, P)
    r08_11(chk, P)
    chk.floor('R08.11', 1)
    chk.rule('R08.16', 'a seek that failed in the callback can be repeated: _seek_helper changes the cached offset and the sync state only on '
             'the path on which the seek callback succeeded (shared implementation with C12 R12.6), so the "already there" shortcut of '
             'the next positioning never trusts an offset the source did not reach')
    from rules import c12 as c12_
    c12_.r12_6(common.Proxy(chk, 'R08.16'), P)
    chk.floor('R08.16', 3)
    r08_12(chk, P, E)
    chk.floor('R08.12', 1)
    # R08.4a: the conversion of a target uses the set-up of the link it selected (shared implementation with C09 R09.4/R09.1)
    from rules import c09

    class Proxy:
        def __init__(self, chk, rid):
            self.chk, self.rid = chk, rid

        def __getattr__(self, a):
            return getattr(self.chk, a)

        def ob(self, rule, *a, **k):
            return self.chk.ob(self.rid, *a, **k)

        def assumed(self, rule, *a, **k):
            return self.chk.assumed(self.rid, *a, **k)

        def rule(self, rid, text):
            pass
    chk.rule('R08.4', 'target conversion is link-consistent: per-link tables are subscripted by one link variable with the '
             'table\'s own slot roles, and link 0\'s set-up (vf->vi) is never used by shortcut when a link was selected '
             '(time -> sample conversion uses vi[link].rate of the selected link)')
    from rules import c07
    c07.r07_13(Proxy(chk, 'R08.13'), P, rule='R08.13')
    chk.floor('R08.13', 3)
    c09.r09_1(Proxy(chk, 'R08.4'), P)
    c09.r09_4(Proxy(chk, 'R08.4'), P)
    chk.floor('R08.4', 40)
    import frames
    frames.c08(chk, P)
    # R08.7: per-link values (block sizes, info pointers, rates) read before the link can change are not used after it
    from rules import c07
    c07.r07_6(chk, P, E, rule='R08.7', only={'ov_raw_seek', 'ov_pcm_seek_page', 'ov_pcm_seek', 'ov_time_seek', 'ov_time_seek_page'})
    chk.trusted += ['clang 14 front end', 'K3 external effect table', 'interval abstraction of return values (a return whose '
                    'value interval contains negatives is treated as a possible failure)']
    return ('Path rules over the CFG with the state partitioned by what has happened on the path (handle touched, position '
            'dumped, decoder cleared) and intervals for returned values decide: argument rejection is side-effect free, the '
            'page seek verifies its result before reporting success, failed seeks dump decoder and position. The position '
            'frame analysis decides that the target is converted with one link index and that link\'s own offset and prefix. '
            'Does not decide that every valid target is reached nor the landing precision.')
