"""C07 — after any seek the reported position matches the audio delivered (partial, DESIGN 4/C07).

Decided: R07.1 consumption and position bookkeeping are paired with the same count; R07.2 every successful seek path
defines the position; R07.3 a read that returns data reports the link it came from; R07.4 a successful seek restarts or
rebuilds the decoder; R07.5 position-frame consistency (K7, engine/frames.py).  Not decided: bit-identity of the audio."""
import cfg
import k2
import k3
import k8
from facts import AnalysisBroken
from rules import common
from rules.c08 import _ordinal, VF

SEEKS3 = ['ov_raw_seek', 'ov_pcm_seek_page', 'ov_pcm_seek']


def r07_1(chk, P):
    chk.rule('R07.1', 'every vorbis_synthesis_read(&vf->vd, X) on a handle is followed, before the function returns or reads '
             'again, by `vf->pcm_offset += X<<hs` with the same X and hs = the half-rate flag, and the read functions return '
             'that same X (times the frame size for the integer reader). Stated exception: _ov_getlap (the seek that '
             'follows re-positions the handle).')
    sk = k8.Skel(P, 'r')
    n = 0
    for F in P.functions():
        if not F.file.endswith('vorbisfile.c'):
            continue
        for e in F.calls('vorbis_synthesis_read'):
            n += 1
            key = P.key(F)
            if F.name == '_ov_getlap':
                chk.assumed('R07.1', key, 'read->advance', F.where(e),
                            'lap collector: consumes from the old position on purpose; every caller seeks or finishes afterwards')
                continue
            x = sk.canon(F, F.ex[e]['c'][1])
            xid = F.strip_casts(F.ex[e]['c'][1])

            def scaled(r_):
                """(X, shift expression) when r_ is X<<h, X*(1<<h) or (1<<h)*X"""
                r = F.ex[F.strip_casts(r_)]
                if r['k'] == 'bin' and r['op'] == '<<':
                    return r['c'][0], r['c'][1]
                if r['k'] == 'bin' and r['op'] == '*':
                    for a_, b_ in ((r['c'][0], r['c'][1]), (r['c'][1], r['c'][0])):
                        bn = F.ex[F.strip_casts(b_)]
                        if bn['k'] == 'bin' and bn['op'] == '<<' and common.const_val(F, bn['c'][0]) == 1:
                            return a_, bn['c'][1]
                return None

            def adv_shift(nn):
                """the shift expression of `pcm_offset += X<<h` / `pcm_offset = pcm_offset + X*(1<<h)` with this read's X"""
                nd = F.ex[nn]
                if nd['k'] != 'assign' or nd['op'] not in ('+=', '='):
                    return None
                l = F.ex[F.strip_casts(nd['c'][0])]
                if not (l['k'] == 'member' and l['field'] == 'pcm_offset'):
                    return None
                cands = [nd['c'][1]]
                if nd['op'] == '=':
                    r = F.ex[F.strip_casts(nd['c'][1])]
                    if not (r['k'] == 'bin' and r['op'] == '+'):
                        return None
                    cands = [y for x_, y in ((r['c'][0], r['c'][1]), (r['c'][1], r['c'][0]))
                             if F.s(F.strip_casts(x_)) == F.s(F.strip_casts(nd['c'][0]))]
                for cnd in cands:
                    sc = scaled(cnd)
                    if sc and sk.canon(F, sc[0]) == x and F.s(F.strip_casts(sc[0])) == F.s(F.strip_casts(F.ex[e]['c'][1])):
                        return sc[1]
                return None

            def is_adv(nn):
                return adv_shift(nn) is not None

            def stop(nn):
                nd = F.ex[nn]
                return nd['k'] == 'ret' or (nd['k'] == 'call' and nd['callee'].get('d') == 'vorbis_synthesis_read' and nn != e) \
                    or (nd['k'] == 'assign' and _assigns_var(F, nd, xid))
            # no path from the read to a return / next read without the advance
            bad = cfg.search(F, F.pos[e], lambda nn: stop(nn), lambda nn: is_adv(nn))
            chk.ob('R07.1', key, 'read->advance', bad is None, F.where(e),
                   f'vorbis_synthesis_read(.., {F.s(F.ex[e]["c"][1])}) followed by pcm_offset += same<<hs on every path'
                   if bad is None else f'a path consumes {F.s(F.ex[e]["c"][1])} samples without the matching pcm_offset advance',
                   path=cfg.block_lines(F, bad) if bad else None)
            # the shift amount is the half-rate flag
            for nn in F.pos:
                if is_adv(nn):
                    sh = adv_shift(nn)
                    d = common.single_defs(F)
                    shn = F.ex[F.strip_casts(sh)]
                    src = F.s(F.strip_casts(sh))         # the flag may be fetched in place: x<<vorbis_synthesis_halfrate_p(vi)
                    if shn['k'] == 'ref' and shn['decl'].get('id') in d:
                        src = F.s(d[shn['decl']['id']])
                    chk.ob('R07.1', key, 'advance-shift-is-halfrate', 'vorbis_synthesis_halfrate_p' in src, F.where(nn),
                           f'shift amount {F.s(sh)} = {src or "?"}')
    return n


def _assigns_var(F, nd, xid):
    x = F.ex[xid]
    if x['k'] != 'ref':
        return False
    l = F.ex[F.strip_casts(nd['c'][0])]
    return l['k'] == 'ref' and l['decl'].get('id') == x['decl'].get('id')


def r07_2_4(chk, P, E):
    chk.rule('R07.2', 'in ov_raw_seek, ov_pcm_seek_page and ov_pcm_seek every path to a success return that moved the stream '
             '(_seek_helper called) stores vf->pcm_offset after the last _seek_helper call, or delegates to another seek')
    chk.rule('R07.4', 'every such success path also restarts the decoder (vorbis_synthesis_restart) or dumps it '
             '(_decode_clear / rebuilds it) somewhere on the path, or delegates: lapping state from the old position is never kept')
    # an event performed inside a helper counts: a premise (the stream moved) when the helper may perform it, a
    # conclusion (position stored, decoder reset) only when the helper performs it on every path
    mv = k2.s_call('_seek_helper')
    setters = [
        ('moved', k2.event(P, mv, 'may'), True),
        ('pos_set', k2.event(P, mv, 'may'), False),
        ('pos_set', k2.event(P, k2.s_store(VF, 'pcm_offset'), 'must', dynamic=k2.stores_field(VF, 'pcm_offset', ops=None)), True),
        ('fresh', k2.event(P, k2.s_call(['vorbis_synthesis_restart', '_decode_clear', '_make_decode_ready']), 'must'), True),
        ('delegated', k2.is_call_any(SEEKS3), True),
    ]
    n = 0
    for fn in SEEKS3:
        F = P.need(fn)
        A, h = k2.analyse(P, F, setters)
        for (e, fl, v, env) in k2.ret_value_classes(A):
            if v is None or v.lo > 0 or v.hi < 0:
                continue
            rn = A.ex[F.strip_casts(A.ex[e]['c'][0])]
            if rn['k'] == 'call':
                continue
            if 'moved' not in fl and 'delegated' not in fl:
                continue
            n += 1
            ok2 = 'pos_set' in fl or 'delegated' in fl
            ok4 = 'fresh' in fl or 'delegated' in fl
            chk.ob('R07.2', fn, f'success-return@{_ordinal(F, e)}:{"+".join(sorted(fl))}', ok2, F.where(e), f'path events {sorted(fl)}')
            chk.ob('R07.4', fn, f'success-return@{_ordinal(F, e)}:{"+".join(sorted(fl))}', ok4, F.where(e), f'path events {sorted(fl)}')
    return n


def r07_3(chk, P, E=None):
    chk.rule('R07.3', 'every return of ov_read_filter / ov_read_float with a positive count has stored vf->current_link through '
             'the caller\'s bitstream pointer whenever that pointer is non-null, and no call that may change the current link '
             '(K3 write sets; the packet fetch crosses link boundaries) lies between that store and the return: the index '
             'reported is the one of the link the samples came from, not the one the call started in')
    writers = set()
    if E is not None:
        for k, sm in E.summ.items():
            if any(r == VF and f == 'current_link' for (o, r, f) in sm['stores']):
                writers.add(k)

    def link_switch(A, env, e):
        nd = A.ex[e]
        if nd['k'] == 'call':
            return any(t in writers for t in P.call_targets(A.F, e))
        if nd['k'] == 'assign':
            l = A.ex[A.F.strip_casts(nd['c'][0])]
            return l['k'] == 'member' and l.get('record') == VF and l['field'] == 'current_link'
        return False
    n = 0
    for fn in ('ov_read_filter', 'ov_read_float'):
        F = P.need(fn)
        bp = [p for p in F.params if p['name'] == 'bitstream' or (p['t'] == 'int *')]
        chk.require(bp, f'{fn}: no int* link-index parameter')
        bid = bp[-1]['id']

        def stores_link(A, env, e):
            nd = A.ex[e]
            if nd['k'] == 'assign' and nd['op'] == '=':
                l = A.ex[A.F.strip_casts(nd['c'][0])]
                if l['k'] == 'un' and l['op'] == '*':
                    b = A.ex[A.F.strip_casts(l['c'][0])]
                    r = A.ex[A.F.strip_casts(nd['c'][1])]
                    return b['k'] == 'ref' and b['decl'].get('id') == bid and r['k'] == 'member' and r['field'] == 'current_link'
            return False
        A, h = k2.analyse(P, F, [('link_reported', link_switch, False), ('link_reported', stores_link, True)])
        for (e, fl, v, env) in k2.ret_value_classes(A):
            if v is None or v.hi <= 0:
                continue
            bv = env.get(f'v{bid}')
            maybe_nonnull = bv is None or bv.nn is not False
            n += 1
            ok = 'link_reported' in fl or not maybe_nonnull
            chk.ob('R07.3', fn, f'data-return@{_ordinal(F, e)}:{"+".join(sorted(fl)) or "-"}', ok, F.where(e),
                   f'returns {v}; link reported: {"link_reported" in fl}; bitstream pointer {bv}')
    return n


def r07_6(chk, P, E, rule='R07.6', only=None):
    chk.rule(rule, 'in vorbisfile.c no local value derived from the handle\'s current link (vf->current_link, ov_info(vf,-1), '
             'ov_comment(vf,-1), vf->vi+vf->current_link, ...) is used after a call that may change vf->current_link (K3 '
             'write-sets) without being recomputed: per-link data is never stale across a link switch')
    # functions that may write OggVorbis_File.current_link
    writers = set()
    for k, sm in E.summ.items():
        if any(r == VF and f == 'current_link' for (o, r, f) in sm['stores']):
            writers.add(k)
    # functions that fetch packets without spanning a link boundary: every _fetch_and_process_packet call inside passes the
    # constant 0 as `spanp` (then a boundary returns OV_EOF before the link changes)
    nonspanning = set()
    for F in P.functions():
        cs = list(F.calls('_fetch_and_process_packet'))
        if cs and F.name != '_fetch_and_process_packet' and \
                all(common.const_val(F, F.ex[c]['c'][3]) == 0 for c in cs if len(F.ex[c]['c']) > 3):
            others = [c for c in F.calls() if c not in cs and any(t in writers for t in P.call_targets(F, c))]
            if not others:
                nonspanning.add(F.name)
    # ... which holds only while the handle is bound to a link: entered below STREAMSET such a function binds the handle to the
    # link at the file position (current_link and what ov_info(vf,-1) answers both change).  Entry states from K5.
    if nonspanning:
        from rules import pagestate
        ent = pagestate.entry_states(P)
        for fn in sorted(nonspanning):
            G = P.get(fn)
            rs = ent.get(P.key(G)) if G is not None else None
            if rs is None or rs[0] < 3:
                nonspanning.discard(fn)
    chk.notes.append(f'{rule}: non-spanning fetchers (spanp constant 0, no other link-changing call, entered at STREAMSET or above): {sorted(nonspanning)}')
    n = 0
    for F in P.functions():
        if not F.file.endswith('vorbisfile.c'):
            continue
        if only is not None and F.name not in only:
            continue
        defs = {}      # var id -> list of defining nodes whose value depends on current_link
        for e in F.pos:
            nd = F.ex[e]
            tgt, rhs = None, None
            if nd['k'] == 'decl':
                for v in nd['vars']:
                    if 'id' in v and v.get('init') and _link_derived(F, v['init']):
                        defs.setdefault(v['id'], []).append(e)
            elif nd['k'] == 'assign' and nd['op'] == '=':
                l = F.ex[F.strip_casts(nd['c'][0])]
                if l['k'] == 'ref' and l['decl']['kind'] == 'var' and _link_derived(F, nd['c'][1]):
                    defs.setdefault(l['decl']['id'], []).append(e)
        for vid, dnodes in defs.items():
            name = F.vars[vid]['name']

            hvars = _handle_vars(F, dnodes[0])

            def is_switch(nn):
                nd = F.ex[nn]
                if nd['k'] == 'call':
                    if not any(t in writers for t in P.call_targets(F, nn)):
                        return False
                    if nd['callee'].get('d') in nonspanning:
                        return False
                    # the call must work on the same handle
                    cv = set()
                    for a in nd.get('c', []):
                        cv |= _handle_vars(F, a)
                    return bool(cv & hvars) or not hvars
                if nd['k'] == 'assign':
                    l = F.ex[F.strip_casts(nd['c'][0])]
                    return l['k'] == 'member' and l.get('record') == VF and l['field'] == 'current_link'
                return False

            def is_redef(nn):
                nd = F.ex[nn]
                if nd['k'] == 'assign':
                    l = F.ex[F.strip_casts(nd['c'][0])]
                    return l['k'] == 'ref' and l['decl'].get('id') == vid
                if nd['k'] == 'decl':
                    return any(v.get('id') == vid for v in nd['vars'])
                return False

            def is_use(nn):
                nd = F.ex[nn]
                if nd['k'] == 'ref' and nd['decl'].get('id') == vid:
                    p = F.sparent.get(nn)
                    if p and F.ex[p]['k'] == 'assign' and F.ex[p]['op'] == '=' and F.strip_casts(F.ex[p]['c'][0]) == nn:
                        return False
                    return True
                return False
            for d in dnodes:
                n += 1
                # path: def -> switch (no redef) -> use (no redef)
                bad = None
                for sw in [x for x in F.pos if is_switch(x)]:
                    p1 = cfg.search(F, F.pos[d], lambda nn: nn == sw, is_redef)
                    if p1 is None:
                        continue
                    p2 = cfg.search(F, F.pos[sw], is_use, is_redef)
                    if p2 is not None:
                        bad = (sw, p1 + p2[1:])
                        break
                chk.ob(rule, P.key(F), f'link-derived:{name}', bad is None, F.where(d),
                       f'`{F.s(d)[:60]}` is not used across a link switch' if bad is None else
                       f'`{name}` (from `{F.s(d)[:50]}`) can be used after `{F.s(bad[0])[:50]}` changed the current link',
                       path=cfg.block_lines(F, bad[1]) if bad else None)
    return n


def _handle_vars(F, e):
    out = set()
    for n in F.walk(e):
        nd = F.ex[n]
        if nd['k'] == 'ref' and nd['decl']['kind'] in ('var', 'param') and VF in nd.get('t', ''):
            out.add(nd['decl']['id'])
    return out


def _link_derived(F, e):
    for n in F.walk(e):
        nd = F.ex[n]
        if nd['k'] == 'member' and nd.get('record') == VF and nd['field'] == 'current_link':
            return True
        if nd['k'] == 'call' and nd['callee'].get('d') in ('ov_info', 'ov_comment', 'ov_serialnumber', 'ov_bitrate') and len(nd['c']) > 1:
            v = F.ex[F.strip_casts(nd['c'][1])]
            if v['k'] == 'int' and v['v'] < 0:
                return True
    return False


def r07_7(chk, P):
    chk.rule('R07.7', 'every `return 0` of vorbis_synthesis_blockin has updated the running sample count (store to '
             'private_state.sample_count of a value other than -1) and evaluated the block\'s granule position: position '
             'tracking also happens for track-only blocks (vb->pcm == NULL), which is what sample-accurate seeking feeds it')
    F = P.need('vorbis_synthesis_blockin')

    def gp(A, env, e):
        nd = A.ex[e]
        if nd['k'] == 'bin' and nd['op'] in ('!=', '=='):
            return any(A.ex[x]['k'] == 'member' and A.ex[x].get('record') == 'vorbis_block' and A.ex[x]['field'] == 'granulepos'
                       for x in A.F.walk(e))
        return False
    setters = [('counted', k2.stores_field('private_state', 'sample_count', ops=('=', '+='),
                                            value=lambda v: v.const() != -1), True),
               ('granule_seen', gp, True)]
    A, h = k2.analyse(P, F, setters)
    n = 0
    for (e, fl, v, env) in k2.ret_value_classes(A):
        if v is None or v.const() != 0:
            continue
        n += 1
        ok = 'counted' in fl
        chk.ob('R07.7', F.name, f'return 0@{_ordinal(F, e)}:{"+".join(sorted(fl)) or "-"}', ok, F.where(e),
               f'path events {sorted(fl)}')
    return n


def r07_8(chk, P):
    chk.rule('R07.8', 'the window history is recorded before it is used: in vorbis_synthesis_blockin the stores v->lW=v->W and '
             'v->W=vb->W of this call dominate every other read of v->W / v->lW in the function -- in particular the granule '
             'position arithmetic (blocksizes[v->lW]/4+blocksizes[v->W]/4), which also runs for track-only blocks (vb->pcm==NULL) '
             'during sample-accurate seeks')
    F = P.need('vorbis_synthesis_blockin')

    def is_m(e, rec, fld):
        nd = F.ex[F.strip_casts(e)]
        return nd['k'] == 'member' and nd.get('record') == rec and nd.get('field') == fld
    st = {}
    skip = set()
    for e in F.pos:
        nd = F.ex[e]
        if nd['k'] == 'assign' and nd['op'] == '=':
            if is_m(nd['c'][0], 'vorbis_dsp_state', 'W') and is_m(nd['c'][1], 'vorbis_block', 'W'):
                st['W'] = e
            if is_m(nd['c'][0], 'vorbis_dsp_state', 'lW') and is_m(nd['c'][1], 'vorbis_dsp_state', 'W'):
                st['lW'] = e
                skip.add(F.strip_casts(nd['c'][1]))
            if nd['k'] == 'assign':
                skip.add(F.strip_casts(nd['c'][0])) if (is_m(nd['c'][0], 'vorbis_dsp_state', 'W') or is_m(nd['c'][0], 'vorbis_dsp_state', 'lW')) else None
    chk.require('W' in st and 'lW' in st, 'vorbis_synthesis_blockin: stores v->W=vb->W / v->lW=v->W not found')
    n = 0
    for fld in ('lW', 'W'):
        reads = [e for e in F.pos if is_m(e, 'vorbis_dsp_state', fld) and F.ex[e]['k'] == 'member' and e not in skip]
        bad = [e for e in reads if not cfg.pos_dominates(F, st[fld], e)]
        chk.ob('R07.8', F.name, f'reads-of-{fld}-see-this-block', not bad, F.where(bad[0]) if bad else F.where(st[fld]),
               f'{len(reads)} reads of v->{fld}, all dominated by the store on line {F.loc(st[fld])}' if not bad else
               f'v->{fld} is read on line {F.loc(bad[0])} on a path that has not recorded this block\'s window (store on line '
               f'{F.loc(st[fld])} does not dominate it): the sample count of a track-only block uses the previous block\'s size')
        n += 1
    return n


def r07_13(chk, P, rule='R07.13'):
    chk.rule(rule, 'a track-only block advances the position bookkeeping exactly as a decoded one does: vorbis_synthesis_blockin is '
             'interpreted (K4) for an in-sequence block in two constant contexts, vb->pcm == NULL (what vorbis_synthesis_trackonly '
             'produces; sample-accurate seeks feed such blocks for every packet they skip) and vb->pcm != NULL, with marker values '
             'in the window history, the sequence number, the running sample count and the running granule position.  At the '
             'success returns of both contexts: lW holds the old W, W the block\'s flag, sequence the block\'s number, and the '
             'sample count and granule position have advanced by the same range of (last/4 + this/4)')
    import absint
    from absint import V, K
    F = P.need('vorbis_synthesis_blockin')
    chk.require(F.params and F.params[0].get('record') == 'vorbis_dsp_state', 'vorbis_synthesis_blockin: first parameter is not the dsp state')
    root = f'v{F.params[0]["id"]}->'
    MS, MG = 10 ** 6, 10 ** 12
    for recf in (('vorbis_block', 'pcm'), ('vorbis_dsp_state', 'lW'), ('vorbis_dsp_state', 'W'), ('vorbis_block', 'W'),
                 ('private_state', 'sample_count'), ('vorbis_dsp_state', 'granulepos'), ('vorbis_dsp_state', 'sequence')):
        P.field(*recf)
    dflt = {'W': K(0), 'lW': K(7), 'sequence': K(5), 'sample_count': K(MS), 'granulepos': K(MG)}
    res = {}
    for ctx, pv in (('track-only', V(0, 0, nn=False)), ('decoded', V(nn=True))):
        finv = {('vorbis_dsp_state', 'sequence', False): K(5), ('vorbis_block', 'sequence', False): K(6),
                ('private_state', 'sample_count', False): K(MS), ('vorbis_dsp_state', 'granulepos', False): K(MG),
                ('vorbis_block', 'granulepos', False): K(-1), ('vorbis_block', 'eofflag', False): K(0),
                ('vorbis_dsp_state', 'W', False): K(0), ('vorbis_dsp_state', 'lW', False): K(7), ('vorbis_block', 'W', False): K(1),
                ('vorbis_block', 'pcm', False): pv, ('codec_setup_info', 'blocksizes', True): V(64, 8192),
                ('codec_setup_info', 'halfrate_flag', False): V(0, 1)}
        A = absint.Analyzer(P, F, field_inv=finv)
        A.run()
        rets = [(e, env, v) for (e, env, v) in A.ret_states if v is not None and v.lo <= 0 <= v.hi]
        chk.require(rets, f'vorbis_synthesis_blockin has no success return for a {ctx} block')
        out = {}
        for (e, env, v) in rets:
            for fld in dflt:
                hit = [x for k_, x in env.items() if isinstance(k_, str) and k_.startswith(root) and k_.endswith('->' + fld) or k_ == root + fld]
                hit = [x for x in hit if isinstance(x, V)]
                x = dflt[fld] if not hit else hit[0]
                for y in hit[1:]:
                    x = absint.join(x, y)
                out[fld] = x if fld not in out else absint.join(out[fld], x)
        res[ctx] = (out, rets[0][0])
    for ctx, (out, where) in res.items():
        ok = (out['lW'].const() == 0 and out['W'].const() == 1 and out['sequence'].const() == 6 and
              out['sample_count'].lo >= MS + 32 and out['granulepos'].lo >= MG + 32)
        chk.ob(rule, F.name, f'{ctx}-block-advances-the-bookkeeping', ok, F.where(where),
               f'lW {out["lW"]} (old W 0), W {out["W"]} (block 1), sequence {out["sequence"]} (block 6), sample count '
               f'{out["sample_count"]} (was {MS}), granule position {out["granulepos"]} (was {MG})')
    a, b = res['track-only'][0], res['decoded'][0]
    same = all((a[f].lo, a[f].hi) == (b[f].lo, b[f].hi) for f in dflt)
    chk.ob(rule, F.name, 'track-only-and-decoded-blocks-agree', same, F.where(res['track-only'][1]),
           'both contexts leave the same bookkeeping' if same else
           'the bookkeeping differs: ' + '; '.join(f'{f}: {a[f]} vs {b[f]}' for f in dflt if (a[f].lo, a[f].hi) != (b[f].lo, b[f].hi)))
    return 3


def r07_12(chk, P):
    chk.rule('R07.12', 'a packet advances the position by a quarter of the previous block plus a quarter of its own (Vorbis I: two '
             'consecutive blocks overlap by half of each): in vorbisfile.c every accumulation (X += E, X = X + E) whose increment '
             'reads a local assigned from vorbis_packet_blocksize is, as a linear form with rational coefficients, '
             '1/4*this + 1/4*last, where `last` is the local that is elsewhere assigned from `this`.  All sites that count '
             'samples from block sizes (initial offset of a link, raw seek, sample-accurate seek) must agree with the decoder')
    from fractions import Fraction
    from rules.c19 import _linform
    n = 0
    for F in P.functions():
        if not F.file.endswith('vorbisfile.c'):
            continue
        bs = set()
        for e in F.pos:
            nd = F.ex[e]
            rhs, lhs = None, None
            if nd['k'] == 'assign' and nd['op'] == '=':
                lhs, rhs = F.ex[F.strip_casts(nd['c'][0])], F.ex[F.strip_casts(nd['c'][1])]
                if lhs['k'] == 'ref' and rhs['k'] == 'call' and rhs['callee'].get('d') == 'vorbis_packet_blocksize':
                    bs.add(lhs['decl'].get('id'))
            elif nd['k'] == 'decl':
                for v in nd['vars']:
                    if v.get('init') is not None:
                        r = F.ex[F.strip_casts(v['init'])]
                        if r['k'] == 'call' and r['callee'].get('d') == 'vorbis_packet_blocksize':
                            bs.add(v['id'])
        if not bs:
            continue
        # `last` variables: assigned from a block-size variable
        last = {}
        for e in F.nodes('assign'):
            nd = F.ex[e]
            l, r = F.ex[F.strip_casts(nd['c'][0])], F.ex[F.strip_casts(nd['c'][1])]
            if nd['op'] == '=' and l['k'] == 'ref' and r['k'] == 'ref' and r['decl'].get('id') in bs:
                last[l['decl'].get('id')] = r['decl'].get('id')
        names = {vid: F.vars.get(vid, {}).get('name') for vid in set(bs) | set(last)}
        for e in sorted(F.nodes('assign'), key=lambda x: F.ex[x].get('loc') or [0, 0]):
            nd = F.ex[e]
            inc = None
            if nd['op'] == '+=':
                inc = nd['c'][1]
            elif nd['op'] == '=':
                r = F.ex[F.strip_casts(nd['c'][1])]
                if r['k'] == 'bin' and r['op'] == '+':
                    lt = F.s(F.strip_casts(nd['c'][0]))
                    if F.s(F.strip_casts(r['c'][0])) == lt:
                        inc = r['c'][1]
                    elif F.s(F.strip_casts(r['c'][1])) == lt:
                        inc = r['c'][0]
            if inc is None:
                continue
            if not any(F.ex[q]['k'] == 'ref' and F.ex[q]['decl'].get('id') in bs for q in F.walk(inc)):
                continue
            lf = _linform(F, inc, {})
            ok = False
            show = F.s(inc)
            if lf is not None:
                terms = {k_: v for k_, v in lf.items() if v != 0}
                this_n = [names[v] for v in bs]
                ok = len(terms) == 2 and all(v == Fraction(1, 4) for v in terms.values()) and \
                    any(k_ in this_n for k_ in terms) and any(k_ in [names[l_] for l_ in last] for k_ in terms)
                show = ' + '.join(f'{v}*{k_}' for k_, v in sorted(terms.items(), key=str))
            n += 1
            chk.ob('R07.12', F.name, f'packet-advance-is-quarter-sum@{F.loc(e)}', ok, F.where(e),
                   f'`{F.s(e)[:60]}` = {show}' if ok else
                   f'`{F.s(e)[:70]}`: the increment is {show}, not last/4 + this/4: across a block-size switch the count differs from the '
                   'samples the decoder delivers, and the position reported after the seek is off by (long-short)/4')
    return n


def run(chk, P):
    E = getattr(P, '_effects', None) or k3.Effects(P)
    P._effects = E
    r07_1(chk, P)
    chk.floor('R07.1', 3)
    r07_2_4(chk, P, E)
    chk.floor('R07.2', 3)
    r07_3(chk, P, E)
    chk.floor('R07.3', 2)
    r07_6(chk, P, E)
    chk.floor('R07.6', 3)
    r07_7(chk, P)
    chk.floor('R07.7', 1)
    import typestate
    typestate.c07(chk, P)
    r07_8(chk, P)
    chk.floor('R07.8', 2)
    r07_12(chk, P)
    r07_13(chk, P)
    chk.floor('R07.13', 3)
    chk.rule('R07.14', 'the byte position the handle believes in is the one the data source is at: the seek helper moves its '
             'bookkeeping (vf->offset, the sync buffer) only after the seek callback succeeded (same obligations as R12.6).  A '
             'helper that records the new offset first turns a failed seek into a handle whose retried seek is skipped as '
             '"already there" and whose reported position belongs to other audio')
    from rules import c12
    c12.r12_6(common.Proxy(chk, 'R07.14'), P)
    chk.floor('R07.14', 2)
    chk.floor('R07.12', 2)
    chk.rule('R07.9', 'the data offsets the seeks start from are the links\' first audio pages: every value stored into vf->dataoffsets[] '
             'that derives from a read of the stream position vf->offset sees the header fetch of that link as the last writer of '
             'the position, not a later page fetch (the first-page special case of ov_pcm_seek_page compares the bisection result '
             'with dataoffsets[link]; an offset one page late makes the seek deliver audio one page after the position it reports) '
             '-- same obligations as R09.8, restricted to the dataoffsets table')
    from rules import c09
    c09.r09_8(common.Proxy(chk, 'R07.9', only=lambda fn, cons: cons.startswith('dataoffsets-')), P, E)
    chk.floor('R07.9', 1)
    from rules import pagestate
    pagestate.stream_live(chk, P, 'R07.10')
    chk.floor('R07.10', 4)
    import frames as _fr
    _fr.r07_11(chk, P)
    chk.floor('R07.11', 3)
    import frames
    frames.c07(chk, P)
    chk.trusted += ['clang 14 front end', 'K3 effect table', 'interval abstraction of return values']
    return ('Path rules partitioned by path history decide that sample consumption and position bookkeeping move together with '
            'one count and the half-rate shift, that every successful seek path defines the position and resets or rebuilds '
            'the decoder, and that reads report the link index with the data; the frame analysis decides that every value '
            'stored into the position is a physical-stream position obtained with the current link\'s offset and prefix. '
            'Does not decide bit-identity of the audio after a seek.')
