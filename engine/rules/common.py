"""Helpers shared by the rule modules."""
import os

import cfg
from facts import AnalysisBroken, REPO

TERMINATORS = ['exit', '_exit', '_Exit', 'abort', '__assert_fail', 'longjmp', 'siglongjmp', 'raise', 'kill',
               'quick_exit', '__builtin_trap', '__builtin_abort']
NON_REENTRANT = ['rand', 'srand', 'random', 'srandom', 'strtok', 'localtime', 'gmtime', 'ctime', 'asctime',
                 'setlocale', 'getenv', 'putenv', 'setenv', 'strerror', 'tmpnam', 'tempnam', 'getpwnam', 'drand48',
                 'lrand48', 'srand48', 'basename', 'dirname', 'readdir', 'signal']
LOCALE_DEPENDENT = ['toupper', 'tolower', 'strcasecmp', 'strncasecmp', 'isalpha', 'isupper', 'islower', 'isalnum',
                    'towupper', 'towlower', 'strcoll', 'strxfrm', '__ctype_toupper_loc', '__ctype_tolower_loc',
                    '__ctype_b_loc', 'strcasecmp_l']


def api(P, header):
    """Public functions declared in include/vorbis/<header> that are defined in the analysed units."""
    names = sorted(n for n, h in P.public_api().items() if h == header)
    out = [n for n in names if P.get(n) is not None]
    return out


def decode_api(P):
    """Decode-side entry points of codec.h: everything that is not analysis/encode."""
    enc_words = ('analysis', 'bitrate', 'commentheader_out', 'encode')
    out = []
    for n in api(P, 'codec.h'):
        if any(w in n for w in enc_words):
            continue
        out.append(n)
    if len(out) < 20:
        raise AnalysisBroken(f'decode API set too small ({len(out)})')
    return out


def encode_api(P):
    enc_words = ('analysis', 'bitrate', 'commentheader_out')
    out = [n for n in api(P, 'codec.h') if any(w in n for w in enc_words)]
    out += api(P, 'vorbisenc.h')
    return out


def file_api(P):
    out = api(P, 'vorbisfile.h')
    if len(out) < 30:
        raise AnalysisBroken(f'vorbisfile API set too small ({len(out)})')
    return out


def rel(F):
    return os.path.relpath(F.file, REPO)


def cond_mentions_field(F, e, rec, fld):
    for n in F.walk(e):
        nd = F.ex[n]
        if nd['k'] == 'member' and nd.get('record') == rec and nd['field'] == fld:
            return True
    return False


def guarded_by_true_edge(F, site, pred):
    """Is node `site` only reachable through the true edge of a branch whose condition satisfies pred(cond id)?"""
    pb = F.pos[site][0]
    dom = cfg.dominators(F)
    for b in dom.get(pb, ()):
        blk = F.blocks[b]
        t = blk.get('term')
        if not t or 'cond' not in t or len(blk['succs']) < 2:
            continue
        if not pred(t['cond']):
            continue
        tr, fa = blk['succs'][0], blk['succs'][1]
        if tr is None:
            continue
        # site dominated by the true successor, and the true successor is entered only from b
        if tr in dom.get(pb, ()) and tr != fa and all(p == b for p in F.preds[tr]):
            return True
    return False


def call_name(F, e):
    nd = F.ex[e]
    if nd['k'] != 'call':
        return None
    return nd['callee'].get('d')


def is_zero(F, e):
    nd = F.ex[F.strip_casts(e)]
    return nd['k'] == 'int' and nd['v'] == 0


def const_val(F, e):
    nd = F.ex[F.strip_casts(e)]
    if nd['k'] == 'int':
        return nd['v']
    return None
