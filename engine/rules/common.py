"""Helpers shared by the rule modules."""
import os

import cfg
from facts import AnalysisBroken, REPO

TERMINATORS = ['exit', '_exit', '_Exit', 'abort', '__assert_fail', 'longjmp', 'siglongjmp', 'raise', 'kill',
               'quick_exit', '__builtin_trap', '__builtin_abort']
NON_REENTRANT = ['rand', 'srand', 'random', 'srandom', 'strtok', 'localtime', 'gmtime', 'ctime', 'asctime',
                 'setlocale', 'getenv', 'putenv', 'setenv', 'strerror', 'tmpnam', 'tempnam', 'getpwnam', 'drand48',
                 'lrand48', 'srand48', 'basename', 'dirname', 'readdir', 'signal']
LOCALE_DEPENDENT = ['toupper', 'tolower', 'strcasecmp', 'strncasecmp', 'isalpha', 'isupper', 'islower', 'isalnum',
                    'towupper', 'towlower', 'strcoll', 'strxfrm', '__ctype_toupper_loc', '__ctype_tolower_loc',
                    '__ctype_b_loc', 'strcasecmp_l']


def api(P, header):
    """Public functions declared in include/vorbis/<header> that are defined in the analysed units."""
    names = sorted(n for n, h in P.public_api().items() if h == header)
    out = [n for n in names if P.get(n) is not None]
    return out


def decode_api(P):
    """Decode-side entry points of codec.h: everything that is not analysis/encode."""
    enc_words = ('analysis', 'bitrate', 'commentheader_out', 'encode')
    out = []
    for n in api(P, 'codec.h'):
        if any(w in n for w in enc_words):
            continue
        out.append(n)
    if len(out) < 20:
        raise AnalysisBroken(f'decode API set too small ({len(out)})')
    return out


def encode_api(P):
    enc_words = ('analysis', 'bitrate', 'commentheader_out')
    out = [n for n in api(P, 'codec.h') if any(w in n for w in enc_words)]
    out += api(P, 'vorbisenc.h')
    return out


def file_api(P):
    out = api(P, 'vorbisfile.h')
    if len(out) < 30:
        raise AnalysisBroken(f'vorbisfile API set too small ({len(out)})')
    return out


def rel(F):
    return os.path.relpath(F.file, REPO)


def cond_mentions_field(F, e, rec, fld):
    for n in F.walk(e):
        nd = F.ex[n]
        if nd['k'] == 'member' and nd.get('record') == rec and nd['field'] == fld:
            return True
    return False


def guarded_by_true_edge(F, site, pred):
    """Is node `site` reached only while a condition satisfying pred(cond id) holds?  The form of the test does not matter:
    if(x){site}, if(!x)return; site, if(x!=0 && y){site} all count (atomic_conditions normalises them)."""
    return any(pol and pred(c) for c, pol in atomic_conditions(F, site))


def atomic_conditions(F, node):
    """controlling_conditions split into atoms: [(expr id, truth)] -- `!c` flips the truth, c!=0 / c==0 reduce to c,
    a conjunction that must be true (a disjunction that must be false) contributes each operand"""
    out = []

    def add(c, pol):
        nd = F.ex[c]
        if nd['k'] in ('cast', 'paren'):
            return add(nd['c'][0], pol)
        if nd['k'] == 'un' and nd['op'] == '!':
            return add(nd['c'][0], not pol)
        if nd['k'] == 'bin' and nd['op'] in ('!=', '==') and (is_zero(F, nd['c'][1]) or is_zero(F, nd['c'][0])):
            other = nd['c'][0] if is_zero(F, nd['c'][1]) else nd['c'][1]
            return add(other, pol if nd['op'] == '!=' else not pol)
        if nd['k'] == 'bin' and nd['op'] == '&&' and pol:
            add(nd['c'][0], True)
            add(nd['c'][1], True)
            return
        if nd['k'] == 'bin' and nd['op'] == '||' and not pol:
            add(nd['c'][0], False)
            add(nd['c'][1], False)
            return
        out.append((c, pol))
    for c, pol in controlling_conditions(F, node):
        add(c, pol)
    return out


def call_name(F, e):
    nd = F.ex[e]
    if nd['k'] != 'call':
        return None
    return nd['callee'].get('d')


def is_zero(F, e):
    nd = F.ex[F.strip_casts(e)]
    return nd['k'] == 'int' and nd['v'] == 0


def const_val(F, e):
    nd = F.ex[F.strip_casts(e)]
    if nd['k'] == 'int':
        return nd['v']
    return None


class NotConst(Exception):
    pass


def consteval(P, F, e, bind, canon):
    """exact value of integer expression e when the struct fields / variables named in `bind` (canonical string -> int)
    take the given values; constant static tables are read; anything else raises NotConst"""
    nd = F.ex[e]
    k = nd['k']
    c = nd.get('c', [])
    if k == 'int':
        return nd['v']
    if k == 'cast':
        return consteval(P, F, c[0], bind, canon)
    if k in ('member', 'ref', 'sub'):
        s = canon(F, e)
        if s in bind:
            return bind[s]
        if k == 'sub':
            b = F.ex[F.strip_casts(c[0])]
            if b['k'] == 'ref' and b['decl']['kind'] == 'global' and (b['decl'].get('const') or str(b.get('t', '')).startswith('const ')):
                idx = consteval(P, F, c[1], bind, canon)
                for g in P.globals.get(b['decl']['name'], []):
                    init = g.get('init')
                    if isinstance(init, dict) and init.get('kind') == 'list' and 0 <= idx < len(init['elems']) \
                            and isinstance(init['elems'][idx], (int, float)):
                        return init['elems'][idx]
        raise NotConst(s)
    if k == 'un':
        v = consteval(P, F, c[0], bind, canon)
        return {'-': -v, '+': v, '~': ~v, '!': int(not v)}.get(nd['op'], None) if nd['op'] in '-+~!' else _nc()
    if k == 'bin':
        a = consteval(P, F, c[0], bind, canon)
        b = consteval(P, F, c[1], bind, canon)
        op = nd['op']
        if op == '+': return a + b
        if op == '-': return a - b
        if op == '*': return a * b
        if op == '/':
            if b == 0: raise NotConst('division by zero')
            q = abs(a) // abs(b)
            return q if (a >= 0) == (b >= 0) else -q
        if op == '%':
            if b == 0: raise NotConst('division by zero')
            return a - b * (abs(a) // abs(b) * (1 if (a >= 0) == (b >= 0) else -1))
        if op == '<<': return a << b
        if op == '>>': return a >> b
        if op == '&': return a & b
        if op == '|': return a | b
        if op == '^': return a ^ b
        if op == '<': return int(a < b)
        if op == '>': return int(a > b)
        if op == '<=': return int(a <= b)
        if op == '>=': return int(a >= b)
        if op == '==': return int(a == b)
        if op == '!=': return int(a != b)
        if op == '&&': return int(bool(a) and bool(b))
        if op == '||': return int(bool(a) or bool(b))
        raise NotConst(op)
    if k == 'cond':
        return consteval(P, F, c[1] if consteval(P, F, c[0], bind, canon) else c[2], bind, canon)
    raise NotConst(k)


def _nc():
    raise NotConst('operator')


def controlling_conditions(F, node):
    """branch conditions that decide whether `node` is evaluated: [(cond expr id, polarity)] from the dominator chain.
    polarity True means node is reached only through the true edge."""
    b0 = F.pos[node][0]
    dom = cfg.dominators(F)
    out = []
    for b in dom.get(b0, ()):
        if b == b0:
            continue
        blk = F.blocks[b]
        t = blk.get('term')
        if not t or 'cond' not in t or len(blk['succs']) != 2:
            continue
        tr, fa = blk['succs']
        reach_t = tr is not None and _reaches_without(F, tr, b0, b)
        reach_f = fa is not None and _reaches_without(F, fa, b0, b)
        if reach_t and not reach_f:
            out.append((t['cond'], True))
        elif reach_f and not reach_t:
            out.append((t['cond'], False))
    return out


def _reaches_without(F, src, dst, avoid):
    seen = {avoid}
    st = [src]
    while st:
        x = st.pop()
        if x == dst:
            return True
        if x in seen:
            continue
        seen.add(x)
        for s in F.blocks[x]['succs']:
            if s is not None and s not in seen:
                st.append(s)
    return False


def single_defs(F):
    """local var id -> defining expression id, for locals assigned exactly once (declaration initialiser or one '=')"""
    defs = {}
    count = {}
    for n in F.pos:
        nd = F.ex[n]
        if nd['k'] == 'decl':
            for v in nd['vars']:
                if 'id' in v and v.get('init'):
                    defs[v['id']] = v['init']
                    count[v['id']] = count.get(v['id'], 0) + 1
        elif nd['k'] == 'assign':
            l = F.ex[F.strip_casts(nd['c'][0])]
            if l['k'] == 'ref' and l['decl']['kind'] == 'var':
                count[l['decl']['id']] = count.get(l['decl']['id'], 0) + (1 if nd['op'] == '=' else 2)
                defs[l['decl']['id']] = nd['c'][1]
        elif nd['k'] == 'un' and nd['op'] in ('pre++', 'pre--', 'post++', 'post--'):
            l = F.ex[F.strip_casts(nd['c'][0])]
            if l['k'] == 'ref' and l['decl']['kind'] == 'var':
                count[l['decl']['id']] = count.get(l['decl']['id'], 0) + 2
        elif nd['k'] == 'un' and nd['op'] == '&':
            l = F.ex[F.strip_casts(nd['c'][0])]
            if l['k'] == 'ref' and l['decl']['kind'] == 'var':
                count[l['decl']['id']] = count.get(l['decl']['id'], 0) + 2
    return {v: e for v, e in defs.items() if count.get(v) == 1}


def alias_of_var(F, vid, at):
    """`const int slot=vc->comments; ... arr[slot]`: when local vid is assigned exactly once from a location (field or
    variable) and that location is not stored between the definition and node `at`, the location's expression id"""
    defs = single_defs(F)
    d = defs.get(vid)
    if d is None:
        return None
    d = F.strip_casts(d)
    dn = F.ex[d]
    if dn['k'] not in ('member', 'ref') or (dn['k'] == 'ref' and dn['decl'].get('kind') not in ('var', 'param')):
        return None
    txt = F.s(d)
    dpos = None
    for n in F.pos:
        x = F.ex[n]
        if x['k'] == 'decl' and any(v.get('id') == vid and v.get('init') is not None for v in x['vars']):
            dpos = F.pos[n]
        elif x['k'] == 'assign' and x['op'] == '=':
            l = F.ex[F.strip_casts(x['c'][0])]
            if l['k'] == 'ref' and l['decl'].get('id') == vid:
                dpos = F.pos[n]
    if dpos is None:
        return None

    def mod(n):
        x = F.ex[n]
        if x['k'] == 'assign' or (x['k'] == 'un' and x['op'] in ('pre++', 'pre--', 'post++', 'post--')):
            return F.s(F.strip_casts(x['c'][0])) == txt
        return False
    if cfg.search(F, dpos, mod, lambda n: n == at) is not None:
        return None
    return d


def alias_of(F, e, at):
    """expression e with a single-assignment local copy of a location resolved to that location (see alias_of_var)"""
    e = F.strip_casts(e)
    nd = F.ex[e]
    if nd['k'] != 'ref' or nd['decl'].get('kind') != 'var':
        return e
    d = alias_of_var(F, nd['decl'].get('id'), at)
    return e if d is None else d


def canon_at(F, e, sk, at):
    """canonical text of e as evaluated at node `at`: local copies of an unmodified location print as the location"""
    env = {}
    for n in F.walk(e):
        nd = F.ex[n]
        if nd['k'] == 'ref' and nd['decl'].get('kind') == 'var' and nd['decl'].get('id') not in env:
            d = alias_of_var(F, nd['decl']['id'], at)
            if d is not None:
                cs = sk.canon(F, d, {})
                if '.' in cs:           # a copy of a field; a copy of another local stays a wild card
                    env[nd['decl']['id']] = cs
    return sk.canon(F, e, env)


def canon_x(F, e, sk, depth=2, defs=None):
    """canonical string with single-definition locals replaced by their defining expression (depth levels)"""
    defs = single_defs(F) if defs is None else defs
    env = {}
    if depth > 0:
        for v, d in defs.items():
            t = F.vars.get(v, {}).get('t', '')
            env[v] = '<' + canon_x(F, d, sk, depth - 1, defs) + '>' if depth > 1 else '<' + sk.canon(F, d, {}) + '>'
    return sk.canon(F, e, env)



def enclosing_ifs(F, e):
    """[(condition expr id, True for the then-arm / False for the else-arm)] of the if statements that enclose the statement
    evaluating node e (statement tree, so a condition a||b is one expression), outermost first"""
    root = e
    while F.sparent.get(root) is not None:
        root = F.sparent[root]

    def find(s, acc):
        if s is None:
            return None
        k = s['k']
        if k in ('expr', 'decl', 'ret') and s.get('e') == root:
            return acc
        if k == 'seq':
            for c in s['c']:
                r = find(c, acc)
                if r is not None:
                    return r
        elif k == 'if':
            if s.get('cond') == root:
                return acc
            r = find(s.get('then'), acc + [(s['cond'], True)])
            if r is None:
                r = find(s.get('else'), acc + [(s['cond'], False)])
            return r
        elif k in ('for', 'while', 'do', 'switch', 'case', 'default', 'label'):
            for key in ('init', 'body'):
                if isinstance(s.get(key), dict):
                    r = find(s[key], acc)
                    if r is not None:
                        return r
            if s.get('cond') == root or s.get('inc') == root:
                return acc
        return None
    return find(F.d.get('body'), []) or []



def _always_leaves(s):
    """does statement s end in return / goto / break / continue on every path (syntactically)?"""
    if s is None:
        return False
    k = s['k']
    if k in ('ret', 'goto', 'break', 'continue'):
        return True
    if k == 'seq':
        return bool(s['c']) and _always_leaves(s['c'][-1])
    if k == 'if':
        return _always_leaves(s.get('then')) and _always_leaves(s.get('else'))
    return False


def guard_conditions(F, e):
    """statement-tree view of what holds when node e is evaluated: [(condition expr id, truth)] -- the enclosing if
    statements (then-arm: true, else-arm: false) and every earlier `if(c) return/goto ...;` guard in an enclosing block
    (false).  Conditions are whole expressions (a&&b stays one).  Sound only for operands that are not modified between
    the guard and e; callers check that."""
    root = e
    while F.sparent.get(root) is not None:
        root = F.sparent[root]

    def find(s, acc):
        if s is None:
            return None
        k = s['k']
        if k in ('expr', 'decl', 'ret') and s.get('e') == root:
            return acc
        if k == 'seq':
            cur = list(acc)
            for c in s['c']:
                r = find(c, cur)
                if r is not None:
                    return r
                if c['k'] == 'if' and c.get('else') is None and _always_leaves(c.get('then')):
                    cur = cur + [(c['cond'], False)]
            return None
        if k == 'if':
            if s.get('cond') == root:
                return acc
            r = find(s.get('then'), acc + [(s['cond'], True)])
            if r is None:
                r = find(s.get('else'), acc + [(s['cond'], False)])
            return r
        if k in ('for', 'while', 'do', 'switch', 'case', 'default', 'label'):
            for key in ('init', 'body'):
                if isinstance(s.get(key), dict):
                    r = find(s[key], acc)
                    if r is not None:
                        return r
            if s.get('cond') == root or s.get('inc') == root:
                return acc
        return None
    return find(F.d.get('body'), []) or []


class Proxy:
    """records the obligations of a shared rule function under another rule id"""
    def __init__(self, chk, rid, only=None):
        self.chk, self.rid, self.only = chk, rid, only

    def __getattr__(self, a):
        return getattr(self.chk, a)

    def ob(self, rule, fn, cons, *a, **k):
        if self.only is not None and not self.only(fn, cons):
            return None
        return self.chk.ob(self.rid, fn, cons, *a, **k)

    def assumed(self, rule, fn, cons, *a, **k):
        if self.only is not None and not self.only(fn, cons):
            return None
        return self.chk.assumed(self.rid, fn, cons, *a, **k)

    def rule(self, rid, text):
        pass

    def require(self, *a):
        return self.chk.require(*a)


# ---- end-of-packet sentinel aliasing (shared by C16 R16.7 and C05 R05.12) -------------------------------------------------
def _bit_read(F, e):
    """(k, call id) when e (casts stripped) is oggpack_read/oggpack_look with a constant width k, else None"""
    nd = F.ex[F.strip_casts(e)]
    if nd['k'] == 'call' and nd['callee'].get('d') in ('oggpack_read', 'oggpack_look') and len(nd.get('c', ())) >= 2:
        k = const_val(F, nd['c'][1])
        if isinstance(k, int):
            return k, F.strip_casts(e)
    return None


def eop_alias(chk, P, rule, funcs):
    """Every test of a bit-reader result for the end-of-packet answer (-1) is made on a value wide enough to hold every legal
    value of the field: a k-bit field narrowed to a type whose maximum is below 2^k-1 (a byte kept in a `char`) and *then*
    compared with a negative constant (or tested for sign) takes the legal value that wraps to -1 for the end of the packet.
    Narrowing alone (storing the byte) is fine; so is a test on the unnarrowed result.  32-bit fields are left out: a length
    of 2^31 or more is refused on purpose by the same sign test.  Returns the number of sentinel tests examined."""
    from absint import int_type_range
    n = 0
    for F in funcs:
        if F.entry is None:
            continue
        defs_all = {}
        for e in F.pos:
            nd = F.ex[e]
            if nd['k'] == 'decl':
                for v in nd['vars']:
                    if 'id' in v and v.get('init'):
                        defs_all.setdefault(v['id'], []).append(v['init'])
            elif nd['k'] == 'assign' and nd['op'] == '=':
                l = F.ex[F.strip_casts(nd['c'][0])]
                if l['k'] == 'ref' and l['decl']['kind'] == 'var':
                    defs_all.setdefault(l['decl']['id'], []).append(nd['c'][1])

        def narrowed(e, cap, depth=0):
            """-> list of (k, call id, cap) for reads whose value reaches e through types of maximum `cap`"""
            nd = F.ex[e]
            k = nd['k']
            if k == 'paren':
                return narrowed(nd['c'][0], cap, depth)
            if k == 'cast':
                r = int_type_range(nd.get('t', ''))
                return narrowed(nd['c'][0], min(cap, r[1]) if r else cap, depth)
            if k == 'assign' and nd['op'] == '=':
                r = int_type_range(nd.get('t', '') or F.ex[nd['c'][0]].get('t', ''))
                return narrowed(nd['c'][1], min(cap, r[1]) if r else cap, depth)
            if k == 'call':
                br = _bit_read(F, e)
                return [(br[0], br[1], cap)] if br else []
            if k == 'ref' and nd['decl']['kind'] == 'var' and depth < 2:
                r = int_type_range(nd.get('t', ''))
                c2 = min(cap, r[1]) if r else cap
                out = []
                for d in defs_all.get(nd['decl']['id'], ()):
                    out += narrowed(d, c2, depth + 1)
                return out
            return []
        for e in sorted(F.pos):
            nd = F.ex[e]
            if nd['k'] != 'bin' or nd['op'] not in ('==', '!=', '<', '<=', '>', '>='):
                continue
            for a, b in ((nd['c'][0], nd['c'][1]), (nd['c'][1], nd['c'][0])):
                cv = const_val(F, b)
                if not isinstance(cv, int):
                    continue
                sentinel = cv < 0 or (cv == 0 and nd['op'] in ('<', '>=') and a == nd['c'][0]) or \
                    (cv == 0 and nd['op'] in ('>', '<=') and a == nd['c'][1])
                if not sentinel:
                    continue
                hits = [h for h in narrowed(a, float('inf')) if h[0] <= 31]
                if not hits:
                    continue
                n += 1
                bad = [h for h in hits if (1 << h[0]) - 1 > h[2]]
                chk.ob(rule, F.name, f'sentinel-test-on-full-width:{F.s(a)[:40]}#{n}', not bad, F.where(e),
                       (f'`{F.s(e)}` tests a {bad[0][0]}-bit field after it was narrowed to a type with maximum {bad[0][2]}: the legal '
                        f'value {(1 << bad[0][0]) - 1} wraps to -1 and is taken for the end of the packet') if bad else
                       f'`{F.s(e)}`: {[(h[0], h[2]) for h in hits]} (field bits, narrowest type maximum on the way)')
    return n


def eop_alias_selftest(chk, rule):
    """positive / negative control for eop_alias on selftest/positive/eop_alias.c"""
    import selfcheck
    from facts import AnalysisBroken
    P2 = selfcheck.control_program('eop_alias.c')

    class Rec:
        def __init__(self):
            self.bad, self.good = set(), set()

        def ob(self, rule_, fn, cons, ok, where, msg='', path=None):
            (self.good if ok else self.bad).add(fn)
    r = Rec()
    eop_alias(r, P2, rule, list(P2.functions()))
    need = {'pc_byte_in_char_compared', 'pc_short_local_sign_test', 'pc_explicit_cast'}
    clean = {'pc_clean_wide_test', 'pc_clean_int_test', 'pc_clean_narrow_store_only'}
    if not need <= r.bad:
        raise AnalysisBroken(f'{rule} positive control not flagged: {sorted(need - r.bad)}')
    if clean & r.bad:
        raise AnalysisBroken(f'{rule} negative control flagged: {sorted(clean & r.bad)}')
    chk.notes.append(f'{rule} controls: 3 narrowed sentinel tests flagged, 3 clean readers not flagged')
