"""C05 — encoder output is a valid stream the decoder consumes bit-for-bit (partial, DESIGN 4/C05).

Decided: R05.1 every packer mirrors its unpacker (width paths equal; same field and inverse affine offset on every
aligned constant-width field); R05.2 falls out of R05.1 for the identification header; R05.3 the audio packet
prologue written by the mapping's forward function is the one vorbis_synthesis reads; R05.4 floor-1 packet layout
written by floor1_encode is the one floor1_inverse1 reads; R05.5 every producer of an ogg_packet fills all six fields."""
import k8
from facts import AnalysisBroken
import cfg
from rules import layout, common


def header_dispatch(P):
    """packet type constant -> unpack function called under that case in vorbis_synthesis_headerin"""
    F = P.need(layout.HEADER_PREFIX_READER)
    sk = k8.Skel(P, 'r')
    items = sk.of(F)
    out = {}

    def visit(its):
        for it in its:
            if it[0] == 'SW':
                for v, sub in it[2].items():
                    for x in sub:
                        if x[0] == 'CALL':
                            out[v] = x[1]
                        elif x[0] == 'I':
                            for y in x[2] + x[3]:
                                if y[0] == 'CALL':
                                    out[v] = y[1]
            elif it[0] == 'I':
                visit(it[2])
                visit(it[3])
            elif it[0] == 'L':
                visit(it[2])
    visit(items)
    return out


def r05_1(chk, P, rule='R05.1', only=None):
    chk.rule(rule, 'writer and reader of one bit layout agree: the sets of width sequences over all branch outcomes are equal '
             '(loops as repetition, value-preserving normalisations N2-N8 of DESIGN 3.3/K8), and on every aligned field with '
             'a struct field on both sides the two sides name the same field with inverse affine offsets; constants written '
             'equal constants expected')
    pairs = list(layout.PAIRS) + layout.slot_pairs(P)
    disp = header_dispatch(P)
    nfields = 0
    for (w, r) in pairs:
        if only and w not in only:
            continue
        Fw, wi = layout.skeleton(P, w, 'w')
        Fr, ri = layout.skeleton(P, r, 'r')
        typ, wi2 = layout.strip_prefix_writer(wi)
        if w.startswith('_vorbis_pack_'):
            if typ is None:
                chk.ob(rule, w, f'{w}:header-prefix', False, Fw.where(),
                       'header packer does not start with [8: packet type constant][octet string]')
            else:
                tgt = disp.get(typ)
                chk.ob(rule, w, f'{w}:header-prefix', tgt == r, Fw.where(),
                       f'packet type {typ} is dispatched by vorbis_synthesis_headerin to {tgt}; expected {r}')
            wi = wi2
        nfields += layout.compare_pair(chk, rule, P, w, r, wi, ri, Fw, Fr)
    return len(pairs), nfields


def _clean(items):
    """drop validation exits (branches that only abandon the packet)"""
    out = []
    for x in items:
        if x[0] in ('ABORT', 'END', 'RET'):
            continue
        if x[0] == 'CALL':
            out += _clean(x[2])         # a helper the prologue was moved into
            continue
        if x[0] == 'I':
            a, b = _clean(x[2]), _clean(x[3])
            if not a and not b:
                continue
            out.append(('I', x[1], a, b))
        elif x[0] == 'L':
            out.append(('L', x[1], _clean(x[2])))
        else:
            out.append(x)
    return out


def _prologue(items):
    """items from the first 1-bit field on: F, F, I(F F) — the audio packet prologue"""
    items = _clean(items)

    def find(its):
        for i, it in enumerate(its):
            if it[0] == 'F' and it[1] == 1:
                out = []
                for x in its[i:]:
                    if x[0] == 'I' and all(y[0] in ('ABORT', 'END', 'RET') for y in x[2] + x[3]):
                        continue      # validation exit, no layout
                    if x[0] == 'F' or (x[0] == 'I' and (x[2] or x[3]) and all(y[0] == 'F' for y in x[2] + x[3])):
                        out.append(x)
                    else:
                        break
                return out
            if it[0] == 'L':
                r = find(it[2])
                if r:
                    return r
            if it[0] == 'I':
                r = find(it[2]) or find(it[3])
                if r:
                    return r
        return None
    return find(items)


def r05_3(chk, P):
    chk.rule('R05.3', 'audio packet prologue: the forward function of every mapping writes [1: 0][modebits: mode] and, under '
             'the same block-flag condition, [1: lW][1: nW]; vorbis_synthesis / _trackonly read exactly that, with the mode '
             'width taken from the same field')
    fwds = sorted(P.slots.get(('vorbis_func_mapping', 'forward'), ()))
    chk.require(fwds, 'no function registered in vorbis_func_mapping.forward')
    for w in fwds:
        Fw, wi = layout.skeleton(P, w, 'w', normalise=False)
        pw = _prologue(wi)
        for r in ('vorbis_synthesis', 'vorbis_synthesis_trackonly'):
            Fr, ri = layout.skeleton(P, r, 'r')
            pr = _prologue(ri)
            if not pw or not pr:
                chk.ob('R05.3', w, f'{w}<->{r}:prologue', False, Fw.where(), 'prologue not found on one side')
                continue
            layout.compare_pair(chk, 'R05.3', P, w, r, pw, pr, Fw, Fr)
            # the branch condition must be the block flag on both sides
            def flagcond(x):
                # `if(!W){nothing read}else{reads}` is `if(W){reads}`: the condition under which the fields exist
                c = x[1]
                if isinstance(c, str) and c.startswith('!') and len(x) > 3 and not layout.clean(x[2]) and layout.clean(x[3]):
                    return c[1:]
                return c
            cw = [flagcond(x) for x in pw if x[0] == 'I']
            cr = [flagcond(x) for x in pr if x[0] == 'I']
            chk.ob('R05.3', w, f'{w}<->{r}:window-flag-condition', cw == cr and len(cw) == 1, Fw.where(),
                   f'writer condition {cw}, reader condition {cr}')


def r05_4(chk, P):
    chk.rule('R05.4', 'floor 1 packet body: floor1_encode writes [1: nonzero][ilog(quant_q-1)][ilog(quant_q-1)] then per '
             'partition the class master book and sub-books; floor1_inverse1 reads the same leading fields (book-coded '
             'fields are compared by nesting order in R05.4b)')
    Fw, wi = layout.skeleton(P, 'floor1_encode', 'w', normalise=False)
    Fr, ri = layout.skeleton(P, 'floor1_inverse1', 'r')

    def lead(items):
        out = []
        for it in k8.flat_fields(items):
            if isinstance(it[1], int) or 'quant_q' in str(it[1]):
                out.append(it)
            else:
                break
        return out
    lw = [x for x in k8.flat_fields(wi) if x[1] == 1 or 'quant_q' in str(x[1])]
    lr = [x for x in k8.flat_fields(ri) if x[1] == 1 or 'quant_q' in str(x[1])]
    # the writer emits the nonzero flag as constant 1 on the coded path and constant 0 on the unused path
    ww = [str(x[1]) for x in lw if not (x[1] == 1 and x[2] == ('const', 0))]
    rr = [str(x[1]) for x in lr]
    chk.ob('R05.4', 'floor1_encode', 'floor1_encode<->floor1_inverse1:leading-fields', ww == rr, Fw.where(),
           f'writer {ww} reader {rr}')


def r05_5(chk, P):
    chk.rule('R05.5', 'every function that fills an ogg_packet through a pointer parameter assigns all six fields '
             '(packet, bytes, b_o_s, e_o_s, granulepos, packetno) for each packet it produces; audio producers take e_o_s '
             'from the block eofflag and granulepos from the block granulepos')
    rec = P.record('ogg_packet')
    fields = [f['name'] for f in rec['fields']]
    chk.require(len(fields) == 6, f'ogg_packet has {len(fields)} fields, 6 expected')
    n = 0
    for F in P.functions():
        # packet variables (params of type ogg_packet *) that receive any store
        stores = {}
        for e in F.pos:
            nd = F.ex[e]
            if nd['k'] == 'assign' and nd['op'] == '=':
                lhs = F.ex[F.strip_casts(nd['c'][0])]
                if lhs['k'] == 'member' and lhs.get('record') == 'ogg_packet' and lhs['arrow']:
                    b = F.ex[F.strip_casts(lhs['c'][0])]
                    if b['k'] == 'ref' and b['decl']['kind'] == 'param':
                        stores.setdefault(b['decl']['name'], {})[lhs['field']] = (e, nd['c'][1])
            elif nd['k'] == 'call' and nd['callee'].get('d') == 'memset' and nd.get('c'):
                a = F.ex[F.strip_casts(nd['c'][0])]
                if a['k'] == 'ref' and a['decl']['kind'] == 'param' and 'ogg_packet' in a.get('t', ''):
                    for f in fields:
                        stores.setdefault(a['decl']['name'], {}).setdefault(f, (e, None))
        for var, st in sorted(stores.items()):
            real = {f for f, (e, v) in st.items() if v is not None}
            if not real:
                continue
            n += 1
            missing = [f for f in fields if f not in st]
            chk.ob('R05.5', P.key(F), f'packet:{var}', not missing, F.where(),
                   'all six fields assigned' if not missing else f'fields never assigned: {missing}')
            if F.name in ('vorbis_analysis', 'vorbis_bitrate_flushpacket'):
                for fld, src in (('e_o_s', 'eofflag'), ('granulepos', 'granulepos')):
                    if fld in st and st[fld][1] is not None:
                        s = F.s(st[fld][1])
                        chk.ob('R05.5', P.key(F), f'packet:{var}:{fld}', src in s and 'vb' in s or src in s, F.where(st[fld][0]),
                               f'{fld} = {s}')
    return n


def r05_6(chk, P):
    chk.rule('R05.6', 'the packet the managed-bitrate path hands out is one of the PACKETBLOBS encodings of the block: the value '
             'range of every store to bitrate_manager_state.choice (joined over all functions of the bitrate manager, K4 state '
             'invariant) lies in [0,PACKETBLOBS), and under that invariant every packetblob[] subscript of '
             'vorbis_bitrate_flushpacket is within the array.  (The float-derived search indices inside '
             'vorbis_bitrate_addblock are not decided.)')
    import k4dec
    names = ('vorbis_bitrate_init', 'vorbis_bitrate_clear', 'vorbis_bitrate_managed', 'vorbis_bitrate_addblock',
             'vorbis_bitrate_flushpacket')
    roots = [P.key(P.need(n)) for n in names]
    D = k4dec.Driver(P, roots, [], setup_records=set(), state_records={'bitrate_manager_state', 'vorbis_block_internal'}, jobs=1)
    D.run()
    ext = P.field('vorbis_block_internal', 'packetblob').get('extent')
    chk.require(ext, 'vorbis_block_internal.packetblob is no longer a fixed-extent array')
    n = ext[0]
    v = D.inv_state.get(('bitrate_manager_state', 'choice', False))
    F = P.need('vorbis_bitrate_addblock')
    chk.ob('R05.6', 'bitrate manager', 'choice-within-packetblobs', v is not None and v.lo >= 0 and v.hi < n, F.where(),
           f'bitrate_manager_state.choice in {v} over all stores; packetblob has {n} entries')
    R = D.results.get('vorbis_bitrate_flushpacket')
    chk.require(R is not None and not R.unreached, 'vorbis_bitrate_flushpacket not analysed')
    G = P.need('vorbis_bitrate_flushpacket')
    k = 0
    for st in sorted(R.sites, key=lambda s_: G.ex[s_['e']].get('loc') or [0, 0]):
        if st['kind'] == 'sub' and 'packetblob' in st['text']:
            chk.ob('R05.6', G.name, f'packetblob-subscript#{k}', st['ok'], st['where'], st['bound'])
            k += 1
    chk.require(k >= 1, 'vorbis_bitrate_flushpacket no longer indexes packetblob')


def r05_7(chk, P):
    chk.rule('R05.7', 'the residue encoder forms a codebook entry number as a mixed-radix number over the book\'s lattice: in '
             'local_book_besterror every digit folded into the index (index = index*qv + digit) is provably within [0,qv) '
             '(K4: the digit\'s range is non-negative and strictly below the radix), which is what keeps index < entries and '
             'the written codeword one that the decoder\'s book contains')
    import absint
    F = P.need('local_book_besterror')
    hits = []

    def obs(A, env, e, v):
        nd = A.ex[e]
        if nd['k'] != 'assign' or nd['op'] != '=':
            return
        r = A.ex[A.F.strip_casts(nd['c'][1])]
        l = A.ex[A.F.strip_casts(nd['c'][0])]
        if r['k'] == 'bin' and r['op'] == '+' and l['k'] == 'ref':
            m = A.ex[A.F.strip_casts(r['c'][0])]
            if m['k'] == 'bin' and m['op'] == '*':
                a, b = (A.ex[A.F.strip_casts(x)] for x in m['c'])
                if a['k'] == 'ref' and a['decl'].get('id') == l['decl'].get('id') and b['k'] == 'ref':
                    tmp = env.get('$tmp') or {}
                    dx = A.F.strip_casts(r['c'][1])
                    dv = tmp[dx] if dx in tmp else (tmp[r['c'][1]] if r['c'][1] in tmp else A.ev(env.copy(), r['c'][1]))
                    radix = f'v{b["decl"]["id"]}'
                    hits.append((e, dv, radix))
    from absint import V
    # encoder codebooks are the static lattice books: quantvals >= 1 (a book with entries has at least one lattice value)
    A = absint.Analyzer(P, F, field_inv={('codebook', 'quantvals', False): V(1, 2 ** 31 - 1)})
    A.observers.append(obs)
    A.run()
    chk.require(hits, 'local_book_besterror: no mixed-radix accumulation found')
    seen = {}
    for (e, dv, radix) in hits:
        ok = dv.lo >= 0 and radix in dv.lt
        prev = seen.get(e)
        seen[e] = (ok and (prev[0] if prev else True), dv)
    for i, (e, (ok, dv)) in enumerate(sorted(seen.items(), key=lambda kv: F.ex[kv[0]]['loc'])):
        chk.ob('R05.7', F.name, f'digit-below-radix#{i}', ok, F.where(e), f'{F.s(e)[:70]}: digit {dv}')


def r05_8(chk, P):
    chk.rule('R05.8', 'submap bundles pair each slot with one channel, identically in encoder and decoder: in every block guarded '
             'by info->chmuxlist[J]==I (mapping0_forward, mapping0_inverse) the arrays written are indexed by one slot counter '
             '(not J), and every other array read with a local index is read at J (the channel being placed) or I (the submap): '
             'the non-zero flag and the vector put into a slot belong to the same channel, which is what makes the residue '
             'partition walk of _01forward and _01inverse cover the same channels')
    n = 0
    for F in P.functions():
        if not F.file.endswith('lib/mapping0.c'):
            continue
        guards = {}
        for b, blk in F.blocks.items():
            t = blk.get('term')
            if not t or t.get('cond') is None or len(blk['succs']) != 2:
                continue
            c = F.ex[F.strip_casts(t['cond'])]
            if c['k'] != 'bin' or c['op'] != '==':
                continue
            for x, y in ((c['c'][0], c['c'][1]), (c['c'][1], c['c'][0])):
                sx, sy = F.ex[F.strip_casts(x)], F.ex[F.strip_casts(y)]
                if sx['k'] == 'sub' and sy['k'] == 'ref':
                    base = F.ex[F.strip_casts(sx['c'][0])]
                    idx = F.ex[F.strip_casts(sx['c'][1])]
                    if base['k'] == 'member' and base.get('field') == 'chmuxlist' and idx['k'] == 'ref':
                        guards[t['cond']] = (idx['decl'].get('id'), sy['decl'].get('id'))
        for gi, (cond, (J, I)) in enumerate(sorted(guards.items(), key=lambda kv: F.ex[kv[0]].get('loc') or [0, 0])):
            inside = [e for e in F.pos if any(c_ == cond and pol for c_, pol in common.controlling_conditions(F, e))]

            def local_index(sub):
                ix = F.ex[F.strip_casts(F.ex[sub]['c'][1])]
                if ix['k'] == 'un' and ix['op'] in ('post++', 'pre++', 'post--', 'pre--'):
                    ix = F.ex[F.strip_casts(ix['c'][0])]
                if ix['k'] == 'ref' and ix['decl'].get('kind') in ('var', 'param'):
                    return ix['decl'].get('id')
                return None

            def base_text(sub):
                return F.s(F.strip_casts(F.ex[sub]['c'][0]))
            writes, reads = {}, {}
            for e in inside:
                nd = F.ex[e]
                if nd['k'] != 'sub':
                    continue
                ix = local_index(e)
                if ix is None:
                    continue
                # written when it is the (cast-stripped) left operand of an assignment
                wr = any(F.ex[a]['k'] == 'assign' and F.strip_casts(F.ex[a]['c'][0]) == e for a in inside)
                (writes if wr else reads).setdefault(base_text(e), set()).add((e, ix))
            bad = []
            slots = {ix for v in writes.values() for (_, ix) in v}
            if J in slots:
                bad.append('an array is written at the channel index inside the bundle guard')
            if len(slots - {J}) > 1:
                bad.append(f'the bundle arrays are written with {len(slots)} different slot counters')
            first = None
            for bt, v in sorted(reads.items()):
                for (e, ix) in sorted(v):
                    if bt in writes and ix in slots:
                        continue          # reading back a slot array at the slot
                    if ix not in (J, I):
                        bad.append(f'{F.s(e)} is read at {F.vars.get(ix, {}).get("name", "?")}, not at the channel index '
                                   f'{F.vars.get(J, {}).get("name", "?")}')
                        first = first or e
            chk.ob('R05.8', F.name, f'bundle-slot-pairs-one-channel#{gi}', not bad,
                   F.where(first) if first else F.where(cond),
                   f'{sum(len(v) for v in writes.values())} slot writes, {sum(len(v) for v in reads.values())} channel reads' if not bad
                   else '; '.join(bad))
            n += 1
    return n


def r05_9(chk, P):
    chk.rule('R05.9', 'every residue value the encoder writes has a codeword: the entry number handed to vorbis_book_encode by the '
             'residue encoder comes from a quantiser function G (discovered: the call whose result reaches the entry argument); '
             'in G, on every path from the last computation of the returned entry number to the return, either a branch '
             'established that the book\'s codeword length for that entry (the table vorbis_book_encode takes the bit width '
             'from) is non-zero, or the path ran the nearest-used-entry search (the loop that assigns the entry only under a '
             'non-zero length test). A zero-length entry is written as zero bits while the decoder still reads a codeword, so '
             'the rest of the packet is mis-parsed. Assumed: an encoder book has at least one used entry (the search then assigns)')
    W = P.need('vorbis_book_encode')
    # the width table: third argument of the bit writer inside vorbis_book_encode, subscripted by the entry parameter
    ltab = None
    for c in W.calls('oggpack_write'):
        a = W.ex[c]['c']
        if len(a) >= 3:
            nd = W.ex[W.strip_casts(a[2])]
            if nd['k'] == 'sub':
                b = W.ex[W.strip_casts(nd['c'][0])]
                i = W.ex[W.strip_casts(nd['c'][1])]
                if b['k'] == 'member' and i['k'] == 'ref' and i['decl'].get('kind') == 'param':
                    ltab = b['field']
    chk.require(ltab is not None, 'vorbis_book_encode: the codeword length table was not found')
    # quantiser functions
    G = {}
    for F in P.functions():
        if not F.file.endswith('res0.c'):
            continue
        for c in F.calls('vorbis_book_encode'):
            a = F.ex[c]['c']
            if len(a) < 2:
                continue
            ent = F.ex[F.strip_casts(a[1])]
            if ent['k'] != 'ref' or ent['decl'].get('kind') != 'var':
                continue
            vid = ent['decl']['id']
            for e in F.pos:
                nd = F.ex[e]
                init = None
                if nd['k'] == 'decl':
                    for v in nd['vars']:
                        if v.get('id') == vid and v.get('init'):
                            init = v['init']
                elif nd['k'] == 'assign' and nd['op'] == '=':
                    l = F.ex[F.strip_casts(nd['c'][0])]
                    if l['k'] == 'ref' and l['decl'].get('id') == vid:
                        init = nd['c'][1]
                if init is not None:
                    r = F.ex[F.strip_casts(init)]
                    if r['k'] == 'call' and r['callee'].get('d'):
                        g = P.get(r['callee']['d'], frm=F)
                        if g is not None:
                            G[g.name] = g
    chk.require(G, 'no quantiser feeding vorbis_book_encode found in res0.c')

    def len_test(F, cond, xid):
        """(edge polarity on which lengthtable[x] != 0 is established) or None"""
        nd = F.ex[F.strip_casts(cond)]

        def is_len(e):
            n = F.ex[F.strip_casts(e)]
            if n['k'] != 'sub':
                return False
            b = F.ex[F.strip_casts(n['c'][0])]
            i = F.ex[F.strip_casts(n['c'][1])]
            return b['k'] == 'member' and b['field'] == ltab and i['k'] == 'ref' and i['decl'].get('id') == xid
        if is_len(nd['id']):
            return True
        if nd['k'] == 'un' and nd['op'] == '!' and is_len(nd['c'][0]):
            return False
        if nd['k'] == 'bin' and nd['op'] in ('<', '<=', '>', '>=', '==', '!='):
            a, b = nd['c']
            op = nd['op']
            if is_len(b) and common.const_val(F, a) is not None:
                a, b = b, a
                op = {'<': '>', '<=': '>=', '>': '<', '>=': '<=', '==': '==', '!=': '!='}[op]
            if is_len(a):
                c = common.const_val(F, b)
                if c is None:
                    return None
                import operator
                f = {'<': operator.lt, '<=': operator.le, '>': operator.gt, '>=': operator.ge, '==': operator.eq, '!=': operator.ne}[op]
                vals = range(-3, 130)
                if all(v != 0 for v in vals if f(v, c)):
                    return True
                if all(v != 0 for v in vals if not f(v, c)):
                    return False
        return None

    n = 0
    for name, F in sorted(G.items()):
        rets = cfg.returns(F)
        xs = set()
        for r in rets:
            c = F.ex[r].get('c', [])
            v = F.ex[F.strip_casts(c[0])] if c else None
            if v is not None and v['k'] == 'ref' and v['decl'].get('kind') == 'var':
                xs.add(v['decl']['id'])
        chk.require(len(xs) == 1, f'{name}: the returned entry variable is not unique')
        xid = next(iter(xs))
        # search loops: contain an assignment X = Y controlled by a non-zero length test of Y
        search = set()
        for e in F.nodes('assign'):
            nd = F.ex[e]
            l = F.ex[F.strip_casts(nd['c'][0])]
            r = F.ex[F.strip_casts(nd['c'][1])]
            if nd['op'] == '=' and l['k'] == 'ref' and l['decl'].get('id') == xid and r['k'] == 'ref' and r['decl'].get('kind') == 'var':
                conds = common.controlling_conditions(F, e)
                if any(len_test(F, c, r['decl']['id']) == pol for c, pol in conds if len_test(F, c, r['decl']['id']) is not None):
                    for h, body in cfg.loops(F).items():
                        if F.pos[e][0] in body:
                            search.add(h)
        in_search = set()
        for h in search:
            in_search |= cfg.loops(F)[h]
        # may-set of states per block: U unknown, K length known non-zero, S passed the search loop
        inn = {F.entry: {'U'}}
        work = [F.entry]
        while work:
            b = work.pop()
            st = set(inn[b])
            if b in search:
                st = {'S'}
            blk = F.blocks[b]
            for e in blk['elems']:
                nd = F.ex[e]
                tgt = None
                if nd['k'] == 'assign':
                    tgt = F.ex[F.strip_casts(nd['c'][0])]
                elif nd['k'] == 'un' and nd['op'] in ('pre++', 'post++', 'pre--', 'post--'):
                    tgt = F.ex[F.strip_casts(nd['c'][0])]
                elif nd['k'] == 'decl':
                    if any(v.get('id') == xid for v in nd['vars']):
                        st = {'U'}
                if tgt is not None and tgt['k'] == 'ref' and tgt['decl'].get('id') == xid and b not in in_search:
                    st = {'U'}
            t = blk.get('term')
            cond = t.get('cond') if t else None
            for si, s in enumerate(blk['succs']):
                if s is None:
                    continue
                out = set(st)
                if cond is not None and len(blk['succs']) == 2 and t.get('kind') != 'switch':
                    pol = len_test(F, cond, xid)
                    if pol is not None and pol == (si == 0):
                        out = {('K' if x == 'U' else x) for x in out}
                if not out <= inn.get(s, set()):
                    inn[s] = inn.get(s, set()) | out
                    work.append(s)
        for r in rets:
            st = inn.get(F.pos[r][0], set())
            c = F.ex[r].get('c', [])
            cv = common.const_val(F, c[0]) if c else None
            ok = 'U' not in st or (cv is not None and cv < 0)
            chk.ob('R05.9', name, f'returned-entry-has-a-codeword@{F.loc(r)}', ok, F.where(r),
                   f'on every path the {ltab} test of the returned entry was passed or the used-entry search ran '
                   f'({len(search)} search loop(s))' if ok else
                   f'a path reaches `{F.s(r)}` on which neither `{ltab}[{F.vars[xid]["name"]}]` was found non-zero nor the '
                   f'nearest-used-entry search ran: the encoder can emit an entry that has no codeword (zero bits written, the '
                   'decoder reads a codeword)')
            n += 1
        chk.ob('R05.9', name, 'used-entry-search-present', bool(search), F.where(),
               f'{len(search)} loop(s) assign the entry only under a non-zero {ltab} test' if search else
               f'no loop assigns the entry under a non-zero {ltab} test')
    chk.assumed('R05.9', 'local_book_besterror', 'encoder-book-has-a-used-entry', 'lib/res0.c',
                'the static encoder books each have at least one entry with a codeword, so the search loop assigns an entry')
    return n


def r05_10(chk, P):
    chk.rule('R05.10', 'the packet vorbis_analysis hands out directly is the one the mapping wrote: the bit buffer whose contents the '
             'direct-packet branch of vorbis_analysis returns (the argument of oggpack_get_buffer / oggpack_bytes there) is '
             'designated by a slot of the block\'s packetblob table: some function stores its address into an '
             'element of that table (which slot is not decided).  Without the alias the mapping writes one buffer and the '
             'application is handed another, empty, one')
    A = P.need('vorbis_analysis')
    bufs = set()
    for c in A.calls():
        if A.ex[c]['callee'].get('d') in ('oggpack_get_buffer', 'oggpack_bytes') and A.ex[c]['c']:
            a = A.ex[A.strip_casts(A.ex[c]['c'][0])]
            if a['k'] == 'un' and a['op'] == '&':
                m = A.ex[A.strip_casts(a['c'][0])]
                if m['k'] == 'member':
                    bufs.add((m.get('record'), m['field']))
    chk.require(len(bufs) == 1, f'vorbis_analysis: the buffer of the direct packet was not identified ({sorted(bufs)})')
    rec, fld = next(iter(bufs))
    # stores of &X->fld into an element of a packetblob-like pointer array
    sites = []
    for F in P.functions():
        for e in F.nodes('assign'):
            nd = F.ex[e]
            if nd['op'] != '=':
                continue
            r = F.ex[F.strip_casts(nd['c'][1])]
            l = F.ex[F.strip_casts(nd['c'][0])]
            if l['k'] == 'un' and l['op'] == '*':
                # *p with p = &table[i] (single definition): the slot itself
                pn_ = F.ex[F.strip_casts(l['c'][0])]
                if pn_['k'] == 'ref' and pn_['decl'].get('kind') == 'var':
                    d_ = common.single_defs(F).get(pn_['decl'].get('id'))
                    dn_ = F.ex[F.strip_casts(d_)] if d_ is not None else None
                    if dn_ is not None and dn_['k'] == 'un' and dn_['op'] == '&':
                        l = F.ex[F.strip_casts(dn_['c'][0])]
            if r['k'] == 'un' and r['op'] == '&' and l['k'] == 'sub':
                m = F.ex[F.strip_casts(r['c'][0])]
                b = F.ex[F.strip_casts(l['c'][0])]
                if m['k'] == 'member' and (m.get('record'), m['field']) == (rec, fld) and b['k'] == 'member':
                    # the slot: constant index, or index variable under an equality test with a constant
                    slot = common.const_val(F, l['c'][1])
                    if slot is None:
                        ix = F.ex[F.strip_casts(l['c'][1])]
                        for c_, pol in common.controlling_conditions(F, e):
                            cn = F.ex[F.strip_casts(c_)]
                            if pol and cn['k'] == 'bin' and cn['op'] == '==' and ix['k'] == 'ref':
                                x, y = F.ex[F.strip_casts(cn['c'][0])], cn['c'][1]
                                if x['k'] == 'ref' and x['decl'].get('id') == ix['decl'].get('id'):
                                    slot = common.const_val(F, y)
                    sites.append((F, e, (b.get('record'), b['field']), slot))
    ok1 = bool(sites)
    chk.ob('R05.10', 'vorbis_analysis', 'direct-packet-buffer-is-a-blob-slot', ok1, sites[0][0].where(sites[0][1]) if sites else A.where(),
           f'{sites[0][0].name}: `{sites[0][0].s(sites[0][1])}` (slot {sites[0][3]})' if ok1 else
           f'no function stores &{rec}.{fld} into a blob table: the buffer vorbis_analysis returns is not one the mapping writes')
    return 1



def r05_11(chk, P, rule='R05.11'):
    chk.rule(rule, 'the search for a packet size stays inside the PACKETBLOBS encodings of the block: in vorbis_bitrate_addblock every '
             'subscript of vorbis_block_internal.packetblob is within the array (K4 intervals through the raise / lower loops and '
             'their break tests), given that the two places where the index is taken from the floating average (the result of '
             'rint() stored into the index local) deliver a value in [0,PACKETBLOBS) -- that premise is a property of the float '
             'arithmetic (avgfloat moves towards an index by at most the distance to it) and is listed as an assumption.  A '
             'hard minimum on silence, or a hard maximum on noise, drives the index to either end of the array')
    import absint
    from absint import V, Hooks
    F = P.need('vorbis_bitrate_addblock')
    ext = P.field('vorbis_block_internal', 'packetblob').get('extent')
    chk.require(ext, 'vorbis_block_internal.packetblob is no longer a fixed-extent array')
    n = ext[0]
    subs = []
    idxvars = set()
    for e in F.nodes('sub'):
        nd = F.ex[e]
        b = F.ex[F.strip_casts(nd['c'][0])]
        if b['k'] == 'member' and b.get('record') == 'vorbis_block_internal' and b['field'] == 'packetblob':
            subs.append(e)
            ix = F.ex[F.strip_casts(nd['c'][1])]
            if ix['k'] == 'ref' and ix['decl'].get('kind') == 'var':
                idxvars.add(ix['decl']['id'])
    chk.require(subs, 'vorbis_bitrate_addblock no longer indexes packetblob')

    def from_rint(e):
        for q in F.walk(e):
            qn = F.ex[q]
            if qn['k'] == 'call' and qn['callee'].get('d') in ('rint', 'rintf', 'lrint', 'floor', 'ceil'):
                return True
        return False
    premises = []

    class H(Hooks):
        def on_store(self, A, env, e, key, val):
            nd = A.ex[e]
            rhs = None
            if nd['k'] == 'assign' and nd['op'] == '=':
                rhs = nd['c'][1]
            elif nd['k'] == 'decl':
                for v in nd['vars']:
                    if f"v{v.get('id')}" == key and v.get('init'):
                        rhs = v['init']
            if rhs is not None and key in {f'v{i}' for i in idxvars} and from_rint(rhs):
                if e not in premises:
                    premises.append(e)
                return V(0, n - 1)
            return None
    A = absint.Analyzer(P, F, hooks=H())
    seen = {}

    def obs(A_, env, e, v):
        if e in subs:
            seen[e] = absint.join(seen.get(e), A_.peek(env, A_.ex[e]['c'][1]))
    A.observers.append(obs)
    A.run()
    for i, e in enumerate(sorted(subs, key=lambda x: F.ex[x].get('loc') or [0, 0])):
        v = seen.get(e)
        if v is None:
            continue
        ok = v.lo >= 0 and v.hi < n
        chk.ob(rule, F.name, f'packetblob-subscript#{i}', ok, F.where(e),
               f'index {v} of {n}' if ok else
               f'`{F.s(e)}`: index {v} can leave the array of {n} encodings -- a pointer read from beyond the block is handed to the bit packer')
    for i, e in enumerate(sorted(premises, key=lambda x: F.loc(x))):
        chk.assumed(rule, F.name, f'index-from-average-in-range#{i}', F.where(e),
                    f'`{F.s(e)[:70]}`: rint() of the floating average lies in [0,{n}): the average starts at {n}//2 and each update moves it '
                    'towards an index of the array by at most the distance to that index (float arithmetic, not decided here)')
    return len(subs)

def r05_12(chk, P):
    chk.rule('R05.12', 'the reader takes no legal field value for the end of the packet: in every library function that calls '
             'oggpack_read / oggpack_look, a field of up to 31 bits is tested against -1 / for sign only at a width that holds every '
             'value the writer can put there (common.eop_alias).  A value the encoder writes and the decoder refuses breaks the '
             'round trip for exactly the streams that contain it')
    fs = [F for F in P.functions() if F.entry is not None and (list(F.calls('oggpack_read')) or list(F.calls('oggpack_look')))]
    n = common.eop_alias(chk, P, 'R05.12', fs)
    common.eop_alias_selftest(chk, 'R05.12')
    chk.require(len(fs) >= 12, 'R05.12: fewer than 12 functions call the bit reader (17 on the pinned tree)')
    chk.ob('R05.12', 'library', 'bit-reader-callers-scanned', True, fs[0].where(),
           f'{len(fs)} functions call the bit reader; {n} sentinel tests on read-derived values examined')
    return n


def r05_13(chk, P):
    chk.rule('R05.13', 'the residue back ends that skip unused channels agree on how many vectors follow: wherever a function of res0.c '
             'compacts its vector array in place (`in[used++]=in[i]` over i < ch) and hands the array on, the count handed on with it '
             'is the compaction counter and not the original channel count -- in the writer (res1_forward, res1_class) and in the '
             'readers (res0_inverse, res1_inverse) alike.  The partition walk interleaves the classification words of exactly that '
             'many vectors: a reader that walks `ch` vectors where the writer wrote `used` runs out of step in every packet in '
             'which some, but not all, channels of the submap are silent')
    n = 0
    done13 = set()
    helpers = {}
    fl = [F for F in P.functions() if F.file.endswith('lib/res0.c') and F.entry is not None]
    # functions that compact in place come first, so that a compacting helper is known when its callers are examined
    fl.sort(key=lambda F: 0 if F.static else 1)
    for F in fl + fl:
        if F.name in done13:
            continue
        comp = []
        for e in F.nodes('assign'):
            nd = F.ex[e]
            l = F.ex[F.strip_casts(nd['c'][0])]
            if nd['op'] != '=' or l['k'] != 'sub':
                continue
            base = F.ex[F.strip_casts(l['c'][0])]
            ix = F.ex[F.strip_casts(l['c'][1])]
            if base['k'] == 'ref' and base['decl'].get('kind') == 'param' and ix['k'] == 'un' and ix['op'] in ('post++', 'pre++'):
                u = F.ex[F.strip_casts(ix['c'][0])]
                r = F.ex[F.strip_casts(nd['c'][1])]
                if u['k'] == 'ref' and u['decl'].get('kind') == 'var' and r['k'] == 'sub' and \
                        F.ex[F.strip_casts(r['c'][0])].get('decl', {}).get('id') == base['decl']['id']:
                    comp.append((e, base['decl']['id'], u['decl']['id']))
        bound = None
        if comp:
            e0, arr, u = comp[0]
            # the bound of the compaction loop
            for c, pol in common.controlling_conditions(F, e0):
                cn = F.ex[F.strip_casts(c)]
                if cn['k'] == 'bin' and cn['op'] == '<' and pol:
                    b = F.ex[F.strip_casts(cn['c'][1])]
                    if b['k'] == 'ref' and b['decl'].get('kind') == 'param':
                        bound = b['decl']['id']
            # a helper that only compacts and answers the count: remembered for its callers
            rets = [F.ex[F.strip_casts(F.ex[r]['c'][0])] for r in F.nodes('ret') if F.ex[r].get('c')]
            if F.static and rets and all(r_['k'] == 'ref' and r_['decl'].get('id') == u for r_ in rets):
                pi = {p_['id']: i_ for i_, p_ in enumerate(F.params)}
                if arr in pi and bound in pi:
                    helpers[F.name] = (pi[arr], pi[bound])
                    continue
        else:
            # `used = gather(in, .., ch)` through such a helper
            found = None
            for e in sorted(F.pos):
                nd = F.ex[e]
                tgt = src = None
                if nd['k'] == 'decl':
                    for v in nd['vars']:
                        if 'id' in v and v.get('init'):
                            tgt, src = v['id'], F.strip_casts(v['init'])
                            cn_ = F.ex[src]
                            if cn_['k'] == 'call' and cn_['callee'].get('d') in helpers:
                                found = (tgt, src)
                elif nd['k'] == 'assign' and nd['op'] == '=':
                    l = F.ex[F.strip_casts(nd['c'][0])]
                    src = F.strip_casts(nd['c'][1])
                    if l['k'] == 'ref' and l['decl'].get('kind') == 'var' and F.ex[src]['k'] == 'call' and F.ex[src]['callee'].get('d') in helpers:
                        found = (l['decl']['id'], src)
            if found is None:
                continue
            u, hc = found
            ai, bi = helpers[F.ex[hc]['callee']['d']]
            args = F.ex[hc].get('c', [])
            an = F.ex[F.strip_casts(args[ai])] if ai < len(args) else None
            bn = F.ex[F.strip_casts(args[bi])] if bi < len(args) else None
            if an is None or an['k'] != 'ref':
                continue
            arr = an['decl']['id']
            bound = bn['decl']['id'] if bn is not None and bn['k'] == 'ref' else None
            comp = [(hc, arr, u)]
        done13.add(F.name)
        for c in F.calls():
            if c == comp[0][0]:
                continue
            args = F.ex[c].get('c', [])
            ids = [F.ex[F.strip_casts(a)].get('decl', {}).get('id') if F.ex[F.strip_casts(a)]['k'] == 'ref' else None for a in args]
            if arr not in ids:
                continue
            ok = u in ids and (bound is None or bound not in ids)
            n += 1
            chk.ob('R05.13', F.name, f'compacted-count-handed-on:{common.call_name(F, c)}', ok, F.where(c),
                   f'`{F.s(c)[:70]}`: the compacted array travels with the compaction counter' if ok else
                   f'`{F.s(c)[:70]}`: the array was compacted to the channels in use but the count handed on is the original channel '
                   'count: the callee walks vectors that are not there')
    return n


def run(chk, P):
    r05_8(chk, P)
    chk.floor('R05.8', 2)
    npairs, nfields = r05_1(chk, P)
    chk.floor('R05.1', 40)
    r05_3(chk, P)
    chk.floor('R05.3', 6)
    r05_4(chk, P)
    r05_5(chk, P)
    chk.floor('R05.5', 6)
    r05_6(chk, P)
    chk.floor('R05.6', 2)
    r05_11(chk, P)
    chk.floor('R05.11', 6)
    r05_7(chk, P)
    chk.floor('R05.7', 1)
    r05_9(chk, P)
    chk.floor('R05.9', 2)
    r05_10(chk, P)
    chk.floor('R05.10', 1)
    r05_13(chk, P)
    chk.floor('R05.13', 4)
    r05_12(chk, P)
    chk.floor('R05.12', 8)
    chk.notes.append(f'R05.1: {npairs} writer/reader pairs ({[f"{a}<->{b}" for a, b in layout.PAIRS + layout.slot_pairs(P)]}), '
                     f'{nfields} aligned fields role-checked')
    chk.trusted += ['clang 14 front end', 'libogg: oggpack_write(b,v,n) appends the low n bits of v; oggpack_read(b,n) returns them',
                    'normalisations N2 (if(n){loop n}), N3 (degenerate else), N4 (constant count), N6 (field split under '
                    'ilog guard), N8 (loop + trailing copy) are value-preserving']
    return ('Layout skeletons (ordered trees of bit-field accesses with widths, fields and affine offsets) are extracted from '
            'the statement trees of every packer and unpacker with helpers inlined, and compared as sets of width sequences '
            'over all branch outcomes plus field-by-field role agreement. Decides that writer and reader implement the same '
            'bit layout for all three headers, codebooks, floor 1, residues, mappings, modes and the audio packet prologue, '
            'and that packet producers fill every packet field. Does not decide that packets are consumed to the last byte '
            'nor that managed-mode packets never run out of bits.')
