"""Confirmed tables for C02 (DESIGN 3.4): required ranges of set-up fields (what the consumers need), assumptions of R02.2.
Every line names symbols (records, fields, functions), never positions, and carries its reason."""

B31 = 2 ** 31 - 1

# (record, field, is_element) -> (lo, hi, strict symbolic upper bound or None, consumer-derived reason)
REQUIRED = {
    # identification header
    ('vorbis_info', 'channels', False): (1, 255, None, 'indexes chmuxlist[256]/nonzero[]; sizes alloca(channels*ptr) in mapping0_inverse; divisor in vorbisfile'),
    ('vorbis_info', 'rate', False): (1, 2 ** 32 - 1, None, 'divisor of the time computations; floor0 bark map scale'),
    ('codec_setup_info', 'blocksizes', True): (64, 8192, None, 'ilog(bs)-7 indexes vwin[8]; bs>>hs sizes mdct/pcm buffers; spec range 64..8192'),
    # set-up header skeleton
    ('codec_setup_info', 'books', False): (1, 256, None, 'extent of book_param[256]; calloc(books) of fullbooks'),
    ('codec_setup_info', 'floors', False): (1, 64, None, 'extent of floor_type/floor_param[64]'),
    ('codec_setup_info', 'residues', False): (1, 64, None, 'extent of residue_type/residue_param[64]'),
    ('codec_setup_info', 'maps', False): (1, 64, None, 'extent of map_type/map_param[64]'),
    ('codec_setup_info', 'modes', False): (1, 64, None, 'extent of mode_param[64]; ilog(modes-1) is the mode field width'),
    ('codec_setup_info', 'floor_type', True): (0, 1, None, 'indexes _floor_P[VI_FLOORB]'),
    ('codec_setup_info', 'residue_type', True): (0, 2, None, 'indexes _residue_P[VI_RESB]'),
    ('codec_setup_info', 'map_type', True): (0, 0, None, 'indexes _mapping_P[VI_MAPB]'),
    ('vorbis_info_mode', 'blockflag', False): (0, 1, None, 'vb->W indexes blocksizes[2], transform[2], look->n[2]'),
    ('vorbis_info_mode', 'mapping', False): (0, 63, 'codec_setup_info.maps', 'indexes map_type/map_param[64] below maps'),
    ('vorbis_info_mode', 'windowtype', False): (0, 0, None, 'only window type 0 is defined'),
    ('vorbis_info_mode', 'transformtype', False): (0, 0, None, 'only transform type 0 is defined'),
    # codebooks
    ('static_codebook', 'dim', False): (0, 65535, None, '16-bit field; dim>=1 is required where a book is used for vectors (R02.3 guards)'),
    ('static_codebook', 'entries', False): (0, 2 ** 24 - 1, None, '24-bit field; sizes lengthlist and the decode tables'),
    ('static_codebook', 'lengthlist', True): (0, 32, None, 'indexes marker[33] in _make_words'),
    ('static_codebook', 'maptype', False): (0, 2, None, 'switch in _book_unquantize; >2 rejected'),
    ('static_codebook', 'q_quant', False): (0, 16, None, 'read width of the quant values (<=32 required by oggpack_read)'),
    ('static_codebook', 'q_sequencep', False): (0, 1, None, 'flag'),
    # floor 0
    ('vorbis_info_floor0', 'order', False): (1, 255, None, 'sizes the LSP vector (alloca (order+...)); loop bound'),
    ('vorbis_info_floor0', 'rate', False): (1, 65535, None, 'divisor of the bark map scale'),
    ('vorbis_info_floor0', 'barkmap', False): (1, 65535, None, 'sizes the bark map; divisor'),
    ('vorbis_info_floor0', 'ampbits', False): (0, 63, None, 'read width / shift count'),
    ('vorbis_info_floor0', 'ampdB', False): (0, 255, None, '8-bit field'),
    ('vorbis_info_floor0', 'numbooks', False): (1, 16, None, 'extent of books[16]'),
    ('vorbis_info_floor0', 'books', True): (0, 255, 'codec_setup_info.books', 'offsets ci->fullbooks (books entries)'),
    # floor 1
    ('vorbis_info_floor1', 'partitions', False): (0, 31, None, 'extent of partitionclass[31]'),
    ('vorbis_info_floor1', 'partitionclass', True): (0, 15, None, 'indexes class_dim/class_subs/class_book/class_subbook[16]'),
    ('vorbis_info_floor1', 'class_dim', True): (0, 8, None, 'post count per partition; the sum is bounded by VIF_POSIT'),
    ('vorbis_info_floor1', 'class_subs', True): (0, 3, None, '1<<subs <= 8 = extent of class_subbook[][8]'),
    ('vorbis_info_floor1', 'class_book', True): (0, 255, 'codec_setup_info.books', 'offsets ci->fullbooks'),
    ('vorbis_info_floor1', 'class_subbook', True): (-1, 254, 'codec_setup_info.books', 'offsets ci->fullbooks; -1 = unused'),
    ('vorbis_info_floor1', 'mult', False): (1, 4, None, 'quant_q table has 4 entries (mult-1 indexes it)'),
    ('vorbis_info_floor1', 'postlist', True): (0, 32768, None, 'x positions below 1<<rangebits (rangebits<=15)'),
    # residue
    ('vorbis_info_residue0', 'begin', False): (0, 2 ** 24 - 1, None, '24-bit field'),
    ('vorbis_info_residue0', 'end', False): (0, 2 ** 24 - 1, None, '24-bit field; clipped to pcmend/2 before use (R02.3)'),
    ('vorbis_info_residue0', 'grouping', False): (1, 2 ** 24, None, 'divisor (samples per partition)'),
    ('vorbis_info_residue0', 'partitions', False): (1, 64, None, 'extent of secondstages[64]; divisor in res0_look'),
    ('vorbis_info_residue0', 'partvals', False): (1, 2 ** 24 - 1, None, 'size of decodemap; partitions^dim <= entries'),
    ('vorbis_info_residue0', 'groupbook', False): (0, 255, 'codec_setup_info.books', 'offsets ci->fullbooks'),
    ('vorbis_info_residue0', 'secondstages', True): (0, 255, None, '8 cascade bits: at most 8 stage books per partition'),
    ('vorbis_info_residue0', 'booklist', True): (0, 255, None, 'offsets ci->fullbooks (below books: R02.3 element check loop)'),
    # mapping
    ('vorbis_info_mapping0', 'submaps', False): (1, 16, None, 'extent of floorsubmap/residuesubmap[16]'),
    ('vorbis_info_mapping0', 'chmuxlist', True): (0, 15, 'vorbis_info_mapping0.submaps', 'indexes floorsubmap/residuesubmap below submaps'),
    ('vorbis_info_mapping0', 'floorsubmap', True): (0, 63, 'codec_setup_info.floors', 'indexes floor_type/floor_param, b->flr'),
    ('vorbis_info_mapping0', 'residuesubmap', True): (0, 63, 'codec_setup_info.residues', 'indexes residue_type/residue_param, b->residue'),
    ('vorbis_info_mapping0', 'coupling_steps', False): (0, 256, None, 'extent of coupling_mag/coupling_ang[256]'),
    ('vorbis_info_mapping0', 'coupling_mag', True): (0, 255, 'vorbis_info.channels', 'channel index into the pcm/nonzero vectors'),
    ('vorbis_info_mapping0', 'coupling_ang', True): (0, 255, 'vorbis_info.channels', 'channel index into the pcm/nonzero vectors'),
    # comment header
    ('vorbis_comment', 'comments', False): (0, B31, None, 'array length; bounded by the bytes left in the packet (R02.3)'),
}

UNPACKER_OF = {
    'vorbis_info': '_vorbis_unpack_info', 'codec_setup_info': '_vorbis_unpack_books', 'vorbis_info_mode': '_vorbis_unpack_books',
    'static_codebook': 'vorbis_staticbook_unpack', 'vorbis_info_floor0': 'floor0_unpack', 'vorbis_info_floor1': 'floor1_unpack',
    'vorbis_info_residue0': 'res0_unpack', 'vorbis_info_mapping0': 'mapping0_unpack', 'vorbis_comment': '_vorbis_unpack_comment',
}
WHERE = {
    'vorbis_info': 'lib/info.c', 'codec_setup_info': 'lib/info.c', 'vorbis_info_mode': 'lib/info.c', 'static_codebook': 'lib/codebook.c',
    'vorbis_info_floor0': 'lib/floor0.c', 'vorbis_info_floor1': 'lib/floor1.c', 'vorbis_info_residue0': 'lib/res0.c',
    'vorbis_info_mapping0': 'lib/mapping0.c', 'vorbis_comment': 'lib/info.c',
}
# records whose fields nobody but the unpackers / clear functions may store to on the decode side
IMMUTABLE_AFTER_UNPACK = {'codec_setup_info', 'static_codebook', 'vorbis_info_floor0', 'vorbis_info_floor1',
                          'vorbis_info_residue0', 'vorbis_info_mapping0', 'vorbis_info_mode', 'vorbis_info'}
WRITABLE_LATER = {
    ('codec_setup_info', 'halfrate_flag'),      # vorbis_synthesis_halfrate (its own guard is R02.3/halfrate, C20)
    ('codec_setup_info', 'fullbooks'),          # _vds_shared_init builds the decode books
    ('codec_setup_info', 'book_param'),         # ... and hands the static books over (R13.5)
    ('vorbis_info', 'codec_setup'),             # vorbis_info_init
}

# R02.2 sites the interval/symbolic domain cannot prove: (function, construct) -> reason it is safe.
# Filled from the run on the pinned tree; each was confirmed by reading.  A reason that leans on a guard names the R02.3
# obligation that checks the guard on every run.
_PPW = ('partitions_per_word is look->phrasebook->dim, the dimension of book #info->groupbook copied unchanged by '
        'vorbis_book_init_decode; res0_unpack rejects a group book with dim<1 (R02.3 res0_unpack:groupbook-dim>=1)')
_DIGIT = ('partword[..] points into look->decodemap[temp], whose entries are the base-`parts` digits of temp built in res0_look '
          '(deco=val/mult with val < mult*parts), so each is < parts = info->partitions <= 64 (R02.1); temp < partvals is '
          'R02.3 decodemap-index-below-partvals')
_QSORT = ('forward_index[i] = sortpointer[i]-info->postlist after qsort of the posts+... pointers into postlist: qsort permutes, '
          'so every value is an index in [0,posts) with posts <= 65 (state invariant vorbis_look_floor1.posts)')
_ADX = ('adx = x1-x0 over consecutive posts in sorted order; floor1_unpack rejects duplicate post positions '
        '(R02.3 floor1_unpack:unique-posts), so adx >= 1')
_STR = 'caller-supplied C strings (API arguments, not stream data): the sum of two object sizes cannot exceed the address space'
STRLEN_SIZES = _STR
ASSUME = {
    ('_01inverse', 'div:<<$>.phrasebook.dim>'): _PPW,
    ('res2_inverse', 'div:<<$>.phrasebook.dim>'): _PPW,
    ('_01inverse', 'sub:.secondstages'): _DIGIT,
    ('res2_inverse', 'sub:.secondstages'): _DIGIT,
    ('_book_maptype1_quantvals', 'div:$'):
        'vals is clamped to >= 1 before the search and is decremented only when vals^dim > entries >= 1, which is false for vals == 1',
    ('_book_maptype1_quantvals', 'div:($+1)'): 'vals >= 1 (see the other divisor), so vals+1 >= 2',
    ('_book_unquantize', 'div:$'):
        'indexdiv is 1 multiplied by quantvals once per dimension; the k-loop runs only for dim >= 1, where quantvals = '
        '_book_maptype1_quantvals(b) >= 1, and quantvals^dim <= entries < 2^24 so the int product does not wrap',
    ('_book_unquantize', 'div:<_book_maptype1_quantvals($)>'):
        'inside the k<dim loop, reached only with entries >= 1 and dim >= 1, where _book_maptype1_quantvals returns >= 1',
    ('_vorbis_block_alloc', 'alloc:malloc(.localalloc)'):
        'block-local arena: localalloc is the largest single request of this packet; every request is an R02.2 calling context',
    ('_vorbis_block_ripcord', 'alloc:realloc(.localstore,(.totaluse+.localalloc))'):
        'block-local arena: totaluse is the sum of the requests of one packet decode, each bounded by its calling context',
    ('_vorbis_window_get', 'sub:vwin'):
        'n = b->window[W]-hs with window[W] = ilog(blocksize)-7 in [0,7]; hs is 1 only if vorbis_synthesis_halfrate accepted it, '
        'which it refuses for blocksizes[0] <= 64 (R02.3 halfrate-refused-for-64-sample-blocks), so window[W] >= 1 then',
    ('floor1_inverse2', 'sub:.postlist'): _QSORT,
    ('floor1_look', 'sub:.reverse_index'): _QSORT,
    ('floor1_look', 'sub:.postlist'): _QSORT,
    ('render_line', 'div:<($-$)>'): _ADX,
    ('render_point', 'div:<($-$)>'): _ADX,
    ('render_line', 'sub:FLOOR1_fromdB_LOOKUP'):
        'Bresenham lemma: with x1 > x0 the rendered y stays in the hull of y0 and y1, both clamped to [0,255] by floor1_inverse2 '
        '(R02.3 render_line-y0/y1-clamped)',
    ('vorbis_book_decodevs_add', 'div:.dim'):
        'reached only through _01inverse with a residue stage book; res0_unpack rejects stage books with dim < 1 '
        '(R02.3 res0_unpack:stage-books:dim>=1)',
    ('vorbis_book_decodevs_add', 'alloca:__builtin_alloca((8*<($/.dim)>))'):
        'step = n/dim <= n = samples_per_partition; _01inverse calls the stage decoder only when partvals = (end-begin)/'
        'samples_per_partition >= 1 with end clipped to pcmend/2 <= 4096 (R02.3 residue-end-clipped), so step <= 4096: 32 KiB',
}
