"""C12 — I/O failures surface as error codes and leave the handle usable (partial, DESIGN 4/C12).

Decided: R12.1 the result of every I/O-capable call is observed; R12.2 a path on which such a call failed never ends
in a success/data return (except the documented end-of-file mappings); R12.3 the close callback has one guarded call
site and no library function closes a caller's FILE; R12.4 failure returns leave a consistent typestate (K5, with C03);
R12.5 the byte count committed to the sync layer is the positive count the read callback returned."""
import absint
import cfg
import os
import k2
import k3
import k9
from absint import V
from facts import AnalysisBroken
from rules import common
from rules.c08 import _ordinal, VF

IO_CB = {'cb:read_func', 'cb:seek_func', 'cb:tell_func'}
OV_EREAD = -128
READERS = {'ov_read', 'ov_read_filter', 'ov_read_float'}


def io_sets(P):
    E = set()
    for k in P.fn:
        if IO_CB & set(P.reachable([k])):
            E.add(k)
    C = k9.error_carrying(P, E)
    return E, C


def r12_1(chk, P, E, C):
    chk.rule('R12.1', 'the result of every call that can reach the read/seek/tell callbacks and whose return value can carry a '
             'failure (computed sets) is observed: returned, tested by a branch, or stored and tested on every path before '
             'being overwritten or the function returns; a discarded result is accepted only where every path from the call '
             'returns a negative constant (the error is already being reported)')
    n = 0
    for F in P.functions():
        if not F.file.endswith('vorbisfile.c'):
            continue
        for c in sorted(F.calls(), key=lambda x: F.ex[x]['loc']):
            tg = P.call_targets(F, c)
            if not any(t in C or t in IO_CB for t in tg):
                continue
            n += 1
            st, d = k9.observe(P, F, c)
            callee = F.ex[c]['callee'].get('d') or '.'.join(F.ex[c]['callee'].get('slot', ['?']))
            # stable construct key: callee + ordinal of this call among calls to the same callee in the function
            same = sorted([x for x in F.calls() if (F.ex[x]['callee'].get('d') or '.'.join(F.ex[x]['callee'].get('slot', ['?']))) == callee],
                          key=lambda x: F.ex[x]['loc'])
            cons = f'{callee}#{same.index(c)}'
            ok = st in ('returned', 'tested', 'stored-tested')
            if not ok and st == 'discarded' and k9.only_error_returns_follow(F, c):
                ok = True
                d = 'discarded on a path that only returns negative constants (roll-back while reporting an error)'
            chk.ob('R12.1', P.key(F), cons, ok, F.where(c), f'{st}: {d}' if d else st)
    return n


class IOFlags(k2.Flags):
    def __init__(self, P, C, setters):
        super().__init__(setters)
        self.P, self.C = P, C

    def post_call(self, A, env, e, r):
        tg = self.P.call_targets(A.F, e)
        if any(t in self.C for t in tg):
            return r.copy(tag='io')
        if any(t in IO_CB for t in tg):
            return r.copy(tag='cb')
        return None

    def on_edge(self, A, env, cond, truth):
        # "the most recent branch decision established that an I/O call failed"
        env['$flags'] = env.get('$flags', frozenset()) - {'ioerr'}
        bad = False
        vals = [v for v in env.values() if isinstance(v, V)]
        vals += [v for v in (env.get('$tmp') or {}).values() if isinstance(v, V)]
        for v in vals:
            if v.tag == 'io' and v.hi < 0 and v.lo <= OV_EREAD <= v.hi and OV_EREAD not in v.ne:
                bad = True
            elif v.tag == 'cb' and v.hi < 0:
                bad = True
        if bad:
            env['$flags'] = env.get('$flags', frozenset()) | {'ioerr'}


def r12_2(chk, P, E, C):
    chk.rule('R12.2', 'where the failure of an I/O-capable call is tested (its result refined by the branch to a negative range that '
             'includes OV_EREAD, or a callback result refined to -1) and the failure edge runs to a return without another '
             'branch, the returned value is negative; exceptions: the read functions returning 0 (end of file) and seeks that '
             'map the failure to end-of-stream by storing the total length into the position')
    def eof_map(A, env, e):
        nd = A.ex[e]
        if nd['k'] == 'assign' and nd['op'] == '=':
            l = A.ex[A.F.strip_casts(nd['c'][0])]
            if l['k'] == 'member' and l['field'] == 'pcm_offset':
                return any(A.ex[x]['k'] == 'call' and A.ex[x]['callee'].get('d') == 'ov_pcm_total' for x in A.F.walk(nd['c'][1]))
        return False
    n = 0
    for F in P.functions():
        if not F.file.endswith('vorbisfile.c') or P.key(F) not in E:
            continue
        if F.d['ret_t'] == 'void':
            continue
        h = IOFlags(P, C, [('eof_mapped', eof_map, True)])
        import absint
        A = absint.Analyzer(P, F, hooks=h, partition=k2.partition)
        A.run()
        worst = None
        cnt = 0
        for (e, env, v) in A.ret_states:
            fl = env.get('$flags', frozenset())
            if 'ioerr' not in fl:
                continue
            cnt += 1
            if v is None or v.hi < 0:
                continue
            if F.name in READERS and v.const() == 0:
                continue
            if 'eof_mapped' in fl:
                continue
            worst = (e, v, fl)
        n += 1
        if worst:
            e, v, fl = worst
            chk.ob('R12.2', P.key(F), 'io-failure->non-negative-return', False, F.where(e),
                   f'`{F.s(e)[:60]}` can return {v} on a path where an I/O call failed')
        else:
            chk.ob('R12.2', P.key(F), 'io-failure->non-negative-return', True, F.where(),
                   f'{cnt} return states on failure paths, all negative or documented end-of-file')
    return n


def r12_3(chk, P):
    chk.rule('R12.3', 'the close callback is called at exactly one site, in ov_clear, under the test that vf->datasource is '
             'non-null; failed opens store NULL into vf->datasource before they call ov_clear; fclose is called only on a '
             'FILE the same function opened, and only on its failure path')
    sites = []
    for F in P.functions():
        for c in F.calls():
            if 'cb:close_func' in P.call_targets(F, c):
                sites.append((F, c))
    chk.ob('R12.3', 'vorbisfile.c', 'close-callback-sites', len(sites) == 1 and sites[0][0].name == 'ov_clear',
           sites[0][0].where(sites[0][1]) if sites else 'lib/vorbisfile.c',
           f'close_func called in: {[f"{F.name}@{F.loc(c)}" for F, c in sites]}')
    for F, c in sites:
        g = common.guarded_by_true_edge(F, c, lambda x: common.cond_mentions_field(F, x, VF, 'datasource'))
        chk.ob('R12.3', P.key(F), 'close-guarded-by-datasource', g, F.where(c), 'call is under a datasource non-null test' if g else
               'close callback can run with a null/detached data source')
    # failed opens detach the source before clearing
    for fn in ('_ov_open1', '_ov_open2', 'ov_test_open', 'ov_open_callbacks', 'ov_open', 'ov_test_callbacks', 'ov_test', 'ov_fopen'):
        F = P.get(fn)
        if F is None:
            continue
        calls = list(F.calls('ov_clear'))
        if not calls:
            continue
        A, h = k2.analyse(P, F, [('detached', k2.stores_field(VF, 'datasource', ops=('=',), value=0), True),
                                 ('detached', k2.stores_field(VF, 'datasource', ops=('=',), value=lambda v: v.const() != 0), False)],
                          watch=lambda A, e: A.ex[e]['k'] == 'call' and A.ex[e]['callee'].get('d') == 'ov_clear')
        for c in calls:
            sets = h.at.get(c, set())
            ok = bool(sets) and all('detached' in s for s in sets)
            chk.ob('R12.3', fn, f'ov_clear#{calls.index(c)}:source-detached-first', ok, F.where(c),
                   'vf->datasource=NULL precedes ov_clear on every path' if ok else
                   'ov_clear can run with the caller\'s data source still attached: the close callback would be invoked behind '
                   'the caller\'s back')
    # fclose
    for F in P.functions():
        for c in F.calls('fclose'):
            opened = list(F.calls('fopen'))
            ok = bool(opened)
            if ok:
                # only on failure: controlled by a condition on the result of the open call chain (non-zero ret)
                conds = common.controlling_conditions(F, c)
                ok = any(pol for _, pol in conds)
            chk.ob('R12.3', P.key(F), 'fclose-own-file-on-failure', ok, F.where(c),
                   'fclose on a FILE opened by this function, under a failure test' if ok else 'fclose on a handle this function did not open')


def r12_5(chk, P):
    chk.rule('R12.5', 'in _get_data the count passed to ogg_sync_wrote is the value the read callback returned (same variable, '
             'not reassigned in between) and the call is made only when that value is > 0; the buffer handed to the callback '
             'is the one obtained from ogg_sync_buffer for the same request size')
    F = P.need('_get_data')
    wrote = list(F.calls('ogg_sync_wrote'))
    chk.require(wrote, '_get_data no longer calls ogg_sync_wrote')
    reads = [c for c in F.calls() if 'cb:read_func' in P.call_targets(F, c)]
    chk.require(reads, '_get_data no longer calls the read callback')
    import absint
    A, h = k2.analyse(P, F, [], watch=lambda A, e: A.ex[e]['k'] == 'call' and A.ex[e]['callee'].get('d') == 'ogg_sync_wrote')

    class H(k2.Flags):
        def post_call(self, A, env, e, r):
            if 'cb:read_func' in P.call_targets(A.F, e):
                return r.copy(tag='readcount')
            return None
    hh = H([], watch=lambda A, e: A.ex[e]['k'] == 'call' and A.ex[e]['callee'].get('d') == 'ogg_sync_wrote')
    A = absint.Analyzer(P, F, hooks=hh, partition=k2.partition).run()
    for w in wrote:
        oks = []
        for fl, env in hh.at_env.get(w, []):
            v = A.peek(env, F.ex[w]['c'][1])
            oks.append(v.tag == 'readcount' and v.lo >= 1)
        ok = bool(oks) and all(oks)
        chk.ob('R12.5', '_get_data', f'ogg_sync_wrote#{wrote.index(w)}', ok, F.where(w),
               'committed count is the callback\'s return value, proven > 0 here' if ok else
               f'the count given to ogg_sync_wrote is not (only) the positive value returned by the read callback')
    # buffer/request agreement
    for r in reads:
        args = F.ex[r]['c']
        bufs = list(F.calls('ogg_sync_buffer'))
        ok = False
        if bufs and len(args) >= 3:
            req = common.const_val(F, F.ex[bufs[0]]['c'][1])
            size = common.const_val(F, args[1])
            cnt = common.const_val(F, args[2])
            ok = req is not None and size is not None and cnt is not None and size * cnt <= req
        chk.ob('R12.5', '_get_data', 'read-request<=buffer', ok, F.where(r), 'callback is asked for no more than the sync buffer holds')


def r12_6(chk, P):
    chk.rule('R12.6', 'in _seek_helper the cached stream offset (vf->offset) and the sync state (ogg_sync_reset) change only on the '
             'path where the seek callback succeeded: every negative return is reached with both untouched, and every store to '
             'vf->offset is preceded by the callback call whose failure edge does not reach it')
    F = P.need('_seek_helper')
    setters = [('moved_bookkeeping', k2.any_of(k2.stores_field(VF, 'offset', ops=None), k2.is_call('ogg_sync_reset')), True)]

    class H(k2.Flags):
        def post_call(self, A, env, e, r):
            if 'cb:seek_func' in P.call_targets(A.F, e):
                env['$flags'] = env.get('$flags', frozenset()) | {'seek_called'}
            return None
    import absint
    h = H(setters, watch=lambda A, e: setters[0][1](A, {}, e))
    A = absint.Analyzer(P, F, hooks=h, partition=k2.partition).run()
    for (e, env, v) in A.ret_states:
        fl = env.get('$flags', frozenset())
        if v is None or v.hi >= 0:
            continue
        chk.ob('R12.6', F.name, f'error-return@{_ordinal(F, e)}', 'moved_bookkeeping' not in fl, F.where(e),
               f'returns {v} with path events {sorted(fl)}')
    for e, sets in h.at.items():
        ok = all('seek_called' in s for s in sets)
        chk.ob('R12.6', F.name, f'bookkeeping-after-callback:{F.s(e)[:30]}', ok, F.where(e),
               'reached only after the seek callback was called (and did not fail)' if ok else
               'the offset bookkeeping can change before the seek callback has been called')


def r12_7(chk, P):
    chk.rule('R12.7', 'vorbisfile keeps the invariant "position of the data source = vf->offset + bytes buffered in vf->oy": the '
             'buffered bytes of the handle\'s sync state are dropped (ogg_sync_reset/ogg_sync_clear on vf->oy) only where the '
             'same path also re-defines vf->offset (a seek) or wipes the handle; no other function may discard buffered input '
             '(after an I/O error the bookkeeping must still describe the source)')
    n = 0
    for F in P.functions():
        if not F.file.endswith('vorbisfile.c'):
            continue
        sites = []
        for c in F.calls():
            d = F.ex[c]['callee'].get('d')
            if d not in ('ogg_sync_reset', 'ogg_sync_clear', 'ogg_sync_init'):
                continue
            a = F.ex[c].get('c', [None])[0]
            if a is None:
                continue
            an = F.ex[F.strip_casts(a)]
            if an['k'] == 'un' and an['op'] == '&':
                m = F.ex[F.strip_casts(an['c'][0])]
                if m['k'] == 'member' and m.get('record') == VF and m['field'] == 'oy':
                    sites.append((c, d))
        if not sites:
            continue
        A, h = k2.analyse(P, F, [('offset_defined', k2.any_of(k2.stores_field(VF, 'offset', ops=('=',)),
                                                              k2.is_call('memset')), True)])
        for i, (c, d) in enumerate(sorted(sites, key=lambda x: F.ex[x[0]]['loc'])):
            # the offset is (re)defined before the reset on every path, or after it before the function returns
            before = all('offset_defined' in fl for fl in (h.at.get(c) or [frozenset()])) if h.at.get(c) else None
            # flags at the call are recorded only for watched nodes: run a second pass with a watch
            n += 1
            sites[i] = (c, d)
        A2, h2 = k2.analyse(P, F, [('offset_defined', k2.any_of(k2.stores_field(VF, 'offset', ops=('=',)), k2.is_call('memset')), True)],
                            watch=lambda A_, e_: e_ in [s_[0] for s_ in sites])
        for i, (c, d) in enumerate(sorted(sites, key=lambda x: F.ex[x[0]]['loc'])):
            flags_at = h2.at.get(c, set())
            before = bool(flags_at) and all('offset_defined' in fl for fl in flags_at)
            after = False
            if not before:
                def settles(nn):
                    x = F.ex[nn]
                    if x['k'] == 'assign':
                        l = F.ex[F.strip_casts(x['c'][0])]
                        return l['k'] == 'member' and l.get('record') == VF and l['field'] == 'offset'
                    return x['k'] == 'call' and x['callee'].get('d') == 'memset'
                after = cfg.reaches_exit_avoiding(F, F.pos[c], settles) is None
            ok = before or after
            chk.ob('R12.7', P.key(F), f'{d}#{i}:offset-redefined-with-it', ok, F.where(c),
                   'vf->offset is re-defined on the same path (seek) or the handle is wiped' if ok else
                   f'{d}(&vf->oy) discards buffered input while vf->offset keeps its old value: the handle\'s idea of the source '
                   'position is off by the bytes dropped, and a later seek to that offset is skipped')
    return n


def _failing_returns(F):
    isptr = F.d.get('ret_t', '').endswith('*')
    out = []
    for r in cfg.returns(F):
        c = F.ex[r].get('c', [])
        if not c:
            continue
        v = F.ex[F.strip_casts(c[0])]
        if v['k'] == 'un' and v['op'] == '-' and F.ex[F.strip_casts(v['c'][0])]['k'] == 'int':
            out.append(r)
        elif v['k'] == 'int' and ((isptr and v['v'] == 0) or (not isptr and v['v'] != 0)):
            out.append(r)
    return out


def _gate_reset_by_callers(P, F, rec, fld, depth=0):
    """F is a file-local helper that can return failure with the gate field set: every caller resets the field (stores
    NULL into record.field) on the way from the call to any of its own failing returns, the edge on which the helper
    reported success excepted"""
    sites = [(G, cc) for G in P.functions() for cc in G.calls(F.name) if P.get(F.name, G) is F]
    if not F.static or not sites:
        return False, 'the function is not a file-local helper'
    for G, cc in sites:
        fails = set(_failing_returns(G))

        def resets(q, G=G):
            x = G.ex[q]
            if x['k'] == 'assign' and x['op'] == '=' and common.is_zero(G, x['c'][1]):
                l = G.ex[G.strip_casts(x['c'][0])]
                return l['k'] == 'member' and l.get('record') == rec and l.get('field') == fld
            return False

        def edge_ok(bb, si, G=G, cc=cc):
            t = G.blocks[bb].get('term')
            if t and t.get('cond') is not None and len(G.blocks[bb]['succs']) == 2:
                c = G.strip_casts(t['cond'])
                pol = True
                while G.ex[c]['k'] == 'un' and G.ex[c]['op'] == '!':
                    c = G.strip_casts(G.ex[c]['c'][0])
                    pol = not pol
                if c == cc:
                    # result non-zero: the edge taken when the condition is `pol`
                    return si == (0 if pol else 1)
            return True
        if cfg.search(G, G.pos[cc], lambda q: q in fails, resets, edge_ok) is not None:
            return False, f'{G.name} can return failure after the call without resetting the field'
    return True, f'reset by each of the {len(sites)} callers on the failure path'


def r12_8(chk, P):
    chk.rule('R12.8', 'a lazy-initialisation gate is not left set by a failed initialisation: where a function stores a fresh '
             'allocation into a pointer field under the test that the field is NULL and builds the object afterwards '
             '(`if(!ci->fullbooks){ ci->fullbooks=calloc(..); for(..) if(init(..)) goto abort; }`, or the early-return form '
             '`if(ci->fullbooks)return 0; ci->fullbooks=calloc(..); ...`), every path from the store to a failing return of '
             'the function that does not first complete the guarded region stores NULL into the field -- or the function is a '
             'file-local helper and each caller does so on its failure path: the next call must not find the gate set over a '
             'half-built object')
    n = 0
    for F in P.functions():
        if F.entry is None or not F.file.startswith(os.path.join(common.REPO, 'lib')):
            continue
        fails = set(_failing_returns(F))
        if not fails:
            continue
        dom = cfg.dominators(F)
        for b, blk in sorted(F.blocks.items()):
            t = blk.get('term')
            if not t or t.get('cond') is None or len(blk['succs']) != 2 or t.get('kind') in ('for', 'while', 'do'):
                continue
            c = F.strip_casts(t['cond'])
            pol = True
            nd = F.ex[c]
            while nd['k'] == 'un' and nd['op'] == '!':
                c = F.strip_casts(nd['c'][0])
                nd = F.ex[c]
                pol = not pol
            if nd['k'] == 'bin' and nd['op'] in ('==', '!=') and common.is_zero(F, nd['c'][1]):
                pol = pol if nd['op'] == '!=' else not pol
                c = F.strip_casts(nd['c'][0])
                nd = F.ex[c]
            if nd['k'] not in ('member', 'sub') or not str(nd.get('t', '')).rstrip().endswith('*'):
                continue
            root = nd
            while root['k'] == 'sub':
                root = F.ex[F.strip_casts(root['c'][0])]
            if root['k'] != 'member' or 'record' not in root:
                continue
            # the edge taken when the field is NULL, and the other one
            null_succ = blk['succs'][1] if pol else blk['succs'][0]
            set_succ = blk['succs'][0] if pol else blk['succs'][1]
            if null_succ is None or set_succ is None:
                continue
            gate_txt = F.s(c)
            for e in sorted(F.pos):
                x = F.ex[e]
                if not (x['k'] == 'assign' and x['op'] == '=' and F.s(F.strip_casts(x['c'][0])) == gate_txt):
                    continue
                r = F.ex[F.strip_casts(x['c'][1])]
                if not (r['k'] == 'call' and r['callee'].get('d') in ('malloc', 'calloc', 'realloc')):
                    continue
                eb = F.pos[e][0]
                # reached only with the field NULL: through the NULL edge, and not through the other one
                if not (null_succ in dom.get(eb, ()) and all(p_ == b for p_ in F.preds[null_succ])) and \
                        not (b in dom.get(eb, ()) and not _block_reaches(F, set_succ, eb)):
                    continue
                # where the guarded region, once completed, continues (form A); in form B the other edge leaves the function
                cont = set_succ if _block_reaches(F, eb, set_succ) else None

                def resets(q):
                    y = F.ex[q]
                    return y['k'] == 'assign' and y['op'] == '=' and F.s(F.strip_casts(y['c'][0])) == gate_txt and \
                        common.is_zero(F, y['c'][1])
                path = cfg.search(F, F.pos[e], lambda q: q in fails, resets,
                                  (lambda bb, si: F.blocks[bb]['succs'][si] != cont) if cont is not None else None)
                ok, how = path is None, 'every failing return that follows an unfinished initialisation is preceded by the reset'
                if not ok:
                    ok, how2 = _gate_reset_by_callers(P, F, root['record'], root['field'])
                    how = how2 if ok else (f'{gate_txt} keeps the fresh allocation on a path that leaves the initialisation '
                                           f'unfinished and returns failure ({how2}): the next call finds the gate set and skips '
                                           'the initialisation')
                n += 1
                chk.ob('R12.8', F.name, f'gate:{F.s(c, names=False)}#{n}', ok, F.where(e), how,
                       path=cfg.block_lines(F, path) if (path and not ok) else None)
    return n


def _block_reaches(F, a, b):
    seen, st = set(), [a]
    while st:
        x = st.pop()
        if x == b:
            return True
        if x in seen:
            continue
        seen.add(x)
        st += [s_ for s_ in F.blocks[x]['succs'] if s_ is not None]
    return False


def r12_10(chk, P):
    chk.rule('R12.10', 'a loop that keeps fetching packets ends when the fetch keeps failing: for every call of '
             '_fetch_and_process_packet inside a loop of vorbisfile.c, each negative code the call can return -- the exact '
             'outcome set of the K5 typestate summary for the handle states the enclosing function is entered with and the '
             'constant arguments of the call -- is a code the loop leaves on (a test of the result that exits the loop or '
             'returns: `r<0`, `r<=0`, `r==CODE`, `r<0 && r!=OV_HOLE`), or OV_HOLE (data was skipped: progress).  A persisting '
             'read error that comes back under a code the loop does not look for makes the call spin for ever.  Assumed: '
             'OV_EFAULT, the internal-logic-fault code, is not produced by I/O')
    import typestate
    import k5
    K = typestate.scan(P)[0]
    ent = {}
    for mk in K.memo:
        if isinstance(mk, tuple) and len(mk) == 3:
            for (gi, en) in mk[1]:
                ent.setdefault(mk[0], set()).add((gi, en))
    G = P.need('_fetch_and_process_packet')
    gk = P.key(G)
    OV_HOLE, OV_EFAULT = -3, -129
    n = 0
    for F in P.functions():
        if not F.file.endswith('vorbisfile.c'):
            continue
        loops = cfg.loops(F)
        if not loops:
            continue
        for c in sorted(F.calls(G.name), key=lambda x: F.ex[x].get('loc') or [0, 0]):
            inl = [h for h, body in loops.items() if F.pos[c][0] in body]
            if not inl:
                continue
            body = set()
            for h in inl:
                body |= loops[h]
            # the variable that receives the result (or the condition the call sits in)
            rv = None
            par = F.sparent.get(c)
            while par is not None and F.ex[par]['k'] == 'cast':
                par = F.sparent.get(par)
            pn = F.ex[par] if par is not None else None
            if pn is not None and pn['k'] == 'assign' and pn['op'] == '=':
                l = F.ex[F.strip_casts(pn['c'][0])]
                if l['k'] == 'ref':
                    rv = l['decl'].get('id')
            elif pn is not None and pn['k'] == 'decl':
                for v in pn['vars']:
                    if v.get('init') is not None and F.strip_casts(v['init']) == c:
                        rv = v['id']
            def stays(code):
                """with the fetch result equal to `code`: can control come back to the fetch without leaving the loop?
                conditions on the result alone are decided for the code, every other condition goes both ways"""
                start = F.pos[c][0]
                seen, st = set(), [(start, True)]
                while st:
                    x, first = st.pop()
                    if x == start and not first:
                        return True
                    if x is None or (x in seen and not first):
                        continue
                    seen.add(x)
                    if x not in body:
                        continue
                    blk = F.blocks[x]
                    # "end of stream" mapping: the position is set to the total length, which ends a loop that runs while the
                    # position is short of a target inside the stream (the seek's discard loop; its guard is R08.8's business)
                    if not first and any(F.ex[e_]['k'] == 'assign' and any(F.ex[q_]['k'] == 'call' and F.ex[q_]['callee'].get('d') == 'ov_pcm_total'
                                                                          for q_ in F.walk(F.ex[e_]['c'][1])) for e_ in blk['elems']):
                        continue
                    t = blk.get('term') or {}
                    cond = t.get('cond')
                    succs = list(blk['succs'])
                    if cond is not None and len(succs) == 2:
                        val = None
                        names = set()
                        for q in F.walk(cond):
                            qn = F.ex[q]
                            if qn['k'] == 'ref' and qn['decl'].get('kind') in ('var', 'param'):
                                names.add(qn['decl'].get('id'))
                            elif qn['k'] in ('member', 'call', 'sub'):
                                if not (qn['k'] == 'call' and q == c):
                                    names.add('other')
                        cn_ = F.ex[F.strip_casts(cond)]
                        if cn_['k'] == 'bin' and cn_['op'] in ('<', '<=', '>', '>=', '==', '!=') and F.strip_casts(cn_['c'][0]) == c \
                                and common.const_val(F, cn_['c'][1]) is not None:
                            import operator as _op
                            val = {'<': _op.lt, '<=': _op.le, '>': _op.gt, '>=': _op.ge, '==': _op.eq, '!=': _op.ne}[cn_['op']](
                                code, common.const_val(F, cn_['c'][1]))
                        elif names and names <= {rv} or (not names and any(q == c for q in F.walk(cond))):
                            try:
                                val = common.consteval(P, F, F.strip_casts(cond), {'$r': code},
                                                       lambda F_, e_: '$r' if (F_.ex[e_]['k'] == 'ref' and F_.ex[e_]['decl'].get('id') == rv) or e_ == c else F_.s(e_))
                            except common.NotConst:
                                val = None
                        if val is not None:
                            succs = [succs[0] if val else succs[1]]
                    for s_ in succs:
                        st.append((s_, False))
                return False
            consts = []
            for i, p_ in enumerate(G.params):
                if i < len(F.ex[c]['c']) and absint.int_type_range(p_['t']):
                    consts.append((i, common.const_val(F, F.ex[c]['c'][i])))
            consts = tuple(consts)
            codes = set()
            unknown = False
            fent = {e_ for e_ in ent.get(P.key(F), set())}
            states = sorted({en for (_gi, en) in fent if en[0] >= k5.OPENED}) or [(rs, rs == 4, rs == 4, False) for rs in (2, 3, 4)]
            for en in states:
                # the handle is at least STREAMSET/INITSET-consistent inside the loop; take every state the function is entered with
                sm = K.summary(gk, {0: en}, consts)
                if sm is None:
                    unknown = True
                    continue
                for (cls, lo, hi, ex) in sm:
                    if hi < 0:
                        if hi - lo > 64:
                            unknown = True
                        else:
                            codes |= set(range(lo, hi + 1))
                    elif lo < 0:
                        unknown = True
            bad = set()
            for code in sorted(codes):
                if code == OV_HOLE or code == OV_EFAULT:
                    continue
                if stays(code):
                    bad.add(code)
            if unknown and stays(-1) and stays(-128):
                bad.add('unknown')
            n += 1
            chk.ob('R12.10', F.name, f'fetch-loop-leaves-on-every-failure@{F.loc(c)}', not bad, F.where(c),
                   f'negative outcomes {sorted(codes)}: every one ends the loop except OV_HOLE (progress) and OV_EFAULT (assumed)' if not bad else
                   f'the fetch can return {sorted(bad, key=str)} here and the loop neither exits nor returns on it: a persisting failure '
                   'under that code makes the call spin for ever')
    if n:
        chk.assumed('R12.10', '_fetch_and_process_packet', 'OV_EFAULT-is-not-an-io-outcome', 'lib/vorbisfile.c',
                    'OV_EFAULT (-129) marks an internal logic fault (samples left undelivered before the next packet is decoded); the '
                    'loops call the fetch only after draining the decoder')
    return n



def r12_11(chk, P, rule='R12.11'):
    chk.rule(rule, 'a clean-up releases only what was set up: a local aggregate with a release function (vorbis_info, vorbis_comment, '
             'ogg_stream_state, oggpack_buffer, ...) is handed to that release function only on paths on which it has been '
             'initialised -- by its init function, by memset, or by a callee that initialises the object behind its pointer '
             'parameter (callee summaries by result class: "on every path" or "on every path to a zero return"; a call with a '
             'zero-only summary splits the state by its result, so `ret=f(&x); if(ret)...` is exact).  K2 path flags per '
             'object.  A failure exit taken before the callee reached its init call (an I/O fault on the first page read) leaves '
             'the caller\'s stack object as it was: releasing it then walks and frees wild pointers')
    import k6
    import absint
    import k2
    from absint import V, K
    RELEASE = k6.RELEASE
    ALLREL = {f: r for r, fs in RELEASE.items() for f in fs}
    INITS = {'vorbis_info_init': 'vorbis_info', 'vorbis_comment_init': 'vorbis_comment', 'ogg_stream_init': 'ogg_stream_state',
             'ogg_sync_init': 'ogg_sync_state', 'oggpack_writeinit': 'oggpack_buffer', 'oggpack_readinit': 'oggpack_buffer',
             'vorbis_block_init': 'vorbis_block', 'vorbis_synthesis_init': 'vorbis_dsp_state', 'vorbis_analysis_init': 'vorbis_dsp_state'}
    INIT_ARG = {'vorbis_block_init': 1}

    def addr_of_local(F, a):
        an = F.ex[F.strip_casts(a)]
        if an['k'] == 'un' and an['op'] == '&':
            t = F.ex[F.strip_casts(an['c'][0])]
            if t['k'] == 'ref' and t['decl'].get('kind') == 'var':
                return t['decl']['id']
        return None

    def param_ref(F, a):
        an = F.ex[F.strip_casts(a)]
        if an['k'] == 'ref' and an['decl'].get('kind') == 'param':
            return an['decl']['id']
        return None

    # callee summaries: (function key, param index) -> 'all' | 'zero' | None
    summ = {}

    def summary(G, k):
        key = (P.key(G), k)
        if key in summ:
            return summ[key]
        summ[key] = None
        if G.entry is None or k >= len(G.params):
            return None
        pid = G.params[k]['id']

        def inits(A, env, e):
            nd = A.ex[e]
            if nd['k'] != 'call':
                return False
            d = nd['callee'].get('d')
            if d in INITS or d == 'memset':
                i = INIT_ARG.get(d, 0)
                return i < len(nd['c']) and param_ref(A.F, nd['c'][i]) == pid
            return False
        try:
            A, h = k2.analyse(P, G, [('init', inits, True)])
        except Exception:
            return None
        rets = k2.ret_value_classes(A)
        if not rets:
            return None
        if all('init' in fl for (e, fl, v, env) in rets):
            summ[key] = 'all'
        elif all('init' in fl for (e, fl, v, env) in rets if v is None or (v.lo <= 0 <= v.hi and 0 not in (v.ne or ()))) and \
                any(v is not None and v.lo <= 0 <= v.hi and 0 not in (v.ne or ()) for (e, fl, v, env) in rets):
            summ[key] = 'zero'
        return summ[key]

    n = 0
    for F in P.functions():
        if F.entry is None:
            continue
        locs = {vid: k6.base_record(v.get('t', '')) for vid, v in F.vars.items()
                if '*' not in v.get('t', '') and '[' not in v.get('t', '') and k6.base_record(v.get('t', '')) in RELEASE}
        if not locs:
            continue
        rels = []
        for c in F.calls():
            d = F.ex[c]['callee'].get('d')
            if d in ALLREL and F.ex[c]['c']:
                vid = addr_of_local(F, F.ex[c]['c'][0])
                if vid in locs:
                    rels.append((c, vid))
        if not rels:
            continue
        tracked = {vid for _, vid in rels}

        class H(k2.Flags):
            def on_node(self, A, env, e, v):
                fl = env.get('$flags', frozenset())
                nd = A.ex[e]
                if A.final and any(e == c for c, _ in rels):
                    self.at.setdefault(e, set()).add(fl)
                if nd['k'] == 'call':
                    d = nd['callee'].get('d')
                    if d in INITS or d == 'memset':
                        i = INIT_ARG.get(d, 0)
                        vid = addr_of_local(A.F, nd['c'][i]) if i < len(nd['c']) else None
                        if vid in tracked:
                            fl = fl | {vid}
                    elif d and d not in ALLREL:
                        G = P.get(d, A.F)
                        if G is not None:
                            for i, a in enumerate(nd.get('c', [])):
                                vid = addr_of_local(A.F, a)
                                if vid in tracked and summary(G, i) == 'all':
                                    fl = fl | {vid}
                elif nd['k'] == 'decl':
                    for vv in nd['vars']:
                        if vv.get('id') in tracked and vv.get('init'):
                            fl = fl | {vv['id']}          # `= {0}` / struct copy
                elif nd['k'] == 'assign' and nd['op'] == '=':
                    l = A.ex[A.F.strip_casts(nd['c'][0])]
                    if l['k'] == 'ref' and l['decl'].get('id') in tracked:
                        fl = fl | {l['decl']['id']}
                env['$flags'] = fl

            def fork(self, A, env, e):
                nd = A.ex[e]
                if nd['k'] != 'call':
                    return None
                d = nd['callee'].get('d')
                if not d or d in ALLREL or d in INITS:
                    return None
                G = P.get(d, A.F)
                if G is None:
                    return None
                zs = [addr_of_local(A.F, a) for i, a in enumerate(nd.get('c', [])) if addr_of_local(A.F, a) in tracked and summary(G, i) == 'zero']
                if not zs:
                    return None
                outs = []
                cur = (env.get('$tmp') or {}).get(e)
                for lo, hi, ini in ((0, 0, True), (-absint.INF, -1, False), (1, absint.INF, False)):
                    e2 = env.copy()
                    tmp = dict(e2.get('$tmp') or {})
                    nv = V(lo, hi)
                    if cur is not None:
                        nv = cur.copy(lo=max(cur.lo, lo), hi=min(cur.hi, hi))
                        if nv.is_bottom():
                            continue
                    tmp[e] = nv
                    e2['$tmp'] = tmp
                    if ini:
                        e2['$flags'] = e2.get('$flags', frozenset()) | set(zs)
                    outs.append(e2)
                return outs
        h = H([])
        A = absint.Analyzer(P, F, hooks=h, partition=k2.partition)
        try:
            A.run()
        except Exception as ex:
            raise AnalysisBroken(f'{rule}: analysis of {F.name} failed: {ex}')
        idx = {}
        for c, vid in sorted(rels, key=lambda x: F.ex[x[0]]['loc']):
            sets = h.at.get(c, set())
            nm = F.vars[vid]['name']
            i = idx.get(nm, 0)
            idx[nm] = i + 1
            if not sets:
                continue            # unreachable
            bad = [fl for fl in sets if vid not in fl]
            n += 1
            chk.ob(rule, F.name, f'released-only-when-set-up:{nm}#{i}', not bad, F.where(c),
                   f'`{F.s(c)}`: {nm} has been initialised on all {len(sets)} path classes that reach the call' if not bad else
                   f'`{F.s(c)}` is reachable on a path on which `{nm}` ({locs[vid]}) was never initialised -- e.g. after a callee that '
                   'was to initialise it failed before its init call: the release function then follows whatever pointers the stack held')
    return n

def _eread_set(P):
    """file-local functions of vorbisfile.c that can answer OV_EREAD: a literal return of -128, or the result of such a function"""
    lit = set()
    fns = [F for F in P.functions() if F.file.endswith('vorbisfile.c') and F.entry is not None]
    for F in fns:
        for r in F.nodes('ret'):
            c = F.ex[r].get('c')
            if c and common.const_val(F, c[0]) == -128:
                lit.add(P.key(F))
    out = set(lit)
    changed = True
    while changed:
        changed = False
        for F in fns:
            k = P.key(F)
            if k in out:
                continue
            sd = common.single_defs(F)
            for r in F.nodes('ret'):
                c = F.ex[r].get('c')
                if not c:
                    continue
                rn = F.ex[F.strip_casts(c[0])]
                src = []
                if rn['k'] == 'call':
                    src.append(F.strip_casts(c[0]))
                elif rn['k'] == 'ref' and rn['decl'].get('kind') == 'var':
                    for n, nd in F.ex.items():
                        if nd['k'] == 'assign' and nd['op'] == '=' and n in F.pos:
                            l = F.ex[F.strip_casts(nd['c'][0])]
                            if l['k'] == 'ref' and l['decl'] == rn['decl'] and F.ex[F.strip_casts(nd['c'][1])]['k'] == 'call':
                                src.append(F.strip_casts(nd['c'][1]))
                        elif nd['k'] == 'decl':
                            for v in nd['vars']:
                                if v.get('id') == rn['decl'].get('id') and v.get('init') and F.ex[F.strip_casts(v['init'])]['k'] == 'call':
                                    src.append(F.strip_casts(v['init']))
                for cc in src:
                    if any(t in out for t in P.call_targets(F, cc)):
                        out.add(k)
                        changed = True
    return out


def r12_13(chk, P, rule='R12.13'):
    chk.rule(rule, 'a read error met while the file is being mapped is not taken for the end of the data: in every file-local '
             'function reachable from _open_seekable2 (the scans that build the link tables; public entry points excluded), each '
             'call of a function that can answer OV_EREAD is analysed (K4 partitioned by a path flag) with that answer forced: '
             'every return reached afterwards is negative.  A scan that merely stops at the error leaves a table entry computed '
             'from half the pages (a link start of 0 for a link that starts later, a link too few) in a handle whose open succeeded')
    import absint
    from absint import V, K
    root = P.need('_open_seekable2')
    ER = _eread_set(P)
    chk.require('_get_next_page' in ER and len(ER) >= 4, f'functions that can answer OV_EREAD: only {sorted(ER)}')
    pub = set(P.public_api())
    scope = [P.fn[k] for k in sorted(P.reachable([P.key(root)])) if k in P.fn and P.fn[k].file.endswith('vorbisfile.c')
             and P.fn[k].name not in pub and P.fn[k].entry is not None]
    n = 0
    for F in scope:
        sites = [c for c in sorted(F.calls(), key=lambda x: F.ex[x]['loc']) if any(t in ER for t in P.call_targets(F, c))]
        for c in sites:
            class H(k2.Flags):
                def post_call(self, A, env, e, r, c=c):
                    if e == c:
                        env['$flags'] = env.get('$flags', frozenset()) | {'eread'}
                        return K(-128)
                    return None
            h = H([])
            A = absint.Analyzer(P, F, hooks=h, partition=k2.partition)
            A.run()
            callee = F.ex[c]['callee'].get('d') or '?'
            same = [x for x in sites if F.ex[x]['callee'].get('d') == callee]
            rets = [(e, v) for (e, env, v) in A.ret_states if 'eread' in env.get('$flags', frozenset())]
            # a function that falls off its end (void) cannot report anything: its callers are in scope themselves
            bad = [(e, v) for (e, v) in rets if v is None or v.hi >= 0]
            chk.ob(rule, F.name, f'read-error-propagates:{callee}#{same.index(c)}', not bad, F.where(bad[0][0]) if bad else F.where(c),
                   f'after an OV_EREAD answer every one of the {len(rets)} return state(s) is negative' if not bad else
                   f'after `{F.s(c)[:60]}` answered OV_EREAD the function can still return {bad[0][1]} (`{F.s(bad[0][0])[:50]}`): the '
                   'error is taken for the end of the data and the caller goes on with what was gathered so far')
            n += 1
    return n


def r12_14(chk, P, rule='R12.14'):
    chk.rule(rule, 'a failing read is told from the end of the data: the read callback has the calling convention of fread() -- a '
             'failure is a count of 0 with errno set.  In every function that calls the read callback (K2, path flags): errno is '
             'cleared on every path before the call, and every return after the call whose value may be 0 lies on paths that '
             'have read errno since.  Without that, a transient read error is answered as end of data, which the scans that '
             'map the file take for "no more pages here": the open succeeds with fewer links or shorter lengths than the file has')
    import absint
    from absint import V
    n = 0

    def errno_node(A, e):
        nd = A.ex[e]
        return nd['k'] == 'call' and nd['callee'].get('d') == '__errno_location'

    def clears(A, env, e):
        nd = A.ex[e]
        if nd['k'] != 'assign' or nd['op'] != '=':
            return False
        l = A.ex[A.F.strip_casts(nd['c'][0])]
        return l['k'] == 'un' and l['op'] == '*' and errno_node(A, A.F.strip_casts(l['c'][0])) and common.const_val(A.F, nd['c'][1]) == 0

    def reads(A, env, e):
        nd = A.ex[e]
        if not (nd['k'] == 'un' and nd['op'] == '*' and errno_node(A, A.F.strip_casts(nd['c'][0]))):
            return False
        par = A.F.sparent.get(e)
        while par is not None and A.ex[par]['k'] == 'cast':
            e, par = par, A.F.sparent.get(par)
        return not (par is not None and A.ex[par]['k'] == 'assign' and A.ex[par]['c'][0] == e)

    def is_read_cb(A, env, e):
        return A.ex[e]['k'] == 'call' and 'cb:read_func' in P.call_targets(A.F, e)
    for F in P.functions():
        if not F.file.endswith('vorbisfile.c') or F.entry is None:
            continue
        cbs = [c for c in F.calls() if 'cb:read_func' in P.call_targets(F, c)]
        if not cbs:
            continue
        setters = [('cleared', clears, True), ('seen', reads, True), ('seen', is_read_cb, False), ('called', is_read_cb, True)]
        A, h = k2.analyse(P, F, setters, watch=lambda A_, e_: is_read_cb(A_, None, e_))
        for c in cbs:
            fls = h.at.get(c) or set()
            ok = bool(fls) and all('cleared' in fl for fl in fls)
            chk.ob(rule, F.name, f'errno-cleared-before-the-read#{cbs.index(c)}', ok, F.where(c),
                   'errno = 0 on every path to the callback' if ok else 'the read callback can be called with a stale errno')
            n += 1
        bad = []
        nret = 0
        for (e, fl, v, env) in k2.ret_value_classes(A):
            if 'called' not in fl:
                continue
            nret += 1
            may0 = v is None or (v.lo <= 0 <= v.hi and 0 not in (v.ne or ()))
            if may0 and 'seen' not in fl:
                bad.append((e, v))
        chk.ob(rule, F.name, 'zero-count-checked-against-errno', not bad and nret > 0, F.where(bad[0][0]) if bad else F.where(cbs[0]),
               f'{nret} return state(s) after the callback; those that may be 0 have looked at errno' if not bad else
               f'`{F.s(bad[0][0])}` can answer {bad[0][1]} after the read callback without errno having been looked at: a failed read '
               'and the end of the data are the same answer')
        n += 1
    return n


def run(chk, P):
    r12_8(chk, P)
    chk.floor('R12.8', 1)
    chk.rule('R12.9', 'a source that stops delivering data cannot hang a call: the backward page searches (loops that run until a '
             'sentinel changes, stepping a counter clamped at 0) bail out when a pass from the start of the file found nothing '
             '(same obligations as R03.2)')
    from rules import c03
    c03.r03_2(common.Proxy(chk, 'R12.9'), P)
    chk.floor('R12.9', 1)
    r12_10(chk, P)
    chk.floor('R12.10', 3)
    chk.rule('R12.12', 'a seek after a failure really seeks: the seek entry points answer 0 only after a repositioning call (same '
             'obligations as R08.14) -- the position a failed seek left behind (-1, or the total when a read error was mapped to end '
             'of stream) is never taken for the place the decoder stands on')
    from rules import c08
    c08.r08_14(common.Proxy(chk, 'R12.12'), P, rule='R12.12')
    chk.floor('R12.12', 5)
    r12_13(chk, P)
    chk.floor('R12.13', 8)
    r12_14(chk, P)
    chk.floor('R12.14', 2)
    r12_11(chk, P)
    chk.floor('R12.11', 6)
    E, C = io_sets(P)
    chk.notes.append(f'I/O-capable functions: {len(E)}; of those error-carrying: {len(C)}; not error-carrying: {sorted(E - C)}')
    r12_1(chk, P, E, C)
    chk.floor('R12.1', 50)
    r12_2(chk, P, E, C)
    chk.floor('R12.2', 25)
    r12_3(chk, P)
    chk.floor('R12.3', 3)
    r12_5(chk, P)
    chk.floor('R12.5', 2)
    r12_6(chk, P)
    chk.floor('R12.6', 3)
    r12_7(chk, P)
    chk.floor('R12.7', 2)
    import typestate
    typestate.c12(chk, P)
    chk.trusted += ['clang 14 front end', 'call graph with callbacks as external events', 'interval + excluded-constant abstraction of '
                    'error codes (OV_EREAD=-128 distinguishable from OV_EOF/OV_HOLE/OV_FALSE)']
    return ('Error discipline over the resolved call graph: the set of functions that can reach the I/O callbacks and whose '
            'return value can carry a failure is computed, every call to them must have its result observed, and a path on '
            'which such a result was found negative must not end in a success/data return. The close callback has one guarded '
            'site; failed opens detach the source first; short reads commit exactly the returned count. Does not decide that '
            'behaviour after the fault equals that of a never-faulted handle.')
