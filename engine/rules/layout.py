"""Layout agreement rules (K8): writer == reader (R05.1/R16.1), reader == specification text (R01.1)."""
import itertools

import k8
import spec
from facts import AnalysisBroken

# writer, reader.  Symbols only; the pairing itself is what the code's registries say (pack/unpack slots) plus the three
# header packers and the codebook packer.
PAIRS = [
    ('_vorbis_pack_info', '_vorbis_unpack_info'),
    ('_vorbis_pack_comment', '_vorbis_unpack_comment'),
    ('_vorbis_pack_books', '_vorbis_unpack_books'),
    ('vorbis_staticbook_pack', 'vorbis_staticbook_unpack'),
]
HEADER_PREFIX_READER = 'vorbis_synthesis_headerin'


def slot_pairs(P):
    """pack/unpack functions stored at the same index of a backend registry"""
    out = []
    for reg in ('_floor_P', '_residue_P', '_mapping_P'):
        gs = P.globals.get(reg)
        if not gs:
            raise AnalysisBroken(f'registry {reg} not found')
        init = gs[0].get('init')
        for el in init['elems']:
            if not (isinstance(el, dict) and el.get('kind') == 'ref'):
                continue
            bundle = P.globals.get(el['name'])
            if not bundle:
                raise AnalysisBroken(f'bundle {el["name"]} not found')
            bi = bundle[0]['init']
            d = dict(zip(bi['fields'], bi['elems']))
            pk, up = d.get('pack'), d.get('unpack')
            if isinstance(pk, dict) and pk.get('fn') and isinstance(up, dict) and up.get('fn'):
                out.append((pk['name'], up['name']))
    seen, res = set(), []
    for p in out:
        if p not in seen:
            seen.add(p)
            res.append(p)
    return res


def skeleton(P, fn, mode, normalise=True):
    F = P.need(fn)
    sk = k8.Skel(P, mode)
    items = k8.inline(sk.of(F))
    if mode == 'w' and normalise:
        items = k8.normalise_writer(items)
    return F, items


def clean(items):
    """drop validation exits (branches that only abandon the layout)"""
    out = []
    for x in items:
        if x[0] in ('ABORT', 'END', 'RET'):
            continue
        if x[0] == 'CALL':
            out += clean(x[2])
            continue
        if x[0] == 'I':
            a, b = clean(x[2]), clean(x[3])
            if not a and not b:
                continue
            out.append(('I', x[1], a, b))
        elif x[0] == 'L':
            out.append(('L', x[1], clean(x[2])))
        else:
            out.append(x)
    return out


def strip_prefix_writer(items):
    """header packers start with [8: packet type][6 octets 'vorbis'] which the reader consumes in
    vorbis_synthesis_headerin; returns (type constant, remaining items)"""
    lead = 0
    while lead < len(items) and items[lead][0] == 'I' and not clean([items[lead]]):
        lead += 1
    items = items[lead:]
    if len(items) >= 2 and items[0][0] == 'F' and items[0][1] == 8 and isinstance(items[0][2], tuple) \
            and items[0][2][0] == 'const' and items[1][0] == 'L':
        return items[0][2][1], items[2:]
    return None, items


def _same_role(a, b):
    """field paths equal, an index wildcard `$` on one side matching any index expression on the other"""
    import re
    if a == b:
        return True
    def rx(x):
        return re.compile('^' + re.escape(x).replace('\\$', r'[^\[\]]+') + '$')
    if rx(a).match(b) or rx(b).match(a):
        return True
    # one side reaches the record through a local pointer (`m=calloc(..); ci->mode_param[i]=m; m->blockflag=read()`): its path
    # is the bare field; the field itself must still be the same one
    for x, y in ((a, b), (b, a)):
        if x.count('.') == 1 and '[' not in x and y.endswith(x) and y != x:
            return True
    return False


def role_compat(w, r):
    """-> (checked?, ok?, message)"""
    rw, rr = w[2], r[2]
    if isinstance(rw, str) and isinstance(rr, str):
        a = rw[rw.index('.'):] if '.' in rw else rw
        b = rr[rr.index('.'):] if '.' in rr else rr
        if not _same_role(a, b):
            return True, False, f'writer stores {rw} where reader loads {rr} (width {w[1]})'
        if w[3] + r[3] != 0:
            return True, False, f'{rw}: writer offset {w[3]:+d} and reader offset {r[3]:+d} are not inverse'
        return True, True, f'{rw} width {w[1]} offsets {w[3]:+d}/{r[3]:+d}'
    if isinstance(rw, tuple) and rw[0] == 'const' and isinstance(rr, tuple) and rr[0] == 'const':
        if rw[1] + w[3] != rr[1]:
            return True, False, f'writer emits constant {rw[1] + w[3]} where reader expects {rr[1]} (width {w[1]})'
        return True, True, f'constant {rr[1]} width {w[1]}'
    return False, True, ''


def align(pw, pr):
    """pair up full-item paths with equal width keys; yields (writer item, reader item)"""
    def key(p):
        return tuple(k8._wkey(x) for x in p)
    rmap = {}
    for p in pr:
        rmap.setdefault(key(p), p)
    for p in pw:
        q = rmap.get(key(p))
        if q is None:
            continue
        yield from _zip(p, q)


def _zip(p, q):
    for a, b in zip(p, q):
        if a[0] == 'F' and b[0] == 'F':
            yield a, b
        elif a[0] == 'L' and b[0] == 'L':
            yield from align(a[1], b[1])


def compare_pair(chk, rule, P, wname, rname, w_items, r_items, Fw, Fr):
    """path-set equality (widths) + role agreement on aligned fields"""
    pw = k8.paths(w_items)
    pr = k8.paths(r_items)
    cons = f'{wname}<->{rname}'
    if pw != pr:
        only_w = sorted(k8.show_path(x) for x in pw - pr)
        only_r = sorted(k8.show_path(x) for x in pr - pw)
        chk.ob(rule, wname, cons + ':width-paths', False, Fw.where(),
               f'bit layouts differ. writer-only: {only_w[:2]} reader-only: {only_r[:2]}')
    else:
        chk.ob(rule, wname, cons + ':width-paths', True, Fw.where(),
               f'{len(pw)} layout paths equal, e.g. {k8.show_path(sorted(pw, key=k8.show_path)[0])[:160]}')
    fw = k8.paths(w_items, widths_only=False)
    fr = k8.paths(r_items, widths_only=False)
    seen = set()
    nchecked = 0
    for a, b in align(fw, fr):
        k = (a[4], b[4])
        if k in seen:
            continue
        seen.add(k)
        checked, ok, msg = role_compat(a, b)
        if checked:
            nchecked += 1
            role = a[2] if isinstance(a[2], str) else f'const{a[2][1]}'
            chk.ob(rule, wname, f'{cons}:field:{role}:{a[1]}', ok,
                   f'{Fw.where()} line {a[4]} / {Fr.where()} line {b[4]}', msg)
    return nchecked


def linearisations(items, limit=5000):
    """all flattenings of a skeleton into a width sequence, taking the arms of every if/switch in any order;
    computed widths -> 'V'; consecutive duplicates collapsed at the end"""
    def lin(its):
        res = [()]
        for it in its:
            k = it[0]
            if k == 'F':
                w = it[1] if isinstance(it[1], int) else 'V'
                res = [p + (w,) for p in res]
            elif k in ('L', 'CALL'):
                sub = lin(it[2])
                res = [p + q for p in res for q in sub]
            elif k == 'I':
                a, b = lin(it[2]), lin(it[3])
                alts = [x + y for x in a for y in b] + [y + x for x in a for y in b]
                res = [p + q for p in res for q in set(alts)]
            elif k == 'SW':
                arms = []
                for kk, v in sorted(it[2].items(), key=lambda kv: str(kv[0])):
                    a = lin(v)
                    if v and a != [()] and a not in arms:       # `case 1: case 2:` share one arm
                        arms.append(a)
                alts = set()
                for perm in itertools.permutations(range(len(arms))):
                    for combo in itertools.product(*[arms[i] for i in perm]):
                        alts.add(tuple(x for c in combo for x in c))
                res = [p + q for p in res for q in (alts or {()})]
            if len(res) > limit:
                raise AnalysisBroken('too many linearisations')
        return list(set(res))
    return {tuple(spec.collapse(p)) for p in lin(items)}


def expand_slots(P, items, mode):
    """inline a slot call when exactly one function is registered for it (the mapping), drop it otherwise (floors and
    residues are specified in their own sections)"""
    out = []
    for it in items:
        if it[0] == 'SLOT':
            fns = sorted(P.slots.get((it[1], it[2]), ()))
            bundles = [g for g in P.global_list if g.get('record') == it[1] and not g.get('extent')]
            if len(fns) == 1 and len(bundles) == 1:
                _, sub = skeleton(P, fns[0], mode)
                out += expand_slots(P, sub, mode)
        elif it[0] == 'L':
            out.append(('L', it[1], expand_slots(P, it[2], mode)))
        elif it[0] == 'I':
            out.append(('I', it[1], expand_slots(P, it[2], mode), expand_slots(P, it[3], mode)) + tuple(it[4:]))
        elif it[0] == 'SW':
            out.append(('SW', it[1], {k: expand_slots(P, v, mode) for k, v in it[2].items()}))
        else:
            out.append(it)
    return out


# spec section <-> reader function.  (name, tex file, start pattern, end pattern, reader, options)
SPEC = [
    ('identification header', '04-codec.tex', r'\\subsubsection\{Identification header\}', r'\\subsubsection\{Comment header\}',
     '_vorbis_unpack_info', {}),
    ('common header', '04-codec.tex', r'\\subsubsection\{Common header decode\}', r'\\subsubsection\{Identification header\}',
     'vorbis_synthesis_idheader', {}),
    ('setup header', '04-codec.tex', r'\\subsubsection\{Setup header\}', r'\\subsection\{Audio packet decode',
     '_vorbis_unpack_books', {'expand': True, 'drop_codebooks': True}),
    ('audio packet prologue', '04-codec.tex', r'\\subsubsection\{packet type, mode and window decode\}', r'Vorbis windows all use',
     'vorbis_synthesis', {}),
    ('audio packet prologue (trackonly)', '04-codec.tex', r'\\subsubsection\{packet type, mode and window decode\}',
     r'Vorbis windows all use', 'vorbis_synthesis_trackonly', {}),
    ('codebook', '03-codebook.tex', r'\\subsubsection\{codebook decode\}', r'\\paragraph\{Huffman decision tree',
     'vorbis_staticbook_unpack', {}),
    ('comment header', '05-comment.tex', r'decoded as follows', r'end\{programlisting\}', '_vorbis_unpack_comment', {}),
    ('floor 0 header', '06-floor0.tex', r'\\subsubsection\{header decode\}', r'\\subsubsection\{packet decode\}',
     'floor0_unpack', {}),
    ('floor 0 packet', '06-floor0.tex', r'\\subsubsection\{packet decode\}', r'\\subsubsection\{curve computation\}',
     'floor0_inverse1', {}),
    ('floor 1 header', '07-floor1.tex', r'\\subsubsection\{header decode\}', r'\\subsubsection\{packet decode\}',
     'floor1_unpack', {}),
    ('floor 1 packet', '07-floor1.tex', r'\\subsubsection\{packet decode\}', r'\\subsubsection\{curve computation\}',
     'floor1_inverse1', {}),
    ('residue header', '08-residue.tex', r'\\subsubsection\{header decode\}', r'\\subsubsection\{packet decode\}',
     'res0_unpack', {}),
]


def spec_vs_reader(chk, rule, P):
    n = 0
    for (name, tex, a, b, reader, opt) in SPEC:
        F, items = skeleton(P, reader, 'r')
        if opt.get('expand'):
            items = expand_slots(P, items, 'r')
        if opt.get('drop_codebooks'):
            items = _drop_calls_to(items)
        sw = spec.widths(spec.section(tex, a, b))
        sw = [8 if x == 'S' else x for x in sw]
        want = tuple(spec.collapse(sw))
        lins = linearisations(items)
        ok = want in lins
        n += 1
        if ok:
            chk.ob(rule, reader, f'spec:{name}', True, F.where(), f'{tex}: widths {list(want)} = reader layout')
        else:
            # closest linearisation for the message
            best = min(lins, key=lambda l: _dist(l, want))
            chk.ob(rule, reader, f'spec:{name}', False, F.where(),
                   f'{tex} specifies widths {list(want)}; the reader implements {list(best)}')
    return n


def _dist(a, b):
    n = max(len(a), len(b))
    return sum(1 for i in range(n) if i >= len(a) or i >= len(b) or a[i] != b[i])


def _drop_calls_to(items):
    """the setup header text refers to the codebook section for each codebook: the inlined codebook layout is removed,
    recognised as the loop whose body starts with the 24-bit sync constant"""
    def first_field(its):
        for x in its:
            if x[0] == 'F':
                return x
            if x[0] == 'CALL':
                return first_field(x[2])
            return None
        return None
    out = []
    for it in items:
        f0 = first_field(it[2]) if it[0] == 'L' and it[2] else None
        if f0 is not None and f0[1] == 24 and isinstance(f0[2], tuple) and f0[2][0] == 'const':
            continue
        out.append(it)
    return out
