"""C15 — encoder set-up succeeds completely or fails cleanly (partial, DESIGN 4/C15).

Decided: R15.1 template table extents cover every index set-up can form (K4/K8d, engine/k4rules.py); R15.2 argument
validation dominates use; R15.3 every failing init clears the info structure; R15.4 the control interface is frozen
once set-up is final; R15.5 fixed-extent indexing in set-up code (K4).  Not decided: memory safety of per-block DSP."""
import absint
import cfg
import k2
import k8
from absint import V
from facts import AnalysisBroken
from rules import common
from rules.c08 import _ordinal


def r15_2(chk, P):
    chk.rule('R15.2', 'argument validation dominates use: in vorbis_encode_setup_vbr/_managed the rate is known > 0 at every call '
             'that receives it; in vorbis_encode_setup_init vi->channels is known to be in [1,255] and ci non-null at every call '
             'of a set-up helper; in vorbis_analysis_headerout the writer buffer is initialised only with channels in [1,256] '
             'and a non-null backend; in get_setup_template the interpolation index never equals the table size')
    sk = k8.Skel(P, 'r')
    for fn in ('vorbis_encode_setup_vbr', 'vorbis_encode_setup_managed'):
        F = P.need(fn)
        rate = [p for p in F.params if p['name'] == 'rate']
        chk.require(rate, f'{fn} lost its rate parameter')
        rk = f'v{rate[0]["id"]}'
        sites = []

        def obs(A, env, e, v, rk=rk, sites=sites):
            nd = A.ex[e]
            if nd['k'] == 'call' and nd['callee'].get('d') and A.P.get(nd['callee']['d']) is not None:
                if any(A.ex[A.F.strip_casts(a)]['k'] == 'ref' and A.ex[A.F.strip_casts(a)]['decl'].get('id') == int(rk[1:]) for a in nd['c']):
                    sites.append((e, env.get(rk)))
        A = absint.Analyzer(P, F)
        A.observers.append(obs)
        A.run()
        chk.require(sites, f'{fn}: no call receives the rate')
        for e, v in sites:
            chk.ob('R15.2', fn, f'rate>0@{F.ex[e]["callee"]["d"]}', v is not None and v.lo >= 1, F.where(e), f'rate {v} at the call')
    F = P.need('vorbis_encode_setup_init')
    sites = []

    def obs2(A, env, e, v):
        nd = A.ex[e]
        if nd['k'] == 'call' and (nd['callee'].get('d') or '').startswith('vorbis_encode_'):
            ch = None
            for k, x in env.items():
                if isinstance(k, str) and k.endswith('->channels') and isinstance(x, V):
                    ch = x
            sites.append((e, ch))
    A = absint.Analyzer(P, F)
    A.observers.append(obs2)
    A.run()
    chk.require(len(sites) >= 5, 'vorbis_encode_setup_init: set-up helper calls not found')
    seen = set()
    for e, ch in sites:
        d = F.ex[e]['callee']['d']
        same = sorted(F.calls(d), key=lambda x: F.ex[x]['loc'])
        cons = f'channels-in-range@{d}#{same.index(e)}'
        if cons in seen:
            continue
        seen.add(cons)
        chk.ob('R15.2', F.name, cons, ch is not None and ch.lo >= 1 and ch.hi <= 255, F.where(e), f'vi->channels {ch} at the call')
    # headerout
    F = P.need('vorbis_analysis_headerout')
    sites = []

    def obs3(A, env, e, v):
        nd = A.ex[e]
        if nd['k'] == 'call' and nd['callee'].get('d') == 'oggpack_writeinit':
            ch = [x for k, x in env.items() if isinstance(k, str) and k.endswith('->channels') and isinstance(x, V)]
            sites.append((e, ch[0] if ch else None))
    A = absint.Analyzer(P, F)
    A.observers.append(obs3)
    A.run()
    chk.require(sites, 'vorbis_analysis_headerout: oggpack_writeinit not found')
    for e, ch in sites:
        chk.ob('R15.2', F.name, 'channels-guard@oggpack_writeinit', ch is not None and ch.lo >= 1 and ch.hi <= 256, F.where(e), f'vi->channels {ch}')
    # get_setup_template: *base_setting = j - .001 when j == mappings (never the bare table size)
    F = P.need('get_setup_template')
    stores = []
    for n in F.pos:
        nd = F.ex[n]
        if nd['k'] == 'assign' and nd['op'] == '=':
            l = F.ex[F.strip_casts(nd['c'][0])]
            if l['k'] == 'un' and l['op'] == '*':
                stores.append(n)
    chk.require(stores, 'get_setup_template no longer stores the base setting')
    ok = False
    detail = []
    for s in stores:
        conds = common.controlling_conditions(F, s)
        cs = [(sk.canon(F, c), pol) for c, pol in conds]
        rhs = F.s(F.ex[s]['c'][1])
        detail.append(f'{rhs} under {cs}')
        # the store in the all-points-match arm subtracts a positive constant
        for c, pol in conds:
            cn = F.ex[F.strip_casts(c)]
            if cn['k'] == 'bin' and cn['op'] == '==' and pol and 'mappings' in F.s(c):
                r = F.ex[F.strip_casts(F.ex[s]['c'][1])]
                if r['k'] == 'bin' and r['op'] == '-' and F.ex[F.strip_casts(r['c'][1])]['k'] == 'flt' and F.ex[F.strip_casts(r['c'][1])]['v'] > 0:
                    ok = True
    _interpolated_setting(chk, P, F, stores)
    chk.ob('R15.2', F.name, 'base-setting-below-table-size', ok, F.where(stores[0]),
           'when the request matches the last table point the setting is j-epsilon: ' + '; '.join(detail)[:200] if ok else
           'no arm handles req == last table point by staying below the table size: ' + '; '.join(detail)[:200])


def _interpolated_setting(chk, P, F, stores):
    """the interpolating arm of get_setup_template: *base_setting = j + (req-low)/(high-low) stays below j+1 because the search
    loop is left (break) only with low <= req < high -- strictly below the next table point (exact linear domain over the
    three quantities; a strict comparison is a row with constant -1)"""
    import linrel
    import cfg as cfg_
    defs = common.single_defs(F)

    def expand(e, depth=0):
        e = F.strip_casts(e)
        nd = F.ex[e]
        if nd['k'] == 'paren':
            return expand(nd['c'][0], depth)
        if nd['k'] == 'ref' and nd['decl'].get('kind') == 'var' and nd['decl']['id'] in defs and depth < 3:
            return expand(defs[nd['decl']['id']], depth + 1)
        return e

    def txt(e):
        return F.s(expand(e)).replace(' ', '')
    for s_ in stores:
        r = F.ex[expand(F.ex[s_]['c'][1])]
        if r['k'] != 'bin' or r['op'] != '+':
            continue
        frac = None
        for side in r['c']:
            q = F.ex[expand(side)]
            if q['k'] == 'bin' and q['op'] == '/':
                frac = q
        if frac is None:
            continue
        num, den = F.ex[expand(frac['c'][0])], F.ex[expand(frac['c'][1])]
        if not (num['k'] == 'bin' and num['op'] == '-' and den['k'] == 'bin' and den['op'] == '-'):
            chk.assumed('R15.2', F.name, 'interpolated-setting-below-next-point', F.where(s_),
                        'the interpolation is not of the form (x-low)/(high-low); not decided')
            return
        X, L1 = txt(num['c'][0]), txt(num['c'][1])
        H, L2 = txt(den['c'][0]), txt(den['c'][1])
        # conditions under which the search loop is left early
        prem = []
        L = cfg_.loops(F)
        for h, body in L.items():
            for b in body:
                blk = F.blocks[b]
                t = blk.get('term')
                if b == h or not t or t.get('cond') is None or len(blk['succs']) != 2:
                    continue
                for i_, sx in enumerate(blk['succs']):
                    if sx is not None and sx not in body:
                        prem.append((t['cond'], i_ == 0))
        # a && b is expanded by the CFG: collect the comparison of every block on the way out as one conjunction per exit
        po = linrel.Poly()
        rows = 0
        for h, body in L.items():
            for b in body:
                t = F.blocks[b].get('term')
                if not t or t.get('cond') is None or b == h:
                    continue
                c = F.ex[F.strip_casts(t['cond'])]
                if c['k'] != 'bin' or c['op'] not in ('<', '<=', '>', '>='):
                    continue
                a_, b_ = txt(c['c'][0]), txt(c['c'][1])
                if not {a_, b_} & {X} or not {a_, b_} & {L1, H}:
                    continue
                # this comparison holds (true edge) on the way to the break: the true successor stays on the way out
                op = c['op']
                if op in ('>', '>='):
                    a_, b_, op = b_, a_, {'>': '<', '>=': '<='}[op]
                po.add({a_: 1, b_: -1}, -1 if op == '<' else 0)
                rows += 1
        if rows == 0 or L1 != L2:
            chk.assumed('R15.2', F.name, 'interpolated-setting-below-next-point', F.where(s_),
                        'no comparison of the request with the table points found in the search loop; not decided')
            return
        ok = po.entails({X: 1, H: -1}, -1) and po.entails({L1: 1, X: -1}, 0)
        chk.ob('R15.2', F.name, 'interpolated-setting-below-next-point', ok, F.where(s_),
               f'the search loop is left with {L1} <= {X} < {H}: the fraction is in [0,1) and the setting stays below j+1 <= mappings' if ok else
               f'the search loop can be left with {X} == {H}: the fraction is 1 and the setting reaches the table size itself '
               '(mappings); every table indexed by (int)setting has exactly `mappings` rows beyond row 0')
        return



def r15_3(chk, P):
    chk.rule('R15.3', 'every return of vorbis_encode_init and vorbis_encode_init_vbr whose value may be non-zero is reached after '
             'vorbis_info_clear(vi): a failed one-step init leaves a cleared info structure')
    for fn in ('vorbis_encode_init', 'vorbis_encode_init_vbr'):
        F = P.need(fn)
        A, h = k2.analyse(P, F, [('cleared', k2.is_call('vorbis_info_clear'), True)])
        for (e, fl, v, env) in k2.ret_value_classes(A):
            if v is None or v.const() == 0:
                continue
            chk.ob('R15.3', fn, f'return@{_ordinal(F, e)}:{"+".join(sorted(fl)) or "-"}', 'cleared' in fl, F.where(e),
                   f'returns {v}; vorbis_info_clear on the path: {"cleared" in fl}')


def r15_4(chk, P):
    chk.rule('R15.4', 'in vorbis_encode_ctl every store to the high-level set-up (highlevel_encode_setup / its per-block records) '
             'is reached only with set_in_stone == 0 (the freeze test dominates every setter), and every return value is 0 or '
             'a negative code')
    F = P.need('vorbis_encode_ctl')
    sites = []

    def obs(A, env, e, v):
        nd = A.ex[e]
        tgt = None
        if nd['k'] == 'assign':
            tgt = nd['c'][0]
        elif nd['k'] == 'un' and nd['op'] in ('pre++', 'post++', 'pre--', 'post--'):
            tgt = nd['c'][0]
        if tgt is None:
            return
        l = A.ex[A.F.strip_casts(tgt)]
        while l['k'] == 'sub':
            l = A.ex[A.F.strip_casts(l['c'][0])]
        if l['k'] == 'member' and l.get('record') in ('highlevel_encode_setup', 'highlevel_byblocktype'):
            st = None
            for k, x in env.items():
                if isinstance(k, str) and k.endswith('set_in_stone') and isinstance(x, V):
                    st = x
            sites.append((e, l['field'], st))

    def part(A, env):
        for k, x in env.items():
            if isinstance(k, str) and k.endswith('set_in_stone') and isinstance(x, V):
                return x.const() == 0
        return None
    hk = absint.Hooks()
    hk.post_call = k2.make_post_call(P)       # a validation moved into a file-local helper: its return range (K4) is the call's
    A = absint.Analyzer(P, F, hooks=hk, partition=part)
    A.observers.append(obs)
    A.run()
    chk.require(len({s[0] for s in sites}) >= 10, 'vorbis_encode_ctl: setters not found')
    by = {}
    for e, fld, st in sites:
        ok = st is not None and st.const() == 0
        prev = by.get(e)
        by[e] = (fld, ok and (prev[1] if prev else True), st if not ok or not prev else prev[2])
    fields = {}
    for e, (fld, ok, st) in sorted(by.items(), key=lambda kv: F.ex[kv[0]]['loc']):
        k = fields.get(fld, 0)
        fields[fld] = k + 1
        chk.ob('R15.4', F.name, f'store:{fld}#{k}', ok, F.where(e), f'set_in_stone {st} at the store')
    bad = [(e, v) for (e, env, v) in A.ret_states if v is not None and v.hi > 0]
    chk.ob('R15.4', F.name, 'return-codes', not bad, F.where(bad[0][0]) if bad else F.where(),
           'every return is 0 or negative' if not bad else f'a return may yield {bad[0][1]}')


R15_5_SCOPE = [
    # psychoacoustic set-up (float-derived band indices, clamped in the code)
    '_vp_psy_init', 'setup_tone_curves', '_vp_global_look',
    # vorbisenc.c helpers whose fixed-extent subscripts do not depend on template data
    'vorbis_encode_noisebias_setup', 'vorbis_encode_tonemask_setup', 'vorbis_encode_compand_setup', 'vorbis_encode_peak_setup',
    'vorbis_encode_ath_setup', 'vorbis_encode_global_stereo', 'vorbis_encode_global_psych_setup', 'vorbis_encode_setup_setting',
    'vorbis_encode_blocksize_setup', 'vorbis_encode_psyset_setup', 'vorbis_encode_setup_init',
]


def r15_5(chk, P):
    chk.rule('R15.5', 'fixed-extent indexing in encoder set-up code: in the psychoacoustic set-up (_vp_psy_init, setup_tone_curves, '
             '_vp_global_look) and in the vorbisenc.c helpers whose indices do not depend on template data, the index of every '
             'subscript of a fixed-extent array is proven within the extent by the K4 value analysis (integer and floating '
             'intervals: float band positions are followed through their clamps and the float-to-int truncation).  Subscripts '
             'whose bound is a value stored in a template table (R15.1) are not decided')
    import k4dec
    roots = [P.key(P.need(n_)) for n_ in ('vorbis_encode_setup_init', 'vorbis_analysis_init', 'vorbis_encode_setup_vbr',
                                           'vorbis_encode_setup_managed')]
    D = k4dec.Driver(P, roots, [], setup_records=set(), state_records=set())
    D.run(max_rounds=6)
    n = 0
    present = [fn for fn in R15_5_SCOPE if P.get(fn) is not None]
    chk.require(len(present) >= 9, f'only {len(present)} of the {len(R15_5_SCOPE)} set-up functions in scope exist')
    for fn in present:
        # a helper of the list that was inlined into its caller is analysed there (the caller is in the list)
        F = P.need(fn)
        R = D.results.get(P.key(F))
        chk.require(R is not None and not R.unreached, f'{fn} is not reached from the encoder set-up entry points')
        sk = {}
        for st in sorted((s_ for s_ in R.sites if s_['kind'] == 'sub'), key=lambda s_: F.ex[s_['e']].get('loc') or [0, 0]):
            base = F.s(F.ex[st['e']]['c'][0], names=False)
            i = sk.get(base, 0)
            sk[base] = i + 1
            n += 1
            chk.ob('R15.5', fn, f'sub:{base}#{i}', st['ok'], st['where'],
                   st['bound'] if st['ok'] else f'{st["text"]}: {st["bound"]}: not within the extent')
    return n


# caller-supplied values that vorbis_encode_ctl copies into the staged set-up: (field) -> (lo, hi, who relies on it)
R15_6_REQ = {
    'bitrate_av_damp': (0.0, float('inf'),
                        'vorbis_bitrate_addblock forms slewlimit=15./slew_damp and clamps the slew to [-slewlimit,slewlimit]; with a '
                        'negative damping the two clamps force a constant negative slew, avgfloat runs below zero and '
                        'packetblob[choice] is read before the array'),
    'bitrate_reservoir_bias': (0.0, 1.0, 'documented range 0.0..1.0 (vorbisenc.h); desired_fill=reservoir_bits*reservoir_bias must lie '
                               'inside the reservoir'),
    'bitrate_reservoir': (0, float('inf'), 'a reservoir size; vorbis_bitrate_init derives minmax_reservoir and the fill targets from it'),
    'lowpass_kHz': (2.0, 99.0, 'documented range 2..99 (vorbisenc.h); vorbis_encode_residue_setup derives the residue end from it'),
    'impulse_noisetune': (-15.0, 0.0, 'documented range -15.0..0.0 (vorbisenc.h)'),
}


# a NaN from the caller passes `x <= 0.`, `x < lo`, `x > hi` alike (no memory error was demonstrated for any of them)
R15_6_NAN = {
    'bitrate_av_damp': 'NaN damping: slewlimit=15./NaN is NaN, both clamps of the slew compare false and leave it as rint(choice-avgfloat) '
                       'scaled, so avgfloat moves to within 0.5 of choice in [0,14]; choice stays an index of packetblob[15]',
    'impulse_noisetune': 'NaN noise tune: added to the noise bias tables (floats); no index or size derives from it',
}


# fields whose value is converted to an integer that bounds an index range: a NaN must not survive the request
R15_6_NAN_MUST = {
    'lowpass_kHz': 'vorbis_encode_residue_setup converts it to an int that becomes the residue end; with residue groupings that '
                   'are not powers of two (the 5.1 templates) the converted NaN stays INT_MIN and the encoder calls memset with a '
                   'negative size (findings/replay_encode_setup_misuse.c 2 6)',
}


# fields whose caller-supplied value must be refused when it is a NaN *before* it is stored (the request validates its argument,
# then copies it): the edge that leads on to the store is one only a number can take
R15_6_NAN_PRE = {
    'bitrate_reservoir_bias': 'vorbis_bitrate_init converts reservoir_bits*bias to the integer fill level of the reservoir; (long)NaN is '
                              'LONG_MIN on x86-64 and vorbis_bitrate_addblock then pads the first packet with about 2^60 zero bytes '
                              '(findings/replay_nan_reservoir_bias.c: the encoder spins and eats memory)',
}


def _nan_reaches_store(F, store):
    """can the source expression of `store` (a member of the caller's argument) still be a NaN when the store is evaluated?
    -> True when a path from the function entry reaches the store without taking an edge of an ordered comparison on that
    expression that only a number can take"""
    src = F.s(F.strip_casts(F.ex[store]['c'][1]))

    def cmp_edge(cond):
        nd = F.ex[F.strip_casts(cond)]
        neg = False
        while nd['k'] == 'un' and nd['op'] == '!':
            neg = not neg
            nd = F.ex[F.strip_casts(nd['c'][0])]
        if nd['k'] == 'bin' and nd['op'] in ('<', '<=', '>', '>=', '=='):
            if src in (F.s(F.strip_casts(nd['c'][0])), F.s(F.strip_casts(nd['c'][1]))):
                return not neg
        if nd['k'] == 'bin' and nd['op'] == '!=':
            if src in (F.s(F.strip_casts(nd['c'][0])), F.s(F.strip_casts(nd['c'][1]))):
                return neg
        return None
    target = F.pos[store][0]
    seen = set()
    st = [F.entry]
    while st:
        b = st.pop()
        if b in seen:
            continue
        seen.add(b)
        if b == target:
            return True
        blk = F.blocks[b]
        t = blk.get('term') or {}
        c = t.get('cond')
        pol = cmp_edge(c) if c is not None and len(blk['succs']) == 2 and t.get('kind') != 'switch' else None
        for si, s_ in enumerate(blk['succs']):
            if s_ is None:
                continue
            if pol is not None and (si == 0) == pol:
                continue            # only a number takes this edge: beyond it the value is clean
            st.append(s_)
    return False


def _nan_free_at_returns(F, store, fld):
    """path check over the CFG: after `store` (a caller-supplied floating value into field fld) the field is NaN-free at every
    return that follows: established by a constant store to the field or by the edge of an ordered comparison on the field
    that can only be taken by a non-NaN value.  -> list of returns reached while the field may still hold a NaN"""
    ltxt = F.s(F.strip_casts(F.ex[store]['c'][0]))

    def cmp_edge(cond):
        """polarity of the edge on which the field is known to be a number, or None"""
        nd = F.ex[F.strip_casts(cond)]
        neg = False
        while nd['k'] == 'un' and nd['op'] == '!':
            neg = not neg
            nd = F.ex[F.strip_casts(nd['c'][0])]
        if nd['k'] == 'bin' and nd['op'] in ('<', '<=', '>', '>=', '=='):
            if ltxt in (F.s(F.strip_casts(nd['c'][0])), F.s(F.strip_casts(nd['c'][1]))):
                return not neg
        if nd['k'] == 'bin' and nd['op'] == '!=':
            if ltxt in (F.s(F.strip_casts(nd['c'][0])), F.s(F.strip_casts(nd['c'][1]))):
                return neg
        return None
    b0, i0 = F.pos[store]
    bad = []
    seen = set()
    st = [(b0, i0 + 1)]
    while st:
        b, i = st.pop()
        if (b, i) in seen:
            continue
        seen.add((b, i))
        blk = F.blocks[b]
        clean = False
        for e in blk['elems'][i:]:
            nd = F.ex[e]
            if nd['k'] == 'assign' and nd['op'] == '=' and F.s(F.strip_casts(nd['c'][0])) == ltxt:
                if common.const_val(F, nd['c'][1]) is not None or F.ex[F.strip_casts(nd['c'][1])]['k'] == 'flt':
                    clean = True
                    break
            if nd['k'] == 'ret':
                bad.append(e)
        if clean:
            continue
        t = blk.get('term') or {}
        c = t.get('cond')
        pol = cmp_edge(c) if c is not None and len(blk['succs']) == 2 else None
        for si, s_ in enumerate(blk['succs']):
            if s_ is None:
                continue
            if pol is not None and (si == 0) == pol:
                continue            # this edge is taken by numbers only
            st.append((s_, 0))
    return bad


def r15_6(chk, P):
    chk.rule('R15.6', 'control requests store only validated values: every value vorbis_encode_ctl copies from the caller\'s argument '
             'into a range-constrained field of the staged set-up (damping >= 0, reservoir bias in [0,1], reservoir size >= 0, '
             'lowpass in [2,99], impulse noise tune in [-15,0]) is inside that range at the store, or is clamped into it before '
             'every return that follows the store (K4 integer and floating intervals refined by the request\'s own checks, '
             'whatever the other members of the argument are).  The intervals describe the non-NaN values: a NaN passes every '
             'IEEE comparison and is stored as it is; that case is listed per field as an assumption with what the consumer does')
    import absint
    F = P.need('vorbis_encode_ctl')
    at_store = {}

    def obs(A, env, e, v):
        nd = A.ex[e]
        if nd['k'] != 'assign' or nd['op'] != '=':
            return
        l = A.ex[A.F.strip_casts(nd['c'][0])]
        if l['k'] == 'member' and l.get('record') == 'highlevel_encode_setup' and l.get('field') in R15_6_REQ:
            at_store[e] = absint.join(at_store.get(e), A.peek(env, nd['c'][1]))
    A = absint.Analyzer(P, F)
    A.observers.append(obs)
    A.run()
    chk.require(len(at_store) >= 5, f'vorbis_encode_ctl: only {len(at_store)} stores to range-constrained set-up fields seen')
    per = {}
    for e in sorted(at_store, key=lambda x: F.ex[x]['loc']):
        fld = F.ex[F.strip_casts(F.ex[e]['c'][0])]['field']
        lo, hi, why = R15_6_REQ[fld]
        v = at_store[e]
        ok = v.lo >= lo and v.hi <= hi
        how = f'stored value {v} within [{lo},{hi}]'
        if not ok:
            # in-place clamp idiom: every return that follows the store sees the field inside the range
            exits = [(r, env) for (r, env, rv) in A.ret_states if cfg.search(F, F.pos[e], lambda n, r=r: n == r, lambda n: False) is not None]
            vals = []
            for (r, env) in exits:
                key = A.path(F.strip_casts(F.ex[e]['c'][0]), env)
                x = env.get(key) if key else None
                vals.append(x)
            ok = bool(exits) and all(x is not None and x.lo >= lo and x.hi <= hi for x in vals)
            how = (f'stored {v}, clamped to [{lo},{hi}] before each of the {len(exits)} returns that follow' if ok else
                   f'stored value {v} can leave [{lo},{hi}] and is not clamped before the return: {why}')
        i = per.get(fld, 0)
        per[fld] = i + 1
        chk.ob('R15.6', F.name, f'store:{fld}#{i}', ok, F.where(e), how)
        if fld in R15_6_NAN and i == 0:
            chk.assumed('R15.6', F.name, f'nan:{fld}', F.where(e), R15_6_NAN[fld])
        if fld in R15_6_NAN_PRE:
            dirty = _nan_reaches_store(F, e)
            chk.ob('R15.6', F.name, f'nan-refused-before-store:{fld}#{i}', not dirty, F.where(e),
                   'every path to the store takes an edge of an ordered comparison on the argument that only a number can take' if not dirty
                   else f'a NaN in `{F.s(F.ex[e]["c"][1])}` reaches the store: `x < lo` and `x > hi` are both false for a NaN, so the '
                        f'range tests let it pass.  {R15_6_NAN_PRE[fld]}')
        if fld in R15_6_NAN_MUST and common.const_val(F, F.ex[e]['c'][1]) is None and F.ex[F.strip_casts(F.ex[e]['c'][1])]['k'] != 'flt':
            badr = _nan_free_at_returns(F, e, fld)
            chk.ob('R15.6', F.name, f'nan-rejected:{fld}#{i}', not badr, F.where(e),
                   'every path from the store to a return passes a constant store to the field or an ordered comparison on it that '
                   'only a number satisfies' if not badr else
                   f'a NaN from the caller survives to the return on line {F.loc(badr[0])}: neither `x<lo` nor `x>hi` is true for a '
                   f'NaN, so neither clamp fires.  {R15_6_NAN_MUST[fld]}')


def r15_8(chk, P):
    from rules import c03
    chk.rule('R15.8', 'the requests that work on an existing set-up tolerate a cleared info: vorbis_encode_ctl and '
             'vorbis_encode_setup_init (and every function they pass the info on to) are analysed with codec_setup == NULL on '
             'entry (K4): no member access through the null pointer is reachable.  The one-step set-up calls leave the info '
             'cleared when they fail; a control request or the final set-up step issued after such a failure must be answered '
             'with an error code (same analysis as C03 R03.5)')
    return c03.r03_5(common.Proxy(chk, 'R15.8'), P, rule='R15.8', roots=[('vorbis_encode_ctl', 0), ('vorbis_encode_setup_init', 0)],
                     context='a one-step set-up call that failed has cleared the info; this request then dereferences NULL')


def r15_9(chk, P):
    chk.rule('R15.9', 'the stack the analysis path needs does not grow with the amount of audio submitted: no alloca reachable from '
             'vorbis_analysis_wrote / vorbis_analysis_blockout / vorbis_analysis has a size that depends (directly or through '
             'single-definition locals) on a field of the dsp state that vorbis_analysis_wrote advances by its caller-supplied '
             'count (discovered from its stores), or on that count.  One vorbis_analysis_buffer/wrote call may submit any number '
             'of samples; block-sized scratch is bounded by the block size, a copy of the whole pending buffer is not')
    W = P.need('vorbis_analysis_wrote')
    cnt = W.params[1]['id'] if len(W.params) > 1 else None
    grown = set()
    for e in W.nodes('assign'):
        nd = W.ex[e]
        l = W.ex[W.strip_casts(nd['c'][0])]
        if l['k'] == 'member' and nd['op'] in ('+=', '=') and any(W.ex[q]['k'] == 'ref' and W.ex[q]['decl'].get('id') == cnt for q in W.walk(nd['c'][1])):
            grown.add((l.get('record'), l['field']))
    chk.require(grown, 'vorbis_analysis_wrote: no field advanced by the sample count found')
    roots = [P.key(P.need(n_)) for n_ in ('vorbis_analysis_wrote', 'vorbis_analysis_blockout', 'vorbis_analysis') if P.get(n_) is not None]
    n = 0
    for k in sorted(P.reachable(roots)):
        F = P.fn.get(k)
        if F is None:
            continue
        defs = None
        for c in F.calls():
            if F.ex[c]['callee'].get('d') not in ('__builtin_alloca', 'alloca'):
                continue
            if defs is None:
                defs = common.single_defs(F)

            def tainted(e, depth=0):
                for q in F.walk(e):
                    nd = F.ex[q]
                    if nd['k'] == 'member' and (nd.get('record'), nd['field']) in grown:
                        return F.s(q)
                    if nd['k'] == 'ref' and nd['decl'].get('kind') == 'param' and F is W and nd['decl'].get('id') == cnt:
                        return F.s(q)
                    if nd['k'] == 'ref' and nd['decl'].get('kind') == 'var' and depth < 3:
                        d = defs.get(nd['decl'].get('id'))
                        if d is not None:
                            t = tainted(d, depth + 1)
                            if t:
                                return t
                return None
            t = tainted(F.ex[c]['c'][0])
            n += 1
            chk.ob('R15.9', F.name, f'alloca-size-independent-of-input-amount@{F.loc(c)}', t is None, F.where(c),
                   f'{F.s(c)[:70]}: the size does not depend on {sorted(f for _, f in grown)}' if t is None else
                   f'{F.s(c)[:70]}: the size depends on {t}, which grows with the number of samples the application submits in one '
                   'call: a large submission overflows the stack')
    return n


def r15_10(chk, P):
    chk.rule('R15.10', 'a finished set-up is not staged again: every public function of vorbisenc.c other than the final step and the '
             'control interface (which have their own rules, R13.12 and R15.4) that stores into the staged settings '
             '(highlevel_encode_setup, directly or in a file-local callee) or into vi->channels / vi->rate tests set_in_stone first: '
             'with the continuing edge of every set_in_stone test removed, no such store or storing call is reachable from the '
             'entry.  Re-staging a frozen info re-stamps the channel count and rate under tables built for the old ones')
    api = set(common.encode_api(P))
    HI = ('highlevel_encode_setup', 'highlevel_byblocktype')

    def stores_staged(G):
        for e in G.pos:
            nd = G.ex[e]
            tgt = None
            if nd['k'] == 'assign':
                tgt = nd['c'][0]
            if tgt is None:
                continue
            l = G.ex[G.strip_casts(tgt)]
            while l['k'] == 'sub':
                l = G.ex[G.strip_casts(l['c'][0])]
            if l['k'] == 'member' and (l.get('record') in HI or (l.get('record') == 'vorbis_info' and l['field'] in ('channels', 'rate'))):
                if not (l['field'] == 'set_in_stone'):
                    return True
        return False
    storing = {P.key(G) for G in P.functions() if G.file.endswith('vorbisenc.c') and stores_staged(G)}
    n = 0
    for F in P.functions():
        if not F.file.endswith('vorbisenc.c') or F.name not in api or F.name in ('vorbis_encode_ctl', 'vorbis_encode_setup_init'):
            continue
        sites = [e for e in F.pos if F.ex[e]['k'] == 'assign' and P.key(F) in storing and
                 (lambda l: l['k'] == 'member' and (l.get('record') in HI or (l.get('record') == 'vorbis_info' and l['field'] in ('channels', 'rate'))))(
                     (lambda l: l)(F.ex[F.strip_casts(F.ex[e]['c'][0])]))]
        sites += [c for c in F.calls() if any(t in storing and P.fn[t].static for t in P.call_targets(F, c))]
        if not sites:
            continue        # delegates to other public entry points only

        def reads_flag(c):
            return any(F.ex[x]['k'] == 'member' and F.ex[x]['field'] == 'set_in_stone' for x in F.walk(c))
        fb = {F.pos[e][0] for e in sites}

        def reach(b0, cut):
            seen, st = set(), [b0]
            while st:
                b = st.pop()
                if b is None or b in seen:
                    continue
                seen.add(b)
                for i_, s_ in enumerate(F.blocks[b]['succs']):
                    if (b, i_) not in cut:
                        st.append(s_)
            return seen
        cut = set()
        tests = 0
        for b, blk in F.blocks.items():
            t = blk.get('term') or {}
            if t.get('cond') is not None and len(blk['succs']) == 2 and reads_flag(t['cond']):
                tests += 1
                for i_, s_ in enumerate(blk['succs']):
                    if s_ is not None and reach(s_, set()) & fb:
                        cut.add((b, i_))
        seen = reach(F.entry, cut)
        bad = [e for e in sites if F.pos[e][0] in seen]
        n += 1
        chk.ob('R15.10', F.name, 'staging-refused-once-frozen', not bad, F.where(bad[0]) if bad else F.where(),
               f'{tests} test(s) of set_in_stone guard all {len(sites)} staging stores / calls' if not bad else
               f'`{F.s(bad[0])[:60]}` is reachable without a test of set_in_stone: the call re-stages an info whose set-up was completed')
    return n


def r15_11(chk, P):
    chk.rule('R15.11', 'a buffer that is grown on demand is grown to fit: wherever the encoder tests a need against a capacity field '
             '(`if(NEED > CAP)` / `>=`), stores a new capacity in the true branch and reallocates with it, the new capacity is at '
             'least the need that was tested -- as linear forms over the same atoms, new capacity minus need has no negative '
             'coefficient (counts and sizes are non-negative) -- or the growth is a loop that repeats until the test fails.  A '
             'capacity that is merely doubled once can still be short of a large request; the loop that follows writes up to the '
             'need')
    from rules.c19 import _linform
    n = 0
    for F in P.functions():
        if not any(F.file.endswith(x) for x in ('block.c', 'envelope.c', 'psy.c', 'bitrate.c', 'mapping0.c', 'analysis.c')):
            continue
        reallocs = [c for c in F.calls() if F.ex[c]['callee'].get('d') in ('_ogg_realloc', 'realloc')]
        if not reallocs:
            continue
        loops = cfg.loops(F)
        for b, blk in sorted(F.blocks.items()):
            t = blk.get('term') or {}
            c = t.get('cond')
            if c is None or len(blk['succs']) != 2:
                continue
            cn = F.ex[F.strip_casts(c)]
            if not (cn['k'] == 'bin' and cn['op'] in ('>', '>=')):
                continue
            cap = F.ex[F.strip_casts(cn['c'][1])]
            if cap['k'] != 'member':
                continue
            captxt = F.s(F.strip_casts(cn['c'][1]))
            # stores of the capacity controlled by the true edge of this test, followed by a realloc that reads it
            stores = []
            for e in F.nodes('assign'):
                nd = F.ex[e]
                if F.s(F.strip_casts(nd['c'][0])) != captxt:
                    continue
                if any(cc == c and pol for cc, pol in common.controlling_conditions(F, e)):
                    stores.append(e)
            if not stores:
                continue
            if not any(captxt in F.s(r_) and cfg.search(F, F.pos[stores[0]], lambda q, r_=r_: q == r_, lambda q: False) is not None for r_ in reallocs):
                continue
            need = _linform(F, cn['c'][0], {})
            looped = b in loops          # `while(need>cap)cap*=2;`
            ok = looped
            detail = 'the growth repeats until the test fails' if looped else ''
            if not looped:
                e = stores[-1]
                nd = F.ex[e]
                new = None
                if nd['op'] == '=':
                    new = _linform(F, nd['c'][1], {})
                elif nd['op'] in ('*=', '+='):
                    new = None
                if need is not None and new is not None:
                    diff = dict(new)
                    for k_, v in need.items():
                        diff[k_] = diff.get(k_, 0) - v
                    ok = all(v >= 0 for v in diff.values())
                    detail = f'new capacity - need = {({k_: str(v) for k_, v in diff.items() if v != 0}) or 0}'
                else:
                    ok = False
                    detail = f'`{F.s(e)}` is not an expression the need can be compared with'
            n += 1
            chk.ob('R15.11', F.name, f'grown-to-fit:{captxt}@{F.loc(c)}', ok, F.where(c),
                   f'`{F.s(c)}`: {detail}' if ok else
                   f'`{F.s(c)}`: {detail}: after the branch the capacity can still be below the need the loop behind it writes up to')
    return n


def r15_7(chk, P):
    chk.rule('R15.7', 'a refused control request changes nothing: on every path of vorbis_encode_ctl that ends in a negative return '
             'code no field of the staged set-up (highlevel_encode_setup and its per-block records) has been stored '
             '("set-up ... fails cleanly": the state the application sees through the GET requests is the one before the call)')
    F = P.need('vorbis_encode_ctl')
    wrote = k2.any_of(k2.stores_field('highlevel_encode_setup', None, ops=None), k2.stores_field('highlevel_byblocktype', None, ops=None))
    A, h = k2.analyse(P, F, [('wrote', wrote, True)])
    n = 0
    bad = {}
    for (e, fl, v, env) in k2.ret_value_classes(A):
        if v is None or v.hi >= 0:
            continue
        n += 1
        if 'wrote' in fl:
            bad.setdefault(e, v)
    chk.require(n >= 3, f'vorbis_encode_ctl: only {n} refusing returns seen')
    for i, e in enumerate(sorted({e for (e, fl, v, env) in k2.ret_value_classes(A) if v is not None and v.hi < 0},
                                 key=lambda x: F.ex[x]['loc'])):
        chk.ob('R15.7', F.name, f'refusal@{i}', e not in bad, F.where(e),
               'no set-up field is stored on any path to this refusal' if e not in bad else
               f'returns {bad[e]} after a field of the staged set-up was stored on the path: the request is refused but has '
               'already changed the state')



def _dnf(F, e, pol, canon):
    """condition e with truth pol as a disjunction of conjunctions of linear atoms ({term: coef}, const, op) over canonical
    location names; an atom that is not a linear comparison is dropped (weaker, so nothing unsound can be proven)"""
    e = F.strip_casts(e)
    nd = F.ex[e]
    k = nd['k']
    if k == 'un' and nd['op'] == '!':
        return _dnf(F, nd['c'][0], not pol, canon)
    if k == 'bin' and nd['op'] in ('&&', '||'):
        a, b = _dnf(F, nd['c'][0], pol, canon), _dnf(F, nd['c'][1], pol, canon)
        conj = (nd['op'] == '&&') == pol
        if conj:
            return [x + y for x in a for y in b][:64]
        return (a + b)[:64]

    def lin(x):
        x = F.strip_casts(x)
        xn = F.ex[x]
        if xn['k'] == 'int':
            return ({}, xn['v'])
        if xn['k'] == 'flt' and float(xn['v']).is_integer():
            return ({}, int(xn['v']))
        if xn['k'] in ('member', 'ref'):
            return ({canon(x): 1}, 0)
        return None
    if k == 'bin' and nd['op'] in ('<', '<=', '>', '>=', '==', '!='):
        a, b = lin(nd['c'][0]), lin(nd['c'][1])
        if a is None or b is None:
            return [[]]
        op = nd['op']
        if not pol:
            op = {'<': '>=', '<=': '>', '>': '<=', '>=': '<', '==': '!=', '!=': '=='}[op]
        d = dict(a[0])
        for t, c in b[0].items():
            d[t] = d.get(t, 0) - c
        if op == '!=':
            return [[(d, b[1] - a[1], '<')], [(d, b[1] - a[1], '>')]]
        return [[(d, b[1] - a[1], op)]]
    if k in ('member', 'ref'):
        # truth of an integer location: != 0
        if pol:
            return [[({canon(e): 1}, 0, '>')], [({canon(e): 1}, 0, '<')]]
        return [[({canon(e): 1}, 0, '==')]]
    return [[]]


def r15_13(chk, P):
    chk.rule('R15.13', 'the hard limits reach the bitrate manager ordered: where a function stores both bitrate_manager_info.min_rate and '
             '.max_rate from values that are not constants, the branch conditions that control the stores entail '
             '"managed and both limits positive implies min <= max" (conditions expanded to a disjunction of linear conjunctions, '
             'each refuted exactly with linrel).  vorbis_bitrate_addblock pads every packet up to the minimum and books the excess over '
             'the maximum into the reservoir; with min > max the fill passes the reservoir size, the truncation length goes '
             'negative and oggpack_writetrunc writes before the packet buffer (findings/replay_hard_min_above_max.c).  Only '
             'OV_ECTL_RATEMANAGE2_SET checks the pair where it is given')
    import linrel
    n = 0
    for F in P.functions():
        st = {}
        for e in F.nodes('assign'):
            nd = F.ex[e]
            l = F.ex[F.strip_casts(nd['c'][0])]
            if nd['op'] == '=' and l['k'] == 'member' and l.get('record') == 'bitrate_manager_info' and l['field'] in ('min_rate', 'max_rate') \
                    and common.const_val(F, nd['c'][1]) is None:
                st[l['field']] = e
        if len(st) != 2:
            continue

        def canon(x):
            return F.s(F.strip_casts(x))
        smin, smax = canon(F.ex[st['min_rate']]['c'][1]), canon(F.ex[st['max_rate']]['c'][1])
        site = max(st.values(), key=lambda x: F.loc(x))
        disj = [[]]
        for c, pol in common.guard_conditions(F, site):
            # operands must not be stored between the test and the site
            txt = {canon(q) for q in F.walk(c) if F.ex[q]['k'] in ('member', 'ref')}

            def mod(q, txt=txt):
                qn = F.ex[q]
                return qn['k'] == 'assign' and canon(qn['c'][0]) in txt
            if any(cfg.search(F, F.pos[c], lambda q, m=m: q == m, lambda q: q == site or q == c) is not None and
                   cfg.search(F, F.pos[m], lambda q: q == site, lambda q: q == c) is not None for m in [q for q in F.pos if mod(q)]):
                continue
            d2 = _dnf(F, c, pol, canon)
            disj = [x + y for x in disj for y in d2][:256]
        proven = True
        for conj in disj:
            p_ = linrel.Poly()
            p_.add_ge({smin: 1}, 1).add_ge({smax: 1}, 1).add_ge({smin: 1, smax: -1}, 1)      # both positive and min > max
            for (d, cst, op) in conj:
                if op == '<':
                    p_.add(d, cst - 1)
                elif op == '<=':
                    p_.add(d, cst)
                elif op == '>':
                    p_.add_ge(d, cst + 1)
                elif op == '>=':
                    p_.add_ge(d, cst)
                elif op == '==':
                    p_.add_eq(d, cst)
            if not p_.empty():
                proven = False
                break
        n += 1
        chk.ob('R15.13', F.name, 'hard-limits-ordered-at-the-manager', proven, F.where(site),
               f'min_rate <- `{smin}`, max_rate <- `{smax}`: ' + ('the controlling conditions exclude min > max with both positive' if proven else
               'nothing on the way to these stores excludes a hard minimum above the hard maximum: vorbis_encode_setup_managed and '
               'OV_ECTL_RATEMANAGE_HARD hand their arguments through unchecked'))
    return n

# ---- R15.1 -------------------------------------------------------------------------------------------------------------------
_R15_1 = {}


def _r15_1_one(tname):
    import tmpl
    P, roots, fields = _R15_1['P'], _R15_1['roots'], _R15_1['fields']
    try:
        ctx = tmpl.analyse_template(P, tname, roots, fields)
    except AnalysisBroken as x:
        return tname, None, str(x), None, None
    out = []
    for (fk, e), o in ctx['obs'].items():
        out.append((fk, e, o['ok'], absint.fmt(o['idx'].lo), absint.fmt(o['idx'].hi), o['ext'], sorted(o['what'])[:3], o['deref']))
    return tname, out, None, sorted(ctx['lemmas']), (ctx['M'], sorted(ctx['analysed']))


def _setting_fields(chk, P):
    """the fields that carry a setting: base_setting itself (stored only from get_setup_template's out-parameter) and every
    field that is only ever assigned a copy of it"""
    recs = ('highlevel_encode_setup', 'highlevel_byblocktype')
    copies, other = {}, {}
    base_stores = []
    for F in P.functions():
        for n, nd in F.ex.items():
            if nd['k'] != 'assign' or n not in F.pos:
                continue
            l = F.ex[F.strip_casts(nd['c'][0])]
            if l['k'] != 'member' or l.get('record') not in recs:
                continue
            key = (l['record'], l['field'])
            r = F.ex[F.strip_casts(nd['c'][1])]
            if key == ('highlevel_encode_setup', 'base_setting'):
                base_stores.append((F, n))
                continue
            if nd['op'] == '=' and r['k'] == 'member' and (r.get('record'), r.get('field')) == ('highlevel_encode_setup', 'base_setting'):
                copies.setdefault(key, []).append((F, n))
            else:
                other.setdefault(key, []).append((F, n))
    fields = [('highlevel_encode_setup', 'base_setting')] + sorted(k for k in copies if k not in other)
    # base_setting: written through &hi->base_setting handed to get_setup_template, or from a local that was
    G = P.need('get_setup_template')
    outp = None
    for i, p in enumerate(G.params):
        if p['t'].replace(' ', '') == 'double*':
            outp = i
    chk.require(outp is not None, 'get_setup_template has no double* out-parameter for the setting')
    nsrc = 0
    for F in P.functions():
        for c in F.calls('get_setup_template'):
            nsrc += 1
    for F, n in base_stores:
        r = F.ex[F.strip_casts(F.ex[n]['c'][1])]
        ok = False
        if F.ex[n]['op'] == '=' and r['k'] == 'ref' and r['decl'].get('kind') == 'var':
            for c in F.calls('get_setup_template'):
                a = F.ex[F.strip_casts(F.ex[c]['c'][outp])]
                if a['k'] == 'un' and a['op'] == '&':
                    t = F.ex[F.strip_casts(a['c'][0])]
                    if t['k'] == 'ref' and t['decl'] == r['decl']:
                        ok = True
        chk.ob('R15.1', F.name, f'setting-from-template-lookup#{base_stores.index((F, n))}', ok, F.where(n),
               'hi->base_setting is stored from the setting get_setup_template computed for the template' if ok else
               f'hi->base_setting is stored from {F.s(F.ex[n]["c"][1])}, which is not a setting computed by get_setup_template')
    chk.require(nsrc >= 2, 'get_setup_template is no longer called by the set-up entry points')
    return fields


def r15_1(chk, P):
    chk.rule('R15.1', 'template table extents cover every index set-up can form: for every template of setup_list (a constant '
             'initialiser, evaluated by the front end) K4 is run over vorbis_encode_setup_init, vorbis_encode_setup_setting, '
             'setting_to_approx_bitrate and the helpers they call with an abstract pointer domain over the constant mode tables; '
             'every subscript, `->` and memcpy source that goes through a pointer into those tables is an obligation: the index '
             'interval lies inside the extent of the array the pointer designates in that template.  Indices are the integer '
             'part of a setting (`x[is]`, `x[is+1]`), loop counters bounded by template counts, and values read from the tables '
             'themselves (`in+(int)x[is]`, the interpolated compander / global-psy index).  Premise: every setting lies in '
             '[0, mappings-0.001] (what get_setup_template stores, R15.2; every other setting field is only ever a copy of '
             'base_setting, checked here).  Lemmas: CONVEX (a*(1-d)+b*d with d in [0,1] stays in the hull of a and b -- real '
             'arithmetic; rounding of the interpolation is not modelled), FRAC (integer and fractional part of a non-negative '
             'value).  Not decided: floor book lists reached through the heap copy of a floor template (`books[x[is]][i]`)')
    import multiprocessing
    g = None
    for cand in P.globals.get('setup_list', []):
        if 'init' in cand:
            g = cand
    chk.require(g is not None, 'setup_list has no evaluated initialiser')
    names = [el['name'] for el in g['init']['elems'] if isinstance(el, dict) and el.get('kind') == 'ref']
    chk.require(len(names) >= 10, f'setup_list names only {len(names)} templates')
    fields = _setting_fields(chk, P)
    chk.require(len(fields) >= 5, f'only {len(fields)} setting fields found')
    roots = [r for r in ('vorbis_encode_setup_init', 'vorbis_encode_setup_setting', 'setting_to_approx_bitrate') if P.get(r)]
    chk.require('vorbis_encode_setup_init' in roots, 'vorbis_encode_setup_init not found')
    _R15_1.update(P=P, roots=roots, fields=fields)
    with multiprocessing.get_context('fork').Pool(min(16, len(names))) as pool:
        res = pool.map(_r15_1_one, names)
    sites = {}
    lem = set()
    for tname, out, err, lemmas, info in res:
        chk.require(err is None, f'R15.1: {err}')
        lem |= set(lemmas)
        chk.require(len(out) >= 60, f'template {tname}: only {len(out)} table accesses were followed')
        for (fk, e, ok, lo, hi, ext, what, deref) in out:
            sites.setdefault((fk, e), []).append((tname, ok, lo, hi, ext, what, deref))
    chk.require({'CONVEX', 'FRAC'} <= lem, 'the interpolated table indices were not met (lemmas CONVEX/FRAC unused)')
    ordn = {}
    for (fk, e), lst in sorted(sites.items(), key=lambda kv: (kv[0][0], P.fn[kv[0][0]].ex[kv[0][1]].get('loc') or [0, 0], kv[0][1])):
        F = P.fn[fk]
        txt = F.s(e, names=False)
        i = ordn.get((fk, txt), 0)
        ordn[(fk, txt)] = i + 1
        bad = [x for x in lst if not x[1]]
        if bad:
            t, _, lo, hi, ext, what, deref = bad[0]
            msg = (f'{F.s(e)}: in template {t} the index is [{lo},{hi}] but the table {what[0]} has {ext} element(s)'
                   + (f' ({len(bad)} templates in all: {", ".join(b[0] for b in bad[:6])})' if len(bad) > 1 else ''))
        else:
            msg = f'{F.s(e)}: inside the table in all {len(lst)} template contexts (e.g. {lst[0][0]}: [{lst[0][2]},{lst[0][3]}] of {lst[0][4]})'
        chk.ob('R15.1', F.name, f'table-index:{txt}#{i}', not bad, F.where(e), msg)
    for fn, why in (('vorbis_encode_compand_setup', 'compander'), ('vorbis_encode_global_psych_setup', 'global psy')):
        if P.get(fn):
            chk.assumed('R15.1', fn, 'interpolated-index-rounding', P.get(fn).where(),
                        f'the {why} index is the integer part of x[is]*(1-ds)+x[is+1]*ds; in real arithmetic it stays in the hull of the '
                        'two table values (lemma CONVEX); in double arithmetic a*(1-d)+a*d can exceed a by one ulp when d has '
                        'more than ~29 significant bits below 2^-29 -- the setting fraction is a `float` quotient here, for which the '
                        'products are exact (checked exhaustively for all float qualities in [0.5,1) outside this tool)')
    return len(sites)


def r15_15(chk, P, rule='R15.15'):
    chk.rule(rule, 'the encoder\'s submission path forms no pointer in front of a buffer it has just allocated: in the functions of '
             'block.c reachable from vorbis_analysis_wrote, every pointer computed from a local that holds the result of an allocation '
             'in the same function (`work + a - b - c`) has a total offset that the if-conditions on the way make non-negative '
             '(offset and conditions are linear forms over fields and constants; exact linear domain).  The pre-extrapolation primes '
             'its predictor from the samples in front of the block centre: with fewer than `order` samples submitted that is in front '
             'of the buffer')
    import linrel
    W = P.need('vorbis_analysis_wrote')
    keys = [P.key(W)] + sorted(P.reachable([P.key(W)]))
    n = 0
    for k_ in keys:
        F = P.fn.get(k_)
        if F is None or F.entry is None or not F.file.endswith('block.c'):
            continue
        defs = common.single_defs(F)
        heap = set()
        for e in F.nodes('assign'):
            nd = F.ex[e]
            l, r = F.ex[F.strip_casts(nd['c'][0])], F.ex[F.strip_casts(nd['c'][1])]
            if nd['op'] == '=' and l['k'] == 'ref' and l['decl'].get('kind') == 'var' and r['k'] == 'call' and \
                    r['callee'].get('d') in ('malloc', 'calloc', 'realloc'):
                heap.add(l['decl']['id'])
        if not heap:
            continue

        def lin(e, depth=0):
            e = F.strip_casts(e)
            nd = F.ex[e]
            k = nd['k']
            if k == 'paren':
                return lin(nd['c'][0], depth)
            cv = common.const_val(F, e)
            if isinstance(cv, int):
                return {}, cv
            if k == 'ref' and nd['decl'].get('kind') == 'var' and nd['decl']['id'] in defs and depth < 3:
                return lin(defs[nd['decl']['id']], depth + 1)
            if k == 'member':
                return {F.s(e).replace(' ', ''): 1}, 0
            if k == 'ref' and nd['decl'].get('kind') in ('param', 'var'):
                return {'v%d' % nd['decl']['id']: 1}, 0
            if k == 'bin' and nd['op'] in ('+', '-'):
                a, b = lin(nd['c'][0], depth), lin(nd['c'][1], depth)
                if a is None or b is None:
                    return None
                sg = 1 if nd['op'] == '+' else -1
                d = dict(a[0])
                for v, q in b[0].items():
                    d[v] = d.get(v, 0) + sg * q
                return d, a[1] + sg * b[1]
            if k == 'bin' and nd['op'] == '*':
                for x, y in ((nd['c'][0], nd['c'][1]), (nd['c'][1], nd['c'][0])):
                    cx = common.const_val(F, x)
                    ly = lin(y, depth)
                    if isinstance(cx, int) and ly is not None:
                        return {v: q * cx for v, q in ly[0].items()}, ly[1] * cx
            return None

        def ptr_offset(e):
            """(base var id, linear offset) of a pointer expression rooted at a heap local, else None"""
            e = F.strip_casts(e)
            nd = F.ex[e]
            if nd['k'] == 'paren':
                return ptr_offset(nd['c'][0])
            if nd['k'] == 'ref' and nd['decl'].get('id') in heap:
                return nd['decl']['id'], ({}, 0)
            if nd['k'] == 'bin' and nd['op'] in ('+', '-') and nd.get('t', '').endswith('*'):
                for x, y in ((nd['c'][0], nd['c'][1]), (nd['c'][1], nd['c'][0])):
                    if nd['op'] == '-' and x != nd['c'][0]:
                        continue
                    b = ptr_offset(x)
                    o = lin(y)
                    if b is not None and b[1] is not None and o is not None:
                        sg = 1 if nd['op'] == '+' else -1
                        d = dict(b[1][0])
                        for v, q in o[0].items():
                            d[v] = d.get(v, 0) + sg * q
                        return b[0], (d, b[1][1] + sg * o[1])
                    if b is not None:
                        return b[0], None
            return None
        tops = []
        for e in sorted(F.pos):
            nd = F.ex[e]
            if nd['k'] == 'bin' and nd['op'] in ('+', '-') and nd.get('t', '').endswith('*'):
                p_ = F.sparent.get(e)
                while p_ is not None and F.ex[p_]['k'] in ('cast', 'paren'):
                    p_ = F.sparent.get(p_)
                if p_ is not None and F.ex[p_]['k'] == 'bin' and F.ex[p_]['op'] in ('+', '-') and F.ex[p_].get('t', '').endswith('*'):
                    continue        # not maximal
                po_ = ptr_offset(e)
                if po_ is not None:
                    tops.append((e, po_))
        for i_, (e, (base, off)) in enumerate(tops):
            ok = False
            why = 'the offset is not a linear form'
            if off is not None:
                po = linrel.Poly()
                for c, pol in common.atomic_conditions(F, e):
                    cn = F.ex[F.strip_casts(c)]
                    if cn['k'] != 'bin' or cn['op'] not in ('<', '<=', '>', '>='):
                        continue
                    a, b = lin(cn['c'][0]), lin(cn['c'][1])
                    if a is None or b is None:
                        continue
                    op = cn['op']
                    if not pol:
                        op = {'<': '>=', '<=': '>', '>': '<=', '>=': '<'}[op]
                    d = dict(a[0])
                    for v, q in b[0].items():
                        d[v] = d.get(v, 0) - q
                    k0 = b[1] - a[1]
                    if op == '<=':
                        po.add(d, k0)
                    elif op == '<':
                        po.add(d, k0 - 1)
                    elif op == '>=':
                        po.add_ge(d, k0)
                    else:
                        po.add_ge(d, k0 + 1)
                ok = po.entails_ge(off[0], -off[1])
                why = 'the conditions on the way make it non-negative' if ok else 'the conditions on the way do not keep it from being negative'
            n += 1
            chk.ob(rule, F.name, f'pointer-inside-own-buffer#{i_}', ok, F.where(e), f'`{F.s(e)[:70]}`: offset {off}: {why}')
    return n


def run(chk, P):
    r15_1(chk, P)
    chk.floor('R15.1', 100)
    r15_7(chk, P)
    chk.floor('R15.7', 3)
    r15_8(chk, P)
    chk.floor('R15.8', 2)
    r15_9(chk, P)
    chk.floor('R15.9', 10)
    r15_10(chk, P)
    chk.floor('R15.10', 2)
    r15_11(chk, P)
    chk.floor('R15.11', 2)
    from rules import c05
    chk.rule('R15.12', 'a managed set-up that was accepted encodes without leaving the block: the packet-size search of '
             'vorbis_bitrate_addblock keeps every packetblob subscript inside the array (same obligations as R05.11; the hard '
             'minimum / maximum a set-up may carry drive the search to either end)')
    c05.r05_11(common.Proxy(chk, 'R15.12'), P, rule='R15.12')
    chk.floor('R15.12', 6)
    r15_13(chk, P)
    chk.floor('R15.13', 1)
    chk.rule('R15.14', 'the packet a managed set-up hands out is one of the encodings of the block: every value stored in '
             'bitrate_manager_state.choice lies in [0,PACKETBLOBS) and vorbis_bitrate_flushpacket subscripts packetblob[] inside the '
             'array (same obligations as R05.6) -- a hard minimum on quiet input drives the search to the top of the table')
    c05.r05_6(common.Proxy(chk, 'R15.14'), P)
    chk.floor('R15.14', 2)
    r15_15(chk, P)
    chk.floor('R15.15', 2)
    r15_2(chk, P)
    chk.floor('R15.2', 8)
    r15_3(chk, P)
    chk.floor('R15.3', 2)
    r15_4(chk, P)
    chk.floor('R15.4', 10)
    r15_5(chk, P)
    chk.floor('R15.5', 150)
    r15_6(chk, P)
    chk.floor('R15.6', 5)
    import k4rules
    if hasattr(k4rules, 'c15'):
        k4rules.c15(chk, P)
    chk.trusted += ['clang 14 front end', 'K4 intervals']
    return ('Value-range and path rules over the encoder set-up functions decide that argument validation precedes every use, '
            'failed one-step inits clear the info structure, and the control interface cannot change a frozen set-up. '
            'Template extents and fixed-extent indexing are decided by the range analysis (R15.1/R15.5). Memory safety of the '
            'per-block encoder DSP is not decided.')
