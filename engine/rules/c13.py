"""C13 — clear functions release everything on success and on every error path (partial, DESIGN 4/C13).

Decided (K6 ownership analysis over all three libraries, engine/k6.py, plus K1/K2 rules):
  R13.1 every object a function acquires (allocator result, fresh object returned by a callee, local aggregate made live
        by an init function or filled by a callee, memory a callee leaves in a local pointer cell) is released, handed
        over or returned on every path to every exit;
  R13.2 every struct field that receives owned memory anywhere is released by its record's release function;
  R13.3 a field that is freed is reset (or its object wiped/freed) before the function returns, and the public clear
        functions finish by wiping their object: a second clear is harmless;
  R13.4 an owning slot is provably empty when fresh memory is stored into it;
  R13.6 static (shared, const) codebooks are never freed;
  R13.7 the close callback has one guarded call site (shared with R12.3).
Not decided: aliasing through untyped back-pointers beyond the field tables (DESIGN 3.3/K6)."""
import absint
import cfg
import k2
import k6
import k8
from absint import V
from facts import AnalysisBroken
from rules import common

# record -> designated release function (DESIGN 3.3/K6b); one line of reason each
RELEASE_OF = {
    'vorbis_comment': 'vorbis_comment_clear',
    'vorbis_info': 'vorbis_info_clear',
    'codec_setup_info': 'vorbis_info_clear',                 # owned by vorbis_info.codec_setup
    'vorbis_dsp_state': 'vorbis_dsp_clear',
    'private_state': 'vorbis_dsp_clear',                     # owned by vorbis_dsp_state.backend_state
    'vorbis_block': 'vorbis_block_clear',
    'vorbis_block_internal': 'vorbis_block_clear',           # owned by vorbis_block.internal
    'codebook': 'vorbis_book_clear',
    'static_codebook': 'vorbis_staticbook_destroy',
    'vorbis_look_floor0': 'floor0_free_look',
    'vorbis_look_floor1': 'floor1_free_look',
    'vorbis_look_residue0': 'res0_free_look',
    'vorbis_look_psy': '_vp_psy_clear',
    'envelope_lookup': '_ve_envelope_clear',
    'envelope_band': '_ve_envelope_clear',                   # embedded in envelope_lookup
    'mdct_lookup': 'mdct_clear',
    'drft_lookup': 'drft_clear',
    'OggVorbis_File': 'ov_clear',
    'bitrate_manager_state': 'vorbis_bitrate_clear',
    'vorbis_look_psy_global': '_vp_global_free',
}
# fields that receive a pointer to owned memory without owning it: (record, field) -> reason
NON_OWNING = {
    ('ogg_packet', 'packet'): 'the header packets handed out by vorbis_analysis_headerout point into b->header*, which '
                              'private_state owns and vorbis_dsp_clear frees; vorbis_commentheader_out documents that the '
                              'caller frees its packet',
}
PUBLIC_CLEARS = ['vorbis_info_clear', 'vorbis_comment_clear', 'vorbis_dsp_clear', 'vorbis_block_clear', 'ov_clear',
                 'vorbis_book_clear']


def freeing_sites(P, K):
    """function key -> set of (record, field) classes whose memory the function releases: free(x->f), release call on
    x->f / &x->f[i] / x->f+i, or x->f passed to a callee that frees that parameter"""
    out = {}
    for F in P.functions():
        s = set()
        for c in F.calls():
            nd = F.ex[c]
            d = nd['callee'].get('d')
            args = nd.get('c', [])
            idxs = []
            if d == 'free' or d in k6.ALL_RELEASE:
                idxs = [0]
            else:
                for t in P.call_targets(F, c):
                    if not t.startswith(('ext:', 'cb:', 'unk:')):
                        idxs += list(K.k3summ(t)['frees'])
            for i in set(idxs):
                if i < len(args):
                    s |= root_members(F, args[i])
        out[P.key(F)] = s
    return out


def local_defs(F):
    """local var id -> list of expressions assigned to it anywhere (declaration initialiser or '=')"""
    d = getattr(F, '_local_defs', None)
    if d is None:
        d = {}
        for n in F.pos:
            nd = F.ex[n]
            if nd['k'] == 'decl':
                for v in nd['vars']:
                    if 'id' in v and v.get('init'):
                        d.setdefault(v['id'], []).append(v['init'])
            elif nd['k'] == 'assign' and nd['op'] == '=':
                l = F.ex[F.strip_casts(nd['c'][0])]
                if l['k'] == 'ref' and l['decl']['kind'] == 'var':
                    d.setdefault(l['decl']['id'], []).append(nd['c'][1])
        F._local_defs = d
    return d


def root_members(F, e, depth=0):
    """(record, field) classes an argument expression may be rooted in: x->f, x->f[i], &x->f[i], x->f+i, *(x->f+i), or a
    local that was assigned from such a path (`reap=vb->reap; ... free(reap)`)"""
    n = F.ex[F.strip_casts(e)]
    for _ in range(8):
        k = n['k']
        if k == 'member' and 'record' in n:
            return {(n['record'], n['field'])}
        if k == 'sub':
            n = F.ex[F.strip_casts(n['c'][0])]
        elif k == 'un' and n['op'] in ('&', '*'):
            n = F.ex[F.strip_casts(n['c'][0])]
        elif k == 'bin' and n['op'] in ('+', '-'):
            n = F.ex[F.strip_casts(n['c'][0])]
        elif k == 'assign':
            n = F.ex[F.strip_casts(n['c'][1])]
        elif k == 'ref' and n['decl']['kind'] == 'var' and depth < 3:
            out = set()
            for d in local_defs(F).get(n['decl']['id'], []):
                out |= root_members(F, d, depth + 1)
            return out
        else:
            return set()
    return set()


def root_member(F, e):
    r = root_members(F, e)
    return sorted(r)[0] if r else None


# ---------------------------------------------------------------------------------------------------------
def r13_1(chk, P, K):
    chk.rule('R13.1', 'every object a function acquires -- the result of malloc/calloc/realloc, a fresh object returned by a repo '
             'function, a local aggregate made live by its init function or filled by a callee, memory a callee leaves in a '
             'local pointer cell -- is, on every path to every exit of the function, freed/cleared, stored into memory that '
             'outlives the frame, or returned.  The analysis is path-sensitive in the set of owned objects and splits the '
             'state by the result class of callees whose effect on the caller\'s objects depends on their result')
    res = K.analyse_all()
    n = 0
    for k in sorted(res):
        r = res[k]
        F = P.fn[k]
        if 'error' in r:
            raise AnalysisBroken(f'K6 failed on {k}: {r["error"]}')
        for o in sorted(r['objects']):
            d = r['objects'][o]
            n += 1
            ok = not d['leaks']
            chk.ob('R13.1', k, d['what'], ok, d['where'] if d['where'] else F.where(),
                   'released, handed over or returned on every path' if ok else
                   f'still owned when the function returns at line(s) {d["leaks"]}: leaked on that path')
        for (where, cont, ms) in r['shallow']:
            chk.ob('R13.1', k, f'shallow-free:{cont}', False, where, f'{cont} is freed while it still owns {ms}')
    return res


def r13_2(chk, P, K, res):
    chk.rule('R13.2', 'every struct field that receives owned memory anywhere in the three libraries (derived from the stores the '
             'ownership analysis saw) is released by the designated release function of its record, directly or in a function '
             'that release function reaches')
    fs = freeing_sites(P, K)
    sinks = {}
    for k, r in res.items():
        for s in r.get('sinks', ()):
            sinks.setdefault(tuple(s), set()).add(k)
    reach = {}
    for (rec, fld) in sorted(sinks):
        if (rec, fld) in NON_OWNING:
            chk.assumed('R13.2', rec, fld, P.fn[sorted(sinks[(rec, fld)])[0]].where(), NON_OWNING[(rec, fld)])
            continue
        rel = RELEASE_OF.get(rec)
        if rel is None:
            owners = sorted(k for k, s in fs.items() if (rec, fld) in s)
            chk.ob('R13.2', rec, fld, bool(owners), P.fn[sorted(sinks[(rec, fld)])[0]].where(),
                   f'no release function is designated for {rec}; freed in {owners}' if owners else
                   f'{rec}.{fld} receives owned memory in {sorted(sinks[(rec, fld)])} and nothing frees it')
            continue
        R = P.need(rel)
        if rel not in reach:
            par = P.reachable([P.key(R)])
            reach[rel] = {k for k in par if not k.startswith(('ext:', 'cb:', 'unk:'))}
        hit = sorted(k for k in reach[rel] if (rec, fld) in fs.get(k, ()))
        chk.ob('R13.2', rec, fld, bool(hit), R.where(),
               f'released in {hit} (reached from {rel})' if hit else
               f'{rec}.{fld} receives owned memory in {sorted(sinks[(rec, fld)])} but {rel} (and what it calls) never frees it')


def r13_3(chk, P, K):
    chk.rule('R13.3', '(a) every public clear function ends, on every path on which its object pointer is non-null, with '
             'memset(obj,0,sizeof *obj) after its last free; (b) wherever a field (not a local) is freed or released, every path '
             'to the function exit re-assigns that field, or wipes / frees / releases the object that contains it: no dangling '
             'pointer survives the function, which is what makes a repeated clear harmless')
    # (a)
    for fn in PUBLIC_CLEARS:
        F = P.need(fn)
        pid = F.params[0]['id']

        def wipes(A, env, e, pid=pid):
            nd = A.ex[e]
            if nd['k'] != 'call' or nd['callee'].get('d') != 'memset':
                return False
            a = A.ex[A.F.strip_casts(nd['c'][0])]
            z = A.ex[A.F.strip_casts(nd['c'][1])]
            return a['k'] == 'ref' and a['decl'].get('id') == pid and z['k'] == 'int' and z['v'] == 0

        def frees(A, env, e):
            nd = A.ex[e]
            return nd['k'] == 'call' and (nd['callee'].get('d') == 'free')
        A, h = k2.analyse(P, F, [('wiped', wipes, True), ('wiped', frees, False)])
        bad = []
        states = K.exit_states(A, F)
        for (e, env, v) in states:
            fl = env.get('$flags', frozenset())
            pv = env.get(f'v{pid}')
            if 'wiped' in fl:
                continue
            if isinstance(pv, V) and pv.nn is False:
                continue
            bad.append(e)
        chk.require(states, f'{fn}: no exit state')
        chk.ob('R13.3', fn, 'ends-with-wipe', not bad, F.where(bad[0]) if bad and bad[0] else F.where(),
               'every exit with a non-null object is reached after memset(obj,0,...) with no free after it' if not bad else
               'an exit is reachable on which the object is not wiped after the last free: a second clear would free again')
    # (b)
    n = 0
    for F in P.functions():
        k = P.key(F)
        for c in sorted(F.calls(), key=lambda x: F.ex[x]['loc']):
            nd = F.ex[c]
            d = nd['callee'].get('d')
            args = nd.get('c', [])
            if not args:
                continue
            if not (d == 'free' or d in k6.ALL_RELEASE or any((not t.startswith(('ext:', 'cb:', 'unk:'))) and 0 in K.k3summ(t)['frees']
                                                                for t in P.call_targets(F, c))):
                continue
            a0 = F.strip_casts(args[0])
            an = F.ex[a0]
            # only frees of a field (or element of a field) named directly
            tgt = an
            el = False
            while tgt['k'] == 'sub':
                tgt = F.ex[F.strip_casts(tgt['c'][0])]
                el = True
            if tgt['k'] != 'member' or 'record' not in tgt:
                continue
            if d in k6.ALL_RELEASE:
                continue          # release functions wipe their own object (R13.3a)
            rec, fld = tgt['record'], tgt['field']
            base = F.ex[F.strip_casts(tgt['c'][0])]
            n += 1

            def settles(nn, rec=rec, fld=fld, base=base, F=F):
                x = F.ex[nn]
                if x['k'] == 'assign':
                    l = F.ex[F.strip_casts(x['c'][0])]
                    while l['k'] == 'sub':
                        l = F.ex[F.strip_casts(l['c'][0])]
                    if l['k'] == 'member' and l.get('record') == rec and l['field'] == fld:
                        return True
                if x['k'] == 'call':
                    dd = x['callee'].get('d')
                    if dd in ('memset', 'free') or dd in k6.ALL_RELEASE or dd in ('res0_free_info', 'floor0_free_info', 'floor1_free_info', 'mapping0_free_info'):
                        aa = x.get('c', [])
                        if aa:
                            r0 = F.ex[F.strip_casts(aa[0])]
                            if r0['k'] == 'un' and r0['op'] == '&':
                                r0 = F.ex[F.strip_casts(r0['c'][0])]
                            # the containing object (same base variable, or the record that embeds it)
                            if r0['k'] == 'ref' and base['k'] == 'ref' and r0['decl'].get('id') == base['decl'].get('id'):
                                return True
                            if r0['k'] == 'ref' and r0['decl'].get('kind') in ('var', 'param') and _contains(F, base, r0):
                                return True
                            # the freed field's object is itself only reachable through the wiped object
                            # (private_state *b=v->backend_state; ...; memset(v,0,sizeof(*v)))
                            if dd == 'memset' and base['k'] == 'ref' and base['decl'].get('kind') == 'var':
                                dv = common.single_defs(F).get(base['decl']['id'])
                                if dv is not None and r0['k'] == 'ref' and _contains(F, F.ex[F.strip_casts(dv)], r0):
                                    return True
                return False
            path = cfg.reaches_exit_avoiding(F, F.pos[c], settles)
            via = ''
            if path is not None and F.static and base['k'] == 'ref' and base['decl'].get('kind') == 'param':
                # a file-local helper may leave the pointer behind when every caller goes on to wipe / free / release the
                # object it passed (the release function that was split into helpers)
                pidx = next((i for i, p_ in enumerate(F.params) if p_['id'] == base['decl'].get('id')), None)
                sites = [(G, cc) for G in P.functions() for cc in G.calls(F.name) if P.get(F.name, G) is F]
                if pidx is not None and sites and not _address_taken(P, F):
                    if all(_caller_settles(P, G, cc, pidx) for (G, cc) in sites):
                        path = None
                        via = f' (by each of the {len(sites)} callers of this file-local helper, after the call)'
            same = [x for x in sorted(F.calls(d), key=lambda x: F.ex[x]['loc']) if root_member(F, F.ex[x].get('c', [0])[0]) == (rec, fld)] if d else [c]
            chk.ob('R13.3', k, f'reset-after-free:{rec}.{fld}#{same.index(c) if c in same else 0}', path is None, F.where(c),
                   'the field is re-assigned or its object wiped/freed on every path to the exit' + via if path is None else
                   f'{F.s(a0)} is freed and the function can return with the stale pointer still in the field',
                   path=cfg.block_lines(F, path) if path else None)
    return n


def _address_taken(P, F):
    for G in P.functions():
        for n, nd in G.ex.items():
            if nd['k'] == 'ref' and nd['decl'].get('kind') == 'fn' and nd['decl'].get('name') == F.name and P.get(F.name, G) is F:
                p_ = G.sparent.get(n)
                if not (p_ and G.ex[p_]['k'] == 'call' and G.ex[p_].get('fnexpr') == n):
                    return True
    return False


def _caller_settles(P, G, cc, pidx, depth=0):
    """after call cc in G, is the object passed as argument pidx wiped / freed / released on every path to G's exit?"""
    args = G.ex[cc].get('c', [])
    if pidx >= len(args):
        return False
    actual = G.ex[G.strip_casts(args[pidx])]

    def settles(nn):
        x = G.ex[nn]
        if x['k'] != 'call':
            return False
        dd = x['callee'].get('d')
        if not (dd in ('memset', 'free') or dd in k6.ALL_RELEASE):
            return False
        aa = x.get('c', [])
        if not aa:
            return False
        r0 = G.ex[G.strip_casts(aa[0])]
        if r0['k'] == 'un' and r0['op'] == '&':
            r0 = G.ex[G.strip_casts(r0['c'][0])]
        if r0['k'] != 'ref' or r0['decl'].get('kind') not in ('var', 'param'):
            return False
        if _contains(G, actual, r0):
            return True
        if actual['k'] == 'ref' and actual['decl'].get('kind') == 'var':
            dv = common.single_defs(G).get(actual['decl']['id'])
            if dv is not None and _contains(G, G.ex[G.strip_casts(dv)], r0):
                return True
        return False
    if cfg.reaches_exit_avoiding(G, G.pos[cc], settles) is None:
        return True
    if depth < 2 and G.static and actual['k'] == 'ref' and actual['decl'].get('kind') == 'param' and not _address_taken(P, G):
        pj = next((i for i, p_ in enumerate(G.params) if p_['id'] == actual['decl'].get('id')), None)
        sites = [(H, c2) for H in P.functions() for c2 in H.calls(G.name) if P.get(G.name, H) is G]
        return pj is not None and bool(sites) and all(_caller_settles(P, H, c2, pj, depth + 1) for (H, c2) in sites)
    return False


def _contains(F, base, obj):
    """is expression `base` a path that starts at variable obj (obj->a.b...)"""
    n = base
    for _ in range(8):
        if n['k'] == 'ref':
            return n['decl'].get('id') == obj['decl'].get('id')
        if n['k'] in ('member', 'sub', 'cast') or (n['k'] == 'un' and n['op'] in ('&', '*')):
            n = F.ex[F.strip_casts(n['c'][0])]
        else:
            return False
    return False


def r13_4(chk, P, K, res):
    chk.rule('R13.4', 'fresh memory is stored into an element of an owning pointer-array field (the codec_setup_info *_param[] '
             'slots and their like) only when the slot is provably empty: the store is dominated by a null test or a free of the '
             'same slot, or the index is a counter that is advanced afterwards (append), or the index is the induction variable '
             'of the enclosing loop (each slot once)')
    sk = k8.Skel(P, 'r')
    n = 0
    for F in P.functions():
        k = P.key(F)
        if k not in res:
            continue
        defs = common.single_defs(F)
        for e in sorted(F.pos):
            nd = F.ex[e]
            if nd['k'] != 'assign' or nd['op'] != '=':
                continue
            l = F.ex[F.strip_casts(nd['c'][0])]
            if l['k'] != 'sub':
                continue
            b = F.ex[F.strip_casts(l['c'][0])]
            if b['k'] != 'member' or 'record' not in b:
                continue
            if not str(b.get('t', '')).replace(' ', '').endswith(('*[%d]' % (b.get('extent') or [0])[0],)) and 'extent' not in l:
                pass
            # is the stored value fresh?
            if not _is_fresh_rhs(P, K, F, nd['c'][1]):
                continue
            rec, fld = b['record'], b['field']
            if (rec, fld) not in {tuple(s) for s in res[k].get('sinks', ())}:
                continue
            idx = common.alias_of(F, l['c'][1], e)
            itxt = F.s(idx)
            slot = sk.canon(F, F.strip_casts(nd['c'][0]))
            slotx = common.canon_x(F, F.strip_casts(nd['c'][0]), sk, depth=1).replace('<', '').replace('>', '')
            ok, why = False, ''
            # (v) the container was allocated zero-filled in this very function
            bb = F.ex[F.strip_casts(b['c'][0])]
            if bb['k'] == 'ref' and bb['decl']['kind'] == 'var':
                dvs = local_defs(F).get(bb['decl']['id'], [])
                kinds = set()
                for dv in dvs:
                    dn = F.ex[F.strip_casts(dv)]
                    while dn['k'] == 'assign':
                        dn = F.ex[F.strip_casts(dn['c'][1])]
                    if dn['k'] == 'call' and dn['callee'].get('d') == 'calloc':
                        kinds.add('calloc')
                    elif dn['k'] == 'int' and dn['v'] == 0:
                        kinds.add('null')
                    else:
                        kinds.add('other')
                if 'calloc' in kinds and 'other' not in kinds:
                    ok, why = True, f'{F.s(F.strip_casts(b["c"][0]))} was calloc\'ed in this function: every slot is still empty'
            # (ii)/(iv) dominated by a null test or free of the same slot
            for c, pol in common.controlling_conditions(F, e):
                cs = sk.canon(F, c)
                cx = common.canon_x(F, c, sk, depth=1).replace('<', '').replace('>', '')
                if (slot in cs or slot in cx or slotx in cx) and (('!' in cs and pol) or ('==0' in cs.replace(' ', '') and pol) or (not pol and '!' not in cs and '==' not in cs)):
                    ok, why = True, f'under the null test {cs}'
            dom = cfg.dominators(F)
            for c in F.calls('free'):
                a = F.ex[c]['c'][0]
                if sk.canon(F, F.strip_casts(a)) == slot and cfg.pos_dominates(F, c, e):
                    ok, why = True, 'the slot is freed first'
            # (iv') `if(slot) free(slot);` before the store: every path to the store passes the free or the null edge
            if not ok:
                frees_ = {c for c in F.calls('free') if sk.canon(F, F.strip_casts(F.ex[c]['c'][0])) == slot}
                null_edges = set()
                for bb_, blk in F.blocks.items():
                    t = blk.get('term')
                    if t and t.get('cond') is not None and len(blk['succs']) == 2:
                        cs = sk.canon(F, t['cond'])
                        if cs == slot:
                            null_edges.add((bb_, 1))
                        elif cs == '!' + slot or cs.replace(' ', '') == f'({slot}==0)':
                            null_edges.add((bb_, 0))
                if frees_ and null_edges:
                    pth = cfg.search(F, None, lambda n: n == e, lambda n: n in frees_, lambda b_, si: (b_, si) not in null_edges)
                    if pth is None:
                        ok, why = True, 'a non-empty slot is freed on the way to the store'
            # (iii) append at a counter advanced afterwards
            ix = F.ex[idx]
            if not ok and ix['k'] in ('member', 'ref'):
                for m in F.pos:
                    md = F.ex[m]
                    if md['k'] == 'un' and md['op'] in ('post++', 'pre++') and F.s(F.strip_casts(md['c'][0])) == itxt and cfg.pos_dominates(F, e, m):
                        ok, why = True, f'appended at {itxt}, which is advanced afterwards'
            # (i) index is the induction variable of the enclosing loop
            if not ok and ix['k'] == 'ref' and ix['decl']['kind'] == 'var':
                for h, body in cfg.loops(F).items():
                    if F.pos[e][0] not in body:
                        continue
                    t = F.blocks[h].get('term')
                    if t and t.get('cond') is not None:
                        cn = F.ex[F.strip_casts(t['cond'])]
                        if cn['k'] == 'bin' and cn['op'] in ('<', '<=') and F.s(F.strip_casts(cn['c'][0])) == itxt:
                            ok, why = True, f'{itxt} is the induction variable of the enclosing loop (each slot once)'
            n += 1
            same = [x for x in sorted(F.pos) if F.ex[x]['k'] == 'assign' and sk.canon(F, F.strip_casts(F.ex[x]['c'][0])) == slot
                    and _is_fresh_rhs(P, K, F, F.ex[x]['c'][1])]
            chk.ob('R13.4', k, f'slot-empty:{rec}.{fld}[{sk.canon(F, idx)}]#{same.index(e)}', ok, F.where(e),
                   why if ok else f'{F.s(nd["c"][0])} = fresh memory: nothing shows the slot is empty (index {itxt} is neither a loop '
                   'induction variable nor an append counter, no null test or free of the slot dominates): an earlier allocation in '
                   'the slot would be lost')
    return n


def _is_fresh_rhs(P, K, F, e):
    n = F.ex[F.strip_casts(e)]
    if n['k'] == 'assign':
        return _is_fresh_rhs(P, K, F, n['c'][1])
    if n['k'] == 'call':
        d = n['callee'].get('d')
        if d in ('malloc', 'calloc'):
            return True
        tg = P.call_targets(F, F.strip_casts(e))
        return bool(tg) and all((not t.startswith(('ext:', 'cb:', 'unk:'))) and K.k3summ(t)['fresh'] for t in tg)
    return False


def count_pairs(P):
    """(record, array field) -> (record, count field): the release functions free the elements of an owning pointer array in a
    loop `for(i=0;i<x->count;i++) free(x->array[i])`; derived from the release functions on every run"""
    pairs = {}
    for rel in sorted(set(RELEASE_OF.values())):
        R = P.get(rel)
        if R is None:
            continue
        for h, body in cfg.loops(R).items():
            t = R.blocks[h].get('term')
            if not t or t.get('cond') is None:
                continue
            cn = R.ex[R.strip_casts(t['cond'])]
            if cn['k'] != 'bin' or cn['op'] != '<':
                continue
            iv = R.ex[R.strip_casts(cn['c'][0])]
            cf = R.ex[R.strip_casts(cn['c'][1])]
            if iv['k'] != 'ref' or cf['k'] != 'member' or 'record' not in cf:
                continue
            for c in R.calls():
                if R.pos[c][0] not in body:
                    continue
                for a in R.ex[c].get('c', []):
                    an = R.ex[R.strip_casts(a)]
                    if an['k'] == 'sub':
                        b = R.ex[R.strip_casts(an['c'][0])]
                        i2 = R.ex[R.strip_casts(an['c'][1])]
                        if b['k'] == 'member' and 'record' in b and i2['k'] == 'ref' and i2['decl'].get('id') == iv['decl'].get('id'):
                            pairs[(b['record'], b['field'])] = (cf['record'], cf['field'], rel)
    return pairs


def _filled_before_any_exit(F, store, af, cfld):
    """every path from the allocation to a function exit runs a loop `for(j<count) arr[j]=..` to its normal end: the loop is left
    only through its head, and no return lies between the allocation and the loop"""
    loops = cfg.loops(F)
    b0 = F.pos[store][0]
    # locals that hold the count: stored into the count field (`look->partvals=partvals;`) or read from it once
    count_locals = set()
    for n_, nd_ in F.ex.items():
        if nd_['k'] == 'assign' and nd_['op'] == '=' and n_ in F.pos:
            l_ = F.ex[F.strip_casts(nd_['c'][0])]
            r_ = F.ex[F.strip_casts(nd_['c'][1])]
            if l_['k'] == 'member' and l_.get('field') == cfld and r_['k'] == 'ref' and r_['decl'].get('kind') == 'var':
                count_locals.add(r_['decl']['id'])
    for vid_, d_ in common.single_defs(F).items():
        dn_ = F.ex[F.strip_casts(d_)]
        if dn_['k'] == 'member' and dn_.get('field') == cfld:
            count_locals.add(vid_)
    for h, body in loops.items():
        t = F.blocks[h].get('term')
        if not t or t.get('cond') is None:
            continue
        if not any((F.ex[q]['k'] == 'member' and F.ex[q].get('field') == cfld) or
                   (F.ex[q]['k'] == 'ref' and F.ex[q]['decl'].get('id') in count_locals) for q in F.walk(t['cond'])):
            continue
        fills = False
        for e in F.pos:
            if F.pos[e][0] in body and F.ex[e]['k'] == 'assign' and F.ex[e]['op'] == '=':
                l = F.ex[F.strip_casts(F.ex[e]['c'][0])]
                if l['k'] == 'sub':
                    b = F.ex[F.strip_casts(l['c'][0])]
                    if b['k'] == 'member' and (b.get('record'), b.get('field')) == af:
                        fills = True
        if not fills or b0 in body:
            continue
        # the loop is left only through its head
        if any(s_ is not None and s_ not in body for b_ in body if b_ != h for s_ in F.blocks[b_]['succs']):
            continue
        # from the allocation every path reaches the head before any exit
        seen, st, bad = set(), [b0], False
        while st and not bad:
            b = st.pop()
            if b in seen or b == h:
                continue
            seen.add(b)
            if b == F.exit or any(F.ex[e]['k'] == 'ret' for e in F.blocks[b]['elems'] if b != b0 or (F.ex[e].get('loc') or [0])[0] >= (F.ex[store].get('loc') or [0])[0]):
                bad = True
            for s_ in F.blocks[b]['succs']:
                if s_ is not None:
                    st.append(s_)
        if not bad:
            return True
    return False


def r13_14(chk, P, rule='R13.14'):
    chk.rule(rule, 'what a release function will walk is initialised: for every (owning pointer array, count field) pair derived from '
             'the release functions, each store of a fresh block into the array field is zero-filling (calloc), keeps an initialised '
             'prefix (realloc: growth is R13.8\'s append idiom), or happens while the count field is known to be 0 (K4).  A malloc\'ed '
             'array under a count that is already set holds heap garbage in the slots a failing fill loop has not reached, and the '
             'clear function that follows the rejection frees them')
    import absint
    pairs = count_pairs(P)
    chk.require(len(pairs) >= 5, f'only {len(pairs)} (array, count) pairs derived from the release functions')
    n = 0
    for F in P.functions():
        if F.entry is None:
            continue
        stores = []
        for e in sorted(F.pos):
            nd = F.ex[e]
            if nd['k'] != 'assign' or nd['op'] != '=':
                continue
            l = F.ex[F.strip_casts(nd['c'][0])]
            if l['k'] != 'member' or (l.get('record'), l.get('field')) not in pairs:
                continue
            r = F.ex[F.strip_casts(nd['c'][1])]
            if r['k'] != 'call':
                continue
            nm = r['callee'].get('d')
            if nm in ('calloc', 'realloc', 'malloc'):
                stores.append((e, (l['record'], l['field']), nm, F.strip_casts(nd['c'][0])))
        if not stores:
            continue
        vals = {}
        if any(nm == 'malloc' for (_, _, nm, _) in stores):
            def obs(A, env, e, v, stores=stores):
                for (se, af, nm, lhs) in stores:
                    if e == se and nm == 'malloc':
                        crec, cfld, rel = pairs[af]
                        base = A.rpath(A.ex[lhs]['c'][0], env)
                        cv = A.get(env, f'{base}->{cfld}') if base else absint.TOP
                        vals[se] = cv if se not in vals else absint.join(vals[se], cv)
            A = absint.Analyzer(P, F)
            A.observers.append(obs)
            A.run()
        k_ = {}
        for (e, af, nm, lhs) in stores:
            i = k_.get(af, 0)
            k_[af] = i + 1
            crec, cfld, rel = pairs[af]
            if nm == 'malloc':
                cv = vals.get(e)
                ok = cv is not None and cv.const() == 0
                msg = f'malloc with {crec}.{cfld} = {cv}' + ('' if ok else f': {rel} frees that many elements of a block nobody has filled')
                if not ok and _filled_before_any_exit(F, e, af, cfld):
                    ok, msg = True, f'malloc with {crec}.{cfld} = {cv}, followed on every path by a loop over the count that fills every element and has no other exit'
            else:
                ok, msg = True, f'{nm}: ' + ('zero-filled' if nm == 'calloc' else 'the initialised prefix is kept')
            chk.ob(rule, F.name, f'array-initialised-for-its-release:{af[1]}#{i}', ok, F.where(e), msg)
            n += 1
    return n


def r13_15(chk, P, rule='R13.15'):
    chk.rule(rule, 'a block is released with the dimensions it was allocated with: where a function obtains a block from a file-local '
             'allocating helper A(.., x, ..) and hands it to a file-local releasing helper R(block, .., x, ..) together with a local x '
             'that A also received (the record the helper reads the element count from), x is not assigned on any path between the '
             'two calls.  A count source re-pointed in between (the info of the link a seek landed in) makes the release walk a '
             'different number of elements than were allocated: the surplus leaks, or pointers past the array are freed.  '
             '(No instance on the pinned tree, where the lapping scratch lives on the stack; the rule is armed for heap versions and '
             'its positive control is the seeded change C13k1 of the thorough tier)')
    n = 0

    def calls_any(G, names):
        return any(G.ex[c]['callee'].get('d') in names for c in G.calls())
    for F in P.functions():
        if F.entry is None:
            continue
        allocs = []
        for e in F.pos:
            nd = F.ex[e]
            src = tgt = None
            if nd['k'] == 'assign' and nd['op'] == '=':
                l = F.ex[F.strip_casts(nd['c'][0])]
                if l['k'] == 'ref' and l['decl'].get('kind') == 'var':
                    tgt, src = l['decl']['id'], F.strip_casts(nd['c'][1])
            elif nd['k'] == 'decl':
                for v in nd['vars']:
                    if 'id' in v and v.get('init'):
                        tgt, src = v['id'], F.strip_casts(v['init'])
            if src is None or F.ex[src]['k'] != 'call':
                continue
            G = P.get(F.ex[src]['callee'].get('d') or '', F)
            if G is None or not G.static or G.entry is None:
                continue
            if not calls_any(G, ('malloc', 'calloc')):
                continue
            allocs.append((src, tgt))
        if not allocs:
            continue
        # block-level reachability
        reach = {}

        def reaches(a, b):
            if a not in reach:
                seen, st = set(), list(s_ for s_ in F.blocks[a]['succs'] if s_ is not None)
                while st:
                    x = st.pop()
                    if x in seen:
                        continue
                    seen.add(x)
                    st += [s_ for s_ in F.blocks[x]['succs'] if s_ is not None]
                reach[a] = seen
            return b in reach[a]

        def before(x, y):
            """node x can execute before node y"""
            bx, by = F.pos[x][0], F.pos[y][0]
            if bx == by:
                return F.pos[x][1] < F.pos[y][1] or reaches(bx, by)
            return reaches(bx, by)
        for (a, pvar) in allocs:
            avars = {}
            for i, arg in enumerate(F.ex[a].get('c', [])):
                an = F.ex[F.strip_casts(arg)]
                if an['k'] == 'ref' and an['decl'].get('kind') in ('var', 'param'):
                    avars[an['decl']['id']] = an['decl'].get('name', '?')
            for r in F.calls():
                G = P.get(F.ex[r]['callee'].get('d') or '', F)
                if G is None or not G.static or G.entry is None or not calls_any(G, ('free',)):
                    continue
                rargs = [F.ex[F.strip_casts(x)] for x in F.ex[r].get('c', [])]
                if not any(x['k'] == 'ref' and x['decl'].get('id') == pvar for x in rargs) or not before(a, r):
                    continue
                for x in rargs:
                    if x['k'] != 'ref' or x['decl'].get('id') == pvar or x['decl'].get('id') not in avars:
                        continue
                    vid = x['decl']['id']
                    redefs = []
                    for e in F.pos:
                        nd = F.ex[e]
                        if nd['k'] == 'assign':
                            l = F.ex[F.strip_casts(nd['c'][0])]
                            if l['k'] == 'ref' and l['decl'].get('id') == vid and before(a, e) and before(e, r):
                                redefs.append(e)
                    ok = not redefs
                    chk.ob(rule, F.name, f'released-with-the-allocation-dimensions:{avars[vid]}@{F.ex[r]["callee"].get("d")}', ok, F.where(r),
                           f'`{avars[vid]}` is the same at `{F.s(a)[:40]}` and `{F.s(r)[:40]}`' if ok else
                           f'`{avars[vid]}` is assigned on line {F.loc(redefs[0])} between `{F.s(a)[:40]}` and `{F.s(r)[:40]}`: the release '
                           'reads its element count from another object than the allocation did')
                    n += 1
    return n


def r13_8(chk, P, K, res):
    chk.rule('R13.8', 'where a release function frees the elements of an owning pointer array in a loop bounded by a count field '
             '(pairs derived from the release functions), every store of fresh memory into an element of that array is covered '
             'by the count whenever the release function can run: the index is below the count field at the store (K4 symbolic '
             'bound), or the count is raised past the index (append / raise idiom) before any exit or clear call')
    pairs = count_pairs(P)
    chk.require(len(pairs) >= 5, f'only {len(pairs)} (array, count) pairs derived from the release functions')
    sk = k8.Skel(P, 'r')
    n = 0
    for F in P.functions():
        k = P.key(F)
        if k not in res:
            continue
        stores = []
        for e in sorted(F.pos):
            nd = F.ex[e]
            if nd['k'] != 'assign' or nd['op'] != '=':
                continue
            l = F.ex[F.strip_casts(nd['c'][0])]
            if l['k'] != 'sub':
                continue
            b = F.ex[F.strip_casts(l['c'][0])]
            if b['k'] != 'member' or (b.get('record'), b.get('field')) not in pairs:
                continue
            if not _is_fresh_rhs(P, K, F, nd['c'][1]):
                continue
            stores.append((e, (b['record'], b['field'])))
        if not stores:
            continue
        vals = {}

        def obs(A, env, e, v):
            if e in [s[0] for s in stores] and A.last_index[0] is not None:
                lhs = A.F.strip_casts(A.ex[e]['c'][0])
                if A.last_index[0] == lhs:
                    vals[e] = absint.join(vals.get(e), A.last_index[1]) if e in vals else A.last_index[1]
        A = absint.Analyzer(P, F)
        A.observers.append(obs)
        A.run()
        for e, af in stores:
            crec, cfld, rel = pairs[af]
            csym = f'{crec}.{cfld}'
            nd = F.ex[e]
            l = F.ex[F.strip_casts(nd['c'][0])]
            idx = common.alias_of(F, l['c'][1], e)
            itxt = F.s(idx)
            v = vals.get(e)
            ok = v is not None and csym in v.lt
            why = f'index {v} is below {csym} at the store'
            if not ok:
                # the count is raised past the index on every path from the store to an exit / clear call
                def raises(n_, itxt=itxt, crec=crec, cfld=cfld):
                    x = F.ex[n_]
                    if x['k'] == 'un' and x['op'] in ('post++', 'pre++'):
                        t = F.ex[F.strip_casts(x['c'][0])]
                        return t['k'] == 'member' and t.get('record') == crec and t['field'] == cfld and F.s(F.strip_casts(x['c'][0])) == itxt
                    if x['k'] == 'assign' and x['op'] == '=':
                        t = F.ex[F.strip_casts(x['c'][0])]
                        if t['k'] == 'member' and t.get('record') == crec and t['field'] == cfld:
                            r = F.ex[F.strip_casts(x['c'][1])]
                            if r['k'] == 'bin' and r['op'] == '+' and F.s(F.strip_casts(r['c'][0])) == itxt and \
                                    F.ex[F.strip_casts(r['c'][1])].get('v') == 1:
                                # `if(count<=idx) count=idx+1`: the guarding test, when false, already covers the index
                                return True
                    if x['k'] == 'bin' and x['op'] in ('<=', '>=', '<', '>'):
                        a, b_ = F.s(F.strip_casts(x['c'][0])), F.s(F.strip_casts(x['c'][1]))
                        cm = [y for y in (x['c'][0], x['c'][1]) if F.ex[F.strip_casts(y)].get('record') == crec and F.ex[F.strip_casts(y)].get('field') == cfld]
                        if cm and itxt in (a, b_):
                            return True
                    return False
                path = cfg.reaches_exit_avoiding(F, F.pos[e], raises)
                ok = path is None
                why = f'{csym} is raised past {itxt} before any exit' if ok else \
                    f'{F.s(nd["c"][0])} receives fresh memory with index {v}, not known to be below {csym}, and the function can exit ' \
                    f'(or call {rel}) before the count covers it: {rel} would not free this element'
            n += 1
            same = [x for x, a2 in stores if a2 == af]
            chk.ob('R13.8', k, f'covered-by-count:{af[0]}.{af[1]}#{same.index(e)}', ok, F.where(e), why)
    return n


def _elem_record(P, rec, fld):
    """record type of the elements of pointer/array field rec.fld when they are structs with a release function"""
    r = P.records.get(rec)
    if not r:
        return None
    for f in r['fields']:
        if f['name'] == fld:
            t = f['t'].replace('const ', '').replace('struct ', '').strip()
            if t.endswith('*') and t.count('*') == 1:
                b = t[:-1].strip()
                if b in RELEASE_OF and b in P.records:
                    return b
    return None


def r13_9(chk, P, K):
    chk.rule('R13.9', 'an array of owning records (a pointer field whose elements are structs with a release function, e.g. '
             'codec_setup_info.fullbooks of codebooks) is freed only where every element has been released: the free is preceded, '
             'on every path, by a loop over the whole array that calls the element\'s release function on each element, '
             'conditioned on nothing but the array itself')
    sk = k8.Skel(P, 'r')
    n = 0
    for F in P.functions():
        k = P.key(F)
        for c in sorted(F.calls('free'), key=lambda x: F.ex[x]['loc']):
            a = F.ex[c].get('c', [None])[0]
            if a is None:
                continue
            an = F.ex[F.strip_casts(a)]
            if an['k'] != 'member' or 'record' not in an:
                continue
            er = _elem_record(P, an['record'], an['field'])
            if er is None:
                continue
            rel = RELEASE_OF[er]
            n += 1
            arr = sk.canon(F, F.strip_casts(a))
            # release calls on an element of this array inside a loop
            good = False
            # a pointer to one record: released as a whole right before the free
            for rc in F.calls(rel):
                ra = F.ex[rc].get('c', [None])[0]
                if ra is not None and sk.canon(F, F.strip_casts(ra)) == arr and cfg.pos_dominates(F, rc, c):
                    good = True
            why = f'no loop releases the elements of {F.s(F.strip_casts(a))} with {rel} before the free'
            for rc in F.calls(rel):
                ra = F.ex[rc].get('c', [None])[0]
                if ra is None or an['field'] not in sk.canon(F, F.strip_casts(ra)):
                    continue
                roots = root_members(F, ra)
                if (an['record'], an['field']) not in roots:
                    continue
                inloop = [h for h, body in cfg.loops(F).items() if F.pos[rc][0] in body]
                if not inloop:
                    continue
                # conditions (inside the function) that control the release call: only tests of the array pointer itself,
                # the loop condition, and whatever also controls the free
                fc = {(x, pol) for x, pol in common.controlling_conditions(F, c)}
                bad = []
                count_guard = set()
                for x, pol in common.controlling_conditions(F, rc):
                    cs = sk.canon(F, x)
                    if (x, pol) in fc:
                        continue
                    t = F.blocks[F.pos[x][0]].get('term') or {}
                    if any(F.blocks[h].get('term', {}).get('cond') == x for h in inloop):
                        continue
                    if cs.replace('!', '').strip('()') == arr or cs in (arr, f'({arr}!=0)'):
                        continue
                    # a null test of the object the element count is read from (without it the count is unknown)
                    hb_ = [h for h in inloop if F.blocks[h].get('term', {}).get('cond') is not None]
                    cnt_ok = False
                    for h in hb_:
                        cn = F.ex[F.strip_casts(F.blocks[h]['term']['cond'])]
                        if cn['k'] == 'bin' and len(cn.get('c', [])) == 2:
                            bnd = F.ex[F.strip_casts(cn['c'][1])]
                            if bnd['k'] == 'member':
                                base = F.strip_casts(bnd['c'][0])
                                if sk.canon(F, x) == sk.canon(F, base) or F.s(F.strip_casts(x)) == F.s(base):
                                    cnt_ok = True
                    if cnt_ok:
                        count_guard.add(x)
                        continue
                    bad.append(cs)
                if bad:
                    why = f'the elements are released only under {bad}: elements for which that is false keep their memory when the array is freed'
                    continue
                # the loop must come before the free on every path: the free is not reachable from entry avoiding the loop header
                h = min(inloop, key=lambda h_: len(cfg.loops(F)[h_]))
                hb = h
                guard_blocks = {b_ for b_, blk in F.blocks.items() if blk.get('term') and blk['term'].get('cond') is not None
                                and blk['term']['cond'] in count_guard}
                path = cfg.search(F, None, lambda nn: nn == c, lambda nn: F.pos.get(nn, (None,))[0] == hb,
                                  lambda b_, si: not (b_ in guard_blocks and si == 1))
                if path is None:
                    good = True
                else:
                    why = 'the free can be reached without passing the releasing loop'
            chk.ob('R13.9', k, f'elements-released-before-free:{an["record"]}.{an["field"]}', good, F.where(c),
                   f'every element is released with {rel} on the way to the free' if good else why)
    return n


def _wiped_params(G):
    """indices of the pointer parameters the function wipes with memset(param,0,..): it (re)initialises that object"""
    out = set()
    pidx = {p['id']: i for i, p in enumerate(G.params)}
    for c in G.calls('memset'):
        a = G.ex[c].get('c', [])
        if len(a) >= 2:
            x = G.ex[G.strip_casts(a[0])]
            z = G.ex[G.strip_casts(a[1])]
            if x['k'] == 'ref' and x['decl'].get('id') in pidx and z['k'] == 'int' and z['v'] == 0:
                out.add(pidx[x['decl']['id']])
    return out


def r13_10(chk, P, K):
    chk.rule('R13.10', 'an element of an owning array is initialised (made to own memory: an init function or a callee whose '
             'summary leaves its parameter live) only where the array has just been allocated: the initialising call is '
             'dominated by the store of a fresh allocation into that array field, under the same conditions.  Re-initialising '
             'a live element would orphan what it owns')
    sk = k8.Skel(P, 'r')
    n = 0
    for F in P.functions():
        k = P.key(F)
        for c in sorted(F.calls(), key=lambda x: F.ex[x]['loc']):
            nd = F.ex[c]
            d = nd['callee'].get('d')
            args = nd.get('c', [])
            live_params = set()
            if d in k6.INIT:
                live_params.add(0)
            for t in P.call_targets(F, c):
                sm = K.summary.get(t)
                if sm and not t.startswith(('ext:', 'cb:', 'unk:')):
                    G = P.fn[t]
                    wiped = _wiped_params(G)
                    for (cls, live) in sm['outcomes']:
                        for o in live:
                            if o[0] == 'P' and int(o[1:]) in wiped:
                                live_params.add(int(o[1:]))
            for i in sorted(live_params):
                if i >= len(args):
                    continue
                a = F.strip_casts(args[i])
                an = F.ex[a]
                # element of a pointer field: x->A+i, &x->A[i]
                elem = False
                root = an
                if an['k'] == 'bin' and an['op'] == '+':
                    root = F.ex[F.strip_casts(an['c'][0])]
                    elem = True
                elif an['k'] == 'un' and an['op'] == '&':
                    inner = F.ex[F.strip_casts(an['c'][0])]
                    if inner['k'] == 'sub':
                        root = F.ex[F.strip_casts(inner['c'][0])]
                        elem = True
                if not elem or root['k'] != 'member' or 'record' not in root or root.get('t', '').endswith(']'):
                    continue
                n += 1
                rec, fld = root['record'], root['field']
                # a store of fresh memory into the same field that dominates the call
                ok = False
                for e in F.pos:
                    x = F.ex[e]
                    if x['k'] == 'assign' and x['op'] == '=':
                        l = F.ex[F.strip_casts(x['c'][0])]
                        if l['k'] == 'member' and l.get('record') == rec and l['field'] == fld and _is_fresh_rhs(P, K, F, x['c'][1]) \
                                and cfg.pos_dominates(F, e, c):
                            ok = True
                same = [y for y in sorted(F.calls(d), key=lambda y: F.ex[y]['loc'])] if d else [c]
                chk.ob('R13.10', k, f'init-of-fresh-element:{rec}.{fld}:{d}#{same.index(c) if c in same else 0}', ok, F.where(c),
                       f'the array {rec}.{fld} was allocated on every path to this call' if ok else
                       f'{F.s(c)[:70]} can run on an element of an array that was not allocated just before (the allocation does not '
                       'dominate the call): an element that is already live would lose what it owns')
    return n


def r13_6(chk, P, K):
    chk.rule('R13.6', 'static_codebook objects and their lists are freed only in vorbis_staticbook_destroy, and there only under '
             'the allocedp test; allocedp is set non-zero only in vorbis_staticbook_unpack: the shared const encoder codebooks '
             'are never freed')
    fs = freeing_sites(P, K)
    who = sorted(k for k, s in fs.items() if any(r == 'static_codebook' for (r, f) in s))
    D = P.need('vorbis_staticbook_destroy')
    chk.ob('R13.6', 'static_codebook', 'freed-only-by-destroy', who in ([], [P.key(D)]), D.where(), f'fields of static_codebook are freed in {who}')
    frees = list(D.calls('free'))
    chk.require(frees, 'vorbis_staticbook_destroy no longer frees anything')
    for i, c in enumerate(sorted(frees, key=lambda x: D.ex[x]['loc'])):
        conds = common.controlling_conditions(D, c)
        ok = any(pol and common.cond_mentions_field(D, cnd, 'static_codebook', 'allocedp') for cnd, pol in common.atomic_conditions(D, c))
        chk.ob('R13.6', D.name, f'free#{i}-under-allocedp', ok, D.where(c), f'{D.s(c)} controlled by {[D.s(x) for x, p in conds]}')
    setters = []
    for F in P.functions():
        for n in F.pos:
            nd = F.ex[n]
            if nd['k'] == 'assign':
                l = F.ex[F.strip_casts(nd['c'][0])]
                if l['k'] == 'member' and l.get('record') == 'static_codebook' and l['field'] == 'allocedp':
                    r = F.ex[F.strip_casts(nd['c'][1])]
                    if not (r['k'] == 'int' and r['v'] == 0):
                        setters.append(P.key(F))
    chk.ob('R13.6', 'static_codebook', 'allocedp-set-only-by-unpack', set(setters) <= {'vorbis_staticbook_unpack'}, D.where(),
           f'allocedp is set non-zero in {sorted(set(setters))}')


def r13_12(chk, P):
    chk.rule('R13.12', 'a set-up step that fills the owner slots of the info runs once: every function of vorbisenc.c that freezes the '
             'staged set-up (stores a non-zero constant into set_in_stone) tests that flag first -- with the continuing edge of '
             'every set_in_stone test removed, neither the freezing store nor any call that can reach an allocator is reachable '
             'from the entry, and the refusing edge returns a negative code.  A second run would overwrite the map, mode, '
             'residue and psy slots the first run filled; vorbis_info_clear frees each slot once')
    n = 0
    allocs = {'_ogg_malloc', '_ogg_calloc', '_ogg_realloc', 'malloc', 'calloc', 'realloc'}
    reach_alloc = {}

    def can_alloc(key):
        if key not in reach_alloc:
            reach_alloc[key] = False
            for k in P.reachable([key]):
                G = P.fn.get(k)
                if G is not None and any(G.ex[c]['callee'].get('d') in allocs for c in G.calls()):
                    reach_alloc[key] = True
                    break
        return reach_alloc[key]
    for F in P.functions():
        if not F.file.endswith('vorbisenc.c'):
            continue
        freezes = []
        for e in F.nodes('assign'):
            nd = F.ex[e]
            l = F.ex[F.strip_casts(nd['c'][0])]
            if nd['op'] == '=' and l['k'] == 'member' and l['field'] == 'set_in_stone' and (common.const_val(F, nd['c'][1]) or 0) != 0:
                freezes.append(e)
        if not freezes:
            continue

        def reads_flag(c):
            return any(F.ex[x]['k'] == 'member' and F.ex[x]['field'] == 'set_in_stone' for x in F.walk(c))
        tests = [(b, blk) for b, blk in F.blocks.items() if (blk.get('term') or {}).get('cond') is not None and reads_flag(blk['term']['cond'])
                 and len(blk['succs']) == 2]
        # which edge continues: the one from which a freezing store is reachable
        def reach_from(b0, cut):
            seen, st = set(), [b0]
            while st:
                b = st.pop()
                if b is None or b in seen:
                    continue
                seen.add(b)
                for i_, s_ in enumerate(F.blocks[b]['succs']):
                    if (b, i_) in cut:
                        continue
                    st.append(s_)
            return seen
        fblocks = {F.pos[e][0] for e in freezes}
        cut = set()
        refusing = []
        for b, blk in tests:
            for i_, s_ in enumerate(blk['succs']):
                if s_ is not None and reach_from(s_, set()) & fblocks:
                    cut.add((b, i_))
                else:
                    refusing.append(s_)
        seen = reach_from(F.entry, cut)
        acalls = [c for c in F.calls() if any((not t.startswith(('ext:', 'cb:', 'unk:'))) and can_alloc(t) for t in P.call_targets(F, c))
                  or F.ex[c]['callee'].get('d') in allocs]
        bad_store = [e for e in freezes if F.pos[e][0] in seen]
        bad_calls = [c for c in acalls if F.pos[c][0] in seen]
        neg = True
        for s_ in refusing:
            for r in cfg.returns(F):
                if s_ is not None and F.pos[r][0] in reach_from(s_, set()):
                    v = common.const_val(F, F.ex[r]['c'][0]) if F.ex[r].get('c') else None
                    if v is None or v >= 0:
                        neg = False
        ok = bool(tests) and not bad_store and not bad_calls and neg
        n += 1
        chk.ob('R13.12', F.name, 'freezing-step-runs-once', ok, F.where(freezes[0]),
               f'{len(tests)} test(s) of set_in_stone guard the freezing store and all {len(acalls)} allocating calls; the refusing edge returns an error' if ok else
               ('no test of set_in_stone' if not tests else 'the test does not guard ' +
                (f'the allocating call on line {F.loc(bad_calls[0])}' if bad_calls else 'the freezing store' if bad_store else 'with an error return')) +
               ': a second call of this step overwrites the owner slots the first call filled (the first allocations leak)')
    return n


def r13_13(chk, P):
    chk.rule('R13.13', 'an ownership flag is set before the release that consults it: for every release function that frees its object '
             'only when a field of it is set (discovered: a free of the parameter control-dependent on `param->FIELD`; '
             'vorbis_staticbook_destroy / allocedp), every caller that allocates the object itself (calloc/malloc into a local) '
             'reaches each call of the release function only on paths on which it has stored a non-zero value into that field '
             '(K2 path flags).  An early exit taken before the flag is set hands the release function an object it will not free')
    import k2
    guards = {}     # release function key -> (param index, field)
    for F in P.functions():
        for c in F.calls():
            if F.ex[c]['callee'].get('d') not in ('free', '_ogg_free') or not F.ex[c]['c']:
                continue
            a = F.ex[F.strip_casts(F.ex[c]['c'][0])]
            if a['k'] != 'ref' or a['decl'].get('kind') != 'param':
                continue
            pid = a['decl']['id']
            # fields of the parameter that are tested anywhere; the free is guarded by field f when it becomes unreachable once
            # the edges on which `param->f` is true are cut (covers `if(p->f){..free(p);}` and `if(!p->f)return;`)
            tests = {}
            for b_, blk in F.blocks.items():
                t = blk.get('term') or {}
                cc = t.get('cond')
                if cc is None or len(blk['succs']) != 2:
                    continue
                cn = F.ex[F.strip_casts(cc)]
                neg = False
                while cn['k'] == 'un' and cn['op'] == '!':
                    neg = not neg
                    cn = F.ex[F.strip_casts(cn['c'][0])]
                if cn['k'] == 'member':
                    bb = F.ex[F.strip_casts(cn['c'][0])]
                    if bb['k'] == 'ref' and bb['decl'].get('id') == pid:
                        tests.setdefault((cn['field'], cn.get('record')), set()).add((b_, 1 if neg else 0))
            for (fld_, rec_), cut in tests.items():
                seen, st = set(), [F.entry]
                while st:
                    x = st.pop()
                    if x is None or x in seen:
                        continue
                    seen.add(x)
                    for i_, s_ in enumerate(F.blocks[x]['succs']):
                        if (x, i_) not in cut:
                            st.append(s_)
                if F.pos[c][0] not in seen:
                    pi = [i for i, p_ in enumerate(F.params) if p_['id'] == pid][0]
                    guards[P.key(F)] = (pi, fld_, rec_)
    chk.require(guards, 'no flag-guarded release function found')
    n = 0
    for G in P.functions():
        for rk, (pi, fld, rec) in guards.items():
            calls = [c for c in G.calls() if rk in P.call_targets(G, c) and pi < len(G.ex[c]['c'])]
            if not calls:
                continue
            # objects this function allocates itself
            for c in calls:
                a = G.ex[G.strip_casts(G.ex[c]['c'][pi])]
                if a['k'] != 'ref' or a['decl'].get('kind') != 'var':
                    continue
                vid = a['decl']['id']
                fresh = False
                for q in G.pos:
                    nd = G.ex[q]
                    rhs = None
                    if nd['k'] == 'decl':
                        rhs = next((v['init'] for v in nd['vars'] if v.get('id') == vid and v.get('init')), None)
                    elif nd['k'] == 'assign' and nd['op'] == '=':
                        l = G.ex[G.strip_casts(nd['c'][0])]
                        if l['k'] == 'ref' and l['decl'].get('id') == vid:
                            rhs = nd['c'][1]
                    if rhs is not None:
                        r = G.ex[G.strip_casts(rhs)]
                        if r['k'] == 'call' and r['callee'].get('d') in ('_ogg_calloc', '_ogg_malloc', 'calloc', 'malloc'):
                            fresh = True
                if not fresh:
                    continue

                def marks(A, env, e, vid=vid, fld=fld):
                    nd = A.ex[e]
                    if nd['k'] != 'assign' or nd['op'] != '=':
                        return False
                    l = A.ex[G.strip_casts(nd['c'][0])]
                    if l['k'] == 'member' and l['field'] == fld:
                        b = A.ex[G.strip_casts(l['c'][0])]
                        if b['k'] == 'ref' and b['decl'].get('id') == vid:
                            v = A.peek(env, nd['c'][1])
                            return v.const() is not None and v.const() != 0
                    return False
                A, h = k2.analyse(P, G, [('marked', marks, True)], watch=lambda A_, e_, c=c: e_ == c)
                sets = h.at.get(c, set())
                bad = [fl for fl in sets if 'marked' not in fl]
                n += 1
                chk.ob('R13.13', G.name, f'flag-set-before-release:{fld}@{G.loc(c)}', bool(sets) and not bad, G.where(c),
                       f'`{G.s(c)}`: {fld} is set on all {len(sets)} path classes that reach the call' if sets and not bad else
                       f'`{G.s(c)}` is reachable on a path that has not stored {fld}: {P.fn[rk].name} frees the object only when {fld} is '
                       'set, so the block allocated here leaks')
    return n


def run(chk, P):
    K = k6.K6(P)
    res = r13_1(chk, P, K)
    chk.floor('R13.1', 100)
    r13_2(chk, P, K, res)
    chk.floor('R13.2', 50)
    n3 = r13_3(chk, P, K)
    chk.floor('R13.3', 40)
    r13_4(chk, P, K, res)
    chk.floor('R13.4', 8)
    r13_6(chk, P, K)
    chk.floor('R13.6', 4)
    r13_8(chk, P, K, res)
    r13_14(chk, P)
    chk.floor('R13.14', 4)
    r13_15(chk, P)
    chk.floor('R13.8', 8)
    r13_9(chk, P, K)
    chk.floor('R13.9', 1)
    r13_10(chk, P, K)
    chk.floor('R13.10', 1)
    r13_12(chk, P)
    chk.floor('R13.12', 1)
    r13_13(chk, P)
    chk.floor('R13.13', 1)
    import typestate
    typestate.c13(chk, P)
    chk.floor('R13.11', 1)
    chk.rule('R13.7', 'the close callback has exactly one call site, in ov_clear, guarded by a non-null data source, and failed '
             'opens detach the source first (same obligations as R12.3); ov_clear wipes the handle (R13.3a), so a second '
             'ov_clear sees no data source')
    from rules import c12

    class Proxy:
        def __init__(self, chk):
            self.chk = chk

        def __getattr__(self, a):
            return getattr(self.chk, a)

        def ob(self, rule, *a, **k):
            return self.chk.ob('R13.7', *a, **k)

        def rule(self, rid, text):
            pass
    c12.r12_3(Proxy(chk), P)
    chk.floor('R13.7', 3)
    chk.analysed['k6'] = {'functions_with_acquisitions': len(res), 'relational_summaries': len(K.summary), 'summary_rounds': K.rounds}
    chk.trusted += ['clang 14 front end', 'K3 effect summaries (which parameters a callee frees / keeps / returns fresh)',
                    'libc allocator semantics; libogg init/clear pairs own their memory', 'type-based field classes']
    return ('A path-sensitive ownership analysis over every function of the three libraries that acquires memory (allocator '
            'results, fresh objects from callees, local aggregates, out-parameter cells), with relational summaries split by '
            'result class, decides that nothing acquired is lost on any path (success or error); field-coverage, free-then-reset, '
            'slot-overwrite and static-book rules decide that the clear functions release every owning field, leave no stale '
            'pointer and free nothing shared.  Aliasing beyond the field tables is not decided.')
