"""C03 — vorbisfile is memory-safe and terminates on arbitrary physical streams (partial, DESIGN 4/C03).

Decided: R03.1 handle typestate (K5): the decoder objects are live exactly in INITSET at every API return and at every
call that needs them; R03.2 link-table life cycle and indexing (K4); R03.3 results of fallible decode/set-up calls are
observed; R03.4 failed opens detach the data source before clearing and ov_fopen closes only its own FILE;
R03.5 lap buffers.  Not decided: absence of unbounded loops; heap safety inside libogg."""
import k2
import k9
from facts import AnalysisBroken
from rules import common, c12

DECODE_FALLIBLE = ['vorbis_synthesis', 'vorbis_synthesis_trackonly', '_make_decode_ready', 'vorbis_synthesis_halfrate',
                   '_fetch_headers', 'vorbis_synthesis_headerin', 'vorbis_synthesis_init', 'vorbis_synthesis_blockin']


def r03_3(chk, P):
    chk.rule('R03.3', 'in vorbisfile.c the result of every call to a decode/set-up function that can fail (vorbis_synthesis, '
             'vorbis_synthesis_trackonly, _make_decode_ready, vorbis_synthesis_halfrate, _fetch_headers, '
             'vorbis_synthesis_headerin, vorbis_synthesis_init) is observed, so a failed packet parse or decoder set-up cannot '
             'flow into vorbis_synthesis_blockin / the read path; vorbis_synthesis_blockin itself is exempt (its only failure is '
             'the unread-data guard, which vorbisfile excludes by checking pcmout first)')
    n = 0
    fall = set(DECODE_FALLIBLE) - {'vorbis_synthesis_blockin'}
    for f in fall:
        chk.require(P.get(f) is not None, f'anchor {f} vanished')
    for F in P.functions():
        if not F.file.endswith('vorbisfile.c'):
            continue
        for c in sorted(F.calls(), key=lambda x: F.ex[x]['loc']):
            d = F.ex[c]['callee'].get('d')
            if d not in fall:
                continue
            n += 1
            st, det = k9.observe(P, F, c)
            same = sorted([x for x in F.calls(d)], key=lambda x: F.ex[x]['loc'])
            ok = st in ('returned', 'tested', 'stored-tested')
            if not ok and st == 'discarded' and k9.only_error_returns_follow(F, c):
                ok = True
            chk.ob('R03.3', P.key(F), f'{d}#{same.index(c)}', ok, F.where(c), f'{st}: {det}' if det else st)
    return n


def run(chk, P):
    r03_3(chk, P)
    chk.floor('R03.3', 10)
    chk.rule('R03.4', 'failed opens store NULL into vf->datasource before ov_clear on every path; the close callback has one '
             'guarded site; ov_fopen closes only the FILE it opened, on failure (same obligations as R12.3)')
    # reuse the C12 implementation under this rule id
    class Proxy:
        def __init__(self, chk):
            self.chk = chk

        def __getattr__(self, a):
            return getattr(self.chk, a)

        def ob(self, rule, *a, **k):
            return self.chk.ob('R03.4', *a, **k)

        def rule(self, rid, text):
            pass
    c12.r12_3(Proxy(chk), P)
    chk.floor('R03.4', 5)
    import typestate
    typestate.c03(chk, P)
    import k4rules
    k4rules.c03(chk, P)
    chk.trusted += ['clang 14 front end', 'libogg: ogg_stream_* on a cleared state fails without side effects']
    return ('Typestate analysis of the OggVorbis_File handle (ready_state vs liveness of the decoder objects) with exact '
            'summaries of the internal helpers, error-discipline rules for fallible decode calls, and path rules for the open '
            'failure paths decide that no decoder object is used while cleared, failed set-up never reaches the accumulator, and '
            'a failed open leaves the source unclosed. Value-range analysis decides link-table indexing. Does not decide loop '
            'termination over arbitrary page structure.')
