"""C03 — vorbisfile is memory-safe and terminates on arbitrary physical streams (partial, DESIGN 4/C03).

Decided: R03.1 handle typestate (K5): the decoder objects are live exactly in INITSET at every API return and at every
call that needs them; R03.2 link-table life cycle and indexing (K4); R03.3 results of fallible decode/set-up calls are
observed; R03.4 failed opens detach the data source before clearing and ov_fopen closes only its own FILE;
R03.5 lap buffers.  Not decided: absence of unbounded loops; heap safety inside libogg."""
import k2
import k9
import cfg
from facts import AnalysisBroken
from rules import common, c12

DECODE_FALLIBLE = ['vorbis_synthesis', 'vorbis_synthesis_trackonly', '_make_decode_ready', 'vorbis_synthesis_halfrate',
                   '_fetch_headers', 'vorbis_synthesis_headerin', 'vorbis_synthesis_init', 'vorbis_synthesis_blockin']


def r03_3(chk, P):
    chk.rule('R03.3', 'in vorbisfile.c the result of every call to a decode/set-up function that can fail (vorbis_synthesis, '
             'vorbis_synthesis_trackonly, _make_decode_ready, vorbis_synthesis_halfrate, _fetch_headers, '
             'vorbis_synthesis_headerin, vorbis_synthesis_init) is observed, so a failed packet parse or decoder set-up cannot '
             'flow into vorbis_synthesis_blockin / the read path; vorbis_synthesis_blockin itself is exempt (its only failure is '
             'the unread-data guard, which vorbisfile excludes by checking pcmout first)')
    n = 0
    fall = set(DECODE_FALLIBLE) - {'vorbis_synthesis_blockin'}
    for f in fall:
        chk.require(P.get(f) is not None, f'anchor {f} vanished')
    for F in P.functions():
        if not F.file.endswith('vorbisfile.c'):
            continue
        for c in sorted(F.calls(), key=lambda x: F.ex[x]['loc']):
            d = F.ex[c]['callee'].get('d')
            if d not in fall:
                continue
            n += 1
            st, det = k9.observe(P, F, c)
            same = sorted([x for x in F.calls(d)], key=lambda x: F.ex[x]['loc'])
            ok = st in ('returned', 'tested', 'stored-tested')
            if not ok and st == 'discarded' and k9.only_error_returns_follow(F, c):
                ok = True
            chk.ob('R03.3', P.key(F), f'{d}#{same.index(c)}', ok, F.where(c), f'{st}: {det}' if det else st)
    return n


def r03_2(chk, P, rule='R03.2'):
    chk.rule(rule, 'no unbounded search loop: a loop of vorbisfile.c that runs until a sentinel local changes '
             '(`while(offset==-1)`) and whose only other progress is a counter clamped at a bound '
             '(`begin-=CHUNKSIZE; if(begin<0)begin=0;`) has no iteration that leaves everything as it was: with the sentinel '
             'still unset and the counter at its bound, every path through the body reaches an exit that is taken for certain '
             '(K4 refinement of the exit conditions under exactly that state; whatever the callbacks return).  Otherwise a '
             'source that keeps delivering nothing (premature end of data, a stale length) hangs the call')
    import absint
    import cfg
    from absint import V, K
    n = 0
    for F in P.functions():
        if not F.file.endswith('vorbisfile.c') or F.entry is None:
            continue
        loops = cfg.loops(F)
        for h, body in sorted(loops.items()):
            # the sentinel test: the loop head (`while(x==c)`) or a block of the body that can leave the loop (`do{..}while(x==c)`)
            t = xl = sv = None
            for tb_ in [h] + sorted(b_ for b_ in body if b_ != h and any(s_ is not None and s_ not in body for s_ in F.blocks[b_]['succs'])):
                t_ = F.blocks[tb_].get('term')
                if not t_ or t_.get('cond') is None:
                    continue
                c = F.ex[F.strip_casts(t_['cond'])]
                if not (c['k'] == 'bin' and c['op'] == '=='):
                    continue
                xl_ = F.ex[F.strip_casts(c['c'][0])]
                sv_ = _constv(F, c['c'][1])
                if xl_['k'] != 'ref' or xl_['decl'].get('kind') != 'var' or sv_ is None:
                    continue
                # the loop goes on while the test holds
                succs_ = F.blocks[tb_]['succs']
                if len(succs_) == 2 and succs_[0] in body and (succs_[1] is None or succs_[1] not in body):
                    t, xl, sv = t_, xl_, sv_
                    break
            if t is None:
                continue
            xid = xl['decl']['id']
            # counters clamped at a bound inside the loop: V -= c ... if(V<0) V=0
            clamped = {}
            for e in F.pos:
                if F.pos[e][0] not in body:
                    continue
                nd = F.ex[e]
                if nd['k'] == 'assign' and nd['op'] == '=':
                    l = F.ex[F.strip_casts(nd['c'][0])]
                    bv = _constv(F, nd['c'][1])
                    if l['k'] == 'ref' and bv is not None and l['decl'].get('id') != xid:
                        for cnd, pol in common.controlling_conditions(F, e):
                            cn = F.ex[F.strip_casts(cnd)]
                            if pol and cn['k'] == 'bin' and cn['op'] in ('<', '<=', '>', '>=') and \
                                    F.ex[F.strip_casts(cn['c'][0])].get('decl', {}).get('id') == l['decl'].get('id') and F.pos[cnd][0] in body:
                                clamped[l['decl']['id']] = bv
            # ... or in a helper that receives the counter's address (`_seek_chunk_back(vf,&begin)`)
            for cc in F.calls():
                if F.pos[cc][0] not in body or 'd' not in F.ex[cc]['callee']:
                    continue
                G = P.get(F.ex[cc]['callee']['d'], F)
                if G is None or G.entry is None:
                    continue
                for ai, a in enumerate(F.ex[cc].get('c', [])):
                    an = F.ex[F.strip_casts(a)]
                    if not (an['k'] == 'un' and an['op'] == '&') or ai >= len(G.params):
                        continue
                    tv = F.ex[F.strip_casts(an['c'][0])]
                    if tv['k'] != 'ref' or tv['decl'].get('kind') not in ('var', 'param') or tv['decl'].get('id') == xid:
                        continue
                    gp = G.params[ai]['id']

                    def is_deref(q):
                        qn = G.ex[G.strip_casts(q)]
                        return qn['k'] == 'un' and qn['op'] == '*' and G.ex[G.strip_casts(qn['c'][0])].get('decl', {}).get('id') == gp
                    for e in G.pos:
                        nd = G.ex[e]
                        if nd['k'] == 'assign' and nd['op'] == '=' and is_deref(nd['c'][0]):
                            bv = _constv(G, nd['c'][1])
                            if bv is None:
                                continue
                            for cnd, pol in common.controlling_conditions(G, e):
                                cn = G.ex[G.strip_casts(cnd)]
                                if pol and cn['k'] == 'bin' and cn['op'] in ('<', '<=', '>', '>=') and is_deref(cn['c'][0]):
                                    clamped[tv['decl']['id']] = bv
            if not clamped:
                continue
            A = absint.Analyzer(P, F)
            env = A.initial_env()
            env[f'v{xid}'] = K(sv)
            for vid, bv in clamped.items():
                env[f'v{vid}'] = K(bv)

            def sets_x(q):
                nd = F.ex[q]
                if nd['k'] == 'assign':
                    l = F.ex[F.strip_casts(nd['c'][0])]
                    return l['k'] == 'ref' and l['decl'].get('id') == xid
                return False

            def edge_ok(b, si):
                s_ = F.blocks[b]['succs'][si]
                if s_ not in body:
                    return False            # leaving the loop is not a stuck iteration
                tb = F.blocks[b].get('term')
                if tb and tb.get('cond') is not None and len(F.blocks[b]['succs']) == 2 and tb.get('kind') != 'switch' and b != h:
                    try:
                        if A.refine(env.copy(), tb['cond'], si == 0) is None:
                            return False    # this edge cannot be taken in the stuck state
                    except Exception:
                        return True
                return True
            # a path from the loop head, through the body, back to the head without setting the sentinel
            first = [s_ for s_ in F.blocks[h]['succs'] if s_ in body]
            stuck = None
            for s0 in first:
                seen = set()
                st = [(s0, [h, s0])]
                by = None
                while st and stuck is None:
                    b, path = st.pop()
                    if b in seen:
                        continue
                    seen.add(b)
                    if any(sets_x(q) for q in F.pos if F.pos[q][0] == b):
                        continue
                    for si, s_ in enumerate(F.blocks[b]['succs']):
                        if s_ is None or not edge_ok(b, si):
                            continue
                        if s_ == h:
                            stuck = path + [h]
                            break
                        st.append((s_, path + [s_]))
            n += 1
            nm = F.vars.get(xid, {}).get('name', '?')
            cl = ', '.join(f'{F.vars.get(v_, {}).get("name", "?")}=={b_}' for v_, b_ in clamped.items())
            chk.ob(rule, F.name, f'search-loop-bails-out:{nm}#{sorted(loops).index(h)}', stuck is None, F.where(t['cond']),
                   f'with {nm}=={sv} and {cl} every path through the body sets {nm} or leaves the loop' if stuck is None else
                   f'with {nm}=={sv} and {cl} an iteration can come back to the loop head unchanged (no exit on the way is certain '
                   'in that state): the loop does not end while the source delivers nothing',
                   path=cfg.block_lines(F, stuck) if stuck else None)
    return n


def r03_5(chk, P, rule='R03.5', roots=None, context=None):
    chk.rule(rule, 'a cleared vorbis_info is tolerated by everything vorbisfile hands it to: after a failed header fetch at a '
             'link boundary of a non-seekable stream the handle keeps vf->vi cleared (codec_setup == NULL) and stays open; '
             'every libvorbis function that vorbisfile.c calls with a vorbis_info argument (and every function that argument is '
             'passed on to) is analysed with codec_setup == NULL on entry (K4): no member access through the null pointer is '
             'reachable -- the function tests it first, like its siblings vorbis_info_blocksize and vorbis_packet_blocksize do')
    import absint
    from absint import V
    todo = []
    seen = set()
    for (rn, ri) in (roots or []):
        seen.add((P.key(P.need(rn)), ri))
        todo.append((P.key(P.need(rn)), ri))
    for F in P.functions():
        if roots is not None or not F.file.endswith('vorbisfile.c'):
            continue
        for c in F.calls():
            for t in P.call_targets(F, c):
                if t.startswith(('ext:', 'cb:', 'unk:')):
                    continue
                G = P.fn[t]
                if G.file.endswith('vorbisfile.c'):
                    continue
                for i, p_ in enumerate(G.params):
                    if p_.get('record') == 'vorbis_info' and p_['t'].rstrip().endswith('*') and p_['t'].count('*') == 1 and (t, i) not in seen:
                        seen.add((t, i))
                        todo.append((t, i))
    n = 0
    while todo:
        t, i = todo.pop(0)
        G = P.fn[t]
        if G.entry is None:
            continue
        pid = G.params[i]['id']
        A = absint.Analyzer(P, G)
        base_init = A.initial_env

        def init(A=A, pid=pid, base_init=base_init):
            env = base_init()
            env[f'v{pid}'] = V(nn=True)
            env[f'v{pid}->codec_setup'] = V(0, 0, nn=False)
            return env
        A.initial_env = init
        bad = {}
        passed = set()
        sdefs = common.single_defs(G)

        def obs(A_, env, e, v, pid=pid):
            nd = A_.ex[e]
            par_ = A_.F.sparent.get(e)
            if nd['k'] == 'member' and nd.get('arrow') and not (par_ is not None and A_.ex[par_]['k'] == 'un' and A_.ex[par_]['op'] == '&'):
                b = A_.F.strip_casts(nd['c'][0])
                bp = A_.rpath(b, env)
                if bp == f'v{pid}->codec_setup':
                    bv = env.get(bp)
                    if isinstance(bv, V) and (bv.nn is False or bv.const() == 0):
                        bad.setdefault(e, A_.F.s(e))
                else:
                    # a local that holds the address of a member of the set-up (hi = &ci->hi): null-derived while ci is null
                    bn = A_.ex[b]
                    if bn['k'] == 'ref' and bn['decl'].get('kind') == 'var':
                        sd = sdefs.get(bn['decl'].get('id'))
                        dn = A_.ex[A_.F.strip_casts(sd)] if sd is not None else None
                        if dn is not None and dn['k'] == 'un' and dn['op'] == '&':
                            mn = A_.ex[A_.F.strip_casts(dn['c'][0])]
                            if mn['k'] == 'member' and mn.get('arrow'):
                                yb = A_.F.strip_casts(mn['c'][0])
                                yn = A_.ex[yb]
                                yv = None
                                if A_.rpath(yb, env) == f'v{pid}->codec_setup':
                                    yv = env.get(f'v{pid}->codec_setup')
                                elif yn['k'] == 'ref' and yn['decl'].get('kind') == 'var':
                                    yd = sdefs.get(yn['decl'].get('id'))
                                    if yd is not None and A_.rpath(A_.F.strip_casts(yd), env) == f'v{pid}->codec_setup':
                                        yv = env.get(f'v{yn["decl"]["id"]}')
                                if isinstance(yv, V) and (yv.nn is False or yv.const() == 0) and yv.nn is not True:
                                    bad.setdefault(e, A_.F.s(e))
            if nd['k'] == 'call':
                for tt in P.call_targets(A_.F, e):
                    if tt.startswith(('ext:', 'cb:', 'unk:')):
                        continue
                    H = P.fn[tt]
                    for j, a in enumerate(nd.get('c', [])):
                        an = A_.ex[A_.F.strip_casts(a)]
                        if an['k'] == 'ref' and an['decl'].get('id') == pid and j < len(H.params):
                            cs = env.get(f'v{pid}->codec_setup')
                            if isinstance(cs, V) and (cs.nn is False or cs.const() == 0):
                                passed.add((tt, j))
        A.observers.append(obs)
        A.run()
        for x in sorted(passed):
            if x not in seen:
                seen.add(x)
                todo.append(x)
        e0 = sorted(bad, key=lambda x: G.ex[x].get('loc') or [0, 0])[0] if bad else None
        chk.ob(rule, G.name, f'tolerates-cleared-info:{G.params[i]["name"]}', not bad, G.where(e0) if e0 else G.where(),
               'no access through a null codec_setup is reachable' if not bad else
               f'{bad[e0]} is evaluated with codec_setup == NULL (no test of it on the way): ' +
               (context or 'vorbisfile calls this on a handle whose info was cleared by a failed header fetch at a link boundary'))
        n += 1
    return n


def _derefs_null_param(P, H, j):
    """analysed with parameter j == NULL on entry (K4), does H reach an access through it (directly or through a local that
    then holds it)?  -> the first offending node or None"""
    import absint
    from absint import V
    if H.entry is None:
        return None
    pid = H.params[j]['id']

    def part(A_, env):
        # states are kept apart by which locations hold the NULL argument (`w=w1; if(n1>n2)w=w2;`)
        return frozenset(k for k, x in env.items() if isinstance(k, str) and isinstance(x, V) and x.tag == 'nullarg')
    A = absint.Analyzer(P, H, partition=part)
    base_init = A.initial_env

    def init():
        env = base_init()
        env[f'v{pid}'] = V(0, 0, nn=False, tag='nullarg')
        return env
    A.initial_env = init
    bad = []

    def obs(A_, env, e, v):
        nd = A_.ex[e]
        b = None
        if nd['k'] == 'sub' and 'extent' not in nd:
            b = nd['c'][0]
        elif nd['k'] == 'un' and nd['op'] == '*':
            b = nd['c'][0]
        elif nd['k'] == 'member' and nd.get('arrow'):
            b = nd['c'][0]
        if b is not None:
            bv = A_.peek(env, b)
            if isinstance(bv, V) and bv.tag == 'nullarg' and (bv.nn is False or bv.const() == 0):
                bad.append(e)
    A.observers.append(obs)
    A.run()
    return sorted(bad, key=lambda x: H.ex[x].get('loc') or [0, 0])[0] if bad else None


def r03_6(chk, P):
    chk.rule('R03.6', 'a NULL that a libvorbis function can return is not dereferenced by vorbisfile: for every call in vorbisfile.c '
             'of a library function (outside vorbisfile.c) that has a literal NULL return (vorbis_window: "no window of that '
             'size"), the result is known non-null (K4) wherever it is dereferenced in the caller, and wherever it is handed to '
             'another function of vorbisfile.c either it is known non-null there or that function, analysed with the parameter '
             'NULL on entry, reaches no access through it')
    import absint
    from absint import V, Hooks
    nullable = set()
    for G in P.functions():
        if G.file.endswith('vorbisfile.c') or not G.d.get('ret_t', '').rstrip().endswith('*') or G.static:
            continue
        for r in cfg.returns(G):
            c = G.ex[r].get('c', [])
            if c and _constv(G, c[0]) == 0:
                nullable.add(P.key(G))
    n = 0
    for F in P.functions():
        if not F.file.endswith('vorbisfile.c'):
            continue
        sites = [c for c in F.calls() if any(t in nullable for t in P.call_targets(F, c))]
        if not sites:
            continue

        class H(Hooks):
            def post_call(self, A, env, e, r):
                if e in sites:
                    return V(nn=None, tag='nullable')
                return None

            def join_special(self, k, a, b):
                return a if a == b else None
        problems = {}

        def obs(A, env, e, v):
            nd = A.ex[e]
            if nd['k'] == 'call':
                for t in P.call_targets(A.F, e):
                    if t.startswith(('ext:', 'cb:', 'unk:')):
                        continue
                    G = P.fn[t]
                    for j, a in enumerate(nd.get('c', [])):
                        av = A.peek(env, a)
                        if isinstance(av, V) and av.tag == 'nullable' and av.nn is not True and j < len(G.params):
                            off = _derefs_null_param(P, G, j)
                            if off is not None:
                                problems.setdefault(e, f'{A.F.s(a)} (possibly NULL) is passed to {G.name}, which accesses '
                                                       f'{G.s(off)} (line {G.loc(off)}) without a test')
            b = None
            if nd['k'] == 'sub' and 'extent' not in nd:
                b = nd['c'][0]
            elif nd['k'] == 'un' and nd['op'] == '*':
                b = nd['c'][0]
            if b is not None:
                bv = A.peek(env, b)
                if isinstance(bv, V) and bv.tag == 'nullable' and bv.nn is not True:
                    problems.setdefault(e, f'{A.F.s(e)} dereferences a result that may be NULL')
        A = absint.Analyzer(P, F, hooks=H())
        A.observers.append(obs)
        A.run()
        for i, c in enumerate(sorted(sites, key=lambda x: F.ex[x]['loc'])):
            n += 1
        first = sorted(problems, key=lambda x: F.ex[x]['loc'])[0] if problems else None
        chk.ob('R03.6', F.name, 'nullable-results-tested', not problems, F.where(first) if first else F.where(sites[0]),
               f'{len(sites)} calls of {sorted({F.ex[c]["callee"].get("d") for c in sites})}: the result is tested or only reaches '
               'code that tolerates NULL' if not problems else '; '.join(sorted(set(problems.values())))[:400])
    return n


def _constv(F, e):
    nd = F.ex[F.strip_casts(e)]
    if nd['k'] == 'int':
        return nd['v']
    if nd['k'] == 'un' and nd['op'] == '-':
        c = _constv(F, nd['c'][0])
        return -c if c is not None else None
    return None


def r03_11(chk, P):
    chk.rule('R03.11', 'recursion in vorbisfile.c is bounded by a constant, not by the file: for every function of vorbisfile.c that can '
             'call itself (directly or through other functions of the file), every recursive call either passes a constant for a '
             'parameter whose truth the call is control-dependent on -- `if(flag) f(vf,0)`: the inner activation cannot recurse '
             'again -- or the function is reported: its stack depth grows with a quantity read from the stream (one frame per '
             'logical stream of a chained file), and a file with enough links overflows the stack')
    fns = {P.key(F): F for F in P.functions() if F.file.endswith('vorbisfile.c')}
    n = 0
    for k, F in sorted(fns.items()):
        reach = P.reachable([t for c in F.calls() for t in P.call_targets(F, c) if t in fns])
        if k not in reach:
            continue
        # direct recursive calls
        rec = [c for c in F.calls() if k in P.call_targets(F, c)]
        bounded = bool(rec)
        # K4: the state at each recursive call; the inner activation starts with the parameters bound to the argument values.
        # If a condition the recursive call is control-dependent on is infeasible in that state, the inner activation cannot
        # reach the call again: depth 1
        import absint
        at = {}

        def obs(A, env, e, v, at=at):
            if e in rec and A.final:
                at.setdefault(e, []).append((env.copy(), [A.peek(env, a) for a in A.ex[e]['c']]))
        A = absint.Analyzer(P, F)
        A.observers.append(obs)
        A.run()
        for c in rec:
            conds = [(cc, pol) for cc, pol in common.controlling_conditions(F, c)
                     if all(F.ex[q]['k'] != 'ref' or F.ex[q]['decl'].get('kind') != 'var' for q in F.walk(cc))]
            ok = bool(at.get(c)) and bool(conds)
            for (env, avs) in at.get(c, []):
                e2 = env.copy()
                for i_, p_ in enumerate(F.params):
                    if i_ < len(avs) and isinstance(avs[i_], absint.V) and absint.int_type_range(p_.get('t', '')):
                        e2[f'v{p_["id"]}'] = avs[i_]
                stopped = False
                for cc, pol in conds:
                    try:
                        if A.refine(e2.copy(), cc, pol) is None:
                            stopped = True
                    except Exception:
                        pass
                    # `if(p >= X) f(.., X-c)`: the argument is below the bound the guard tests (same expression X, c > 0)
                    cn = F.ex[F.strip_casts(cc)]
                    if pol and cn['k'] == 'bin' and cn['op'] in ('>=', '>'):
                        pl = F.ex[F.strip_casts(cn['c'][0])]
                        if pl['k'] == 'ref' and pl['decl'].get('kind') == 'param':
                            pi_ = [i_ for i_, p_ in enumerate(F.params) if p_['id'] == pl['decl'].get('id')]
                            if pi_ and pi_[0] < len(F.ex[c]['c']):
                                an = F.ex[F.strip_casts(F.ex[c]['c'][pi_[0]])]
                                if an['k'] == 'bin' and an['op'] == '-' and (common.const_val(F, an['c'][1]) or 0) > 0 and \
                                        F.s(F.strip_casts(an['c'][0])) == F.s(F.strip_casts(cn['c'][1])):
                                    stopped = True
                ok = ok and stopped
            bounded = bounded and ok
        n += 1
        chk.ob('R03.11', F.name, 'recursion-depth-constant', bounded, F.where(rec[0]) if rec else F.where(),
               f'{len(rec)} recursive call(s), each with a constant that switches the recursion off in the callee' if bounded else
               'the function calls itself with arguments computed from the file (one activation per link of a chained stream): the '
               'stack depth is chosen by the input')
    return n



def _lin_local(F, e):
    """integer expression over locals/parameters as ({var id: coef}, const) or None"""
    e = F.strip_casts(e)
    nd = F.ex[e]
    k = nd['k']
    if k == 'int':
        return ({}, nd['v'])
    if k == 'ref' and nd['decl'].get('kind') in ('var', 'param'):
        return ({nd['decl']['id']: 1}, 0)
    if k == 'bin' and nd['op'] in ('+', '-'):
        a, b = _lin_local(F, nd['c'][0]), _lin_local(F, nd['c'][1])
        if a is None or b is None:
            return None
        sg = 1 if nd['op'] == '+' else -1
        d = dict(a[0])
        for v, c in b[0].items():
            d[v] = d.get(v, 0) + sg * c
        return (d, a[1] + sg * b[1])
    if k == 'un' and nd['op'] == '-':
        a = _lin_local(F, nd['c'][0])
        return None if a is None else ({v: -c for v, c in a[0].items()}, -a[1])
    return None


def r03_13(chk, P, rule='R03.13'):
    chk.rule(rule, 'a search position that is stepped back and clamped just above a moving bound cannot sit on the clamp for ever: '
             'where a loop of vorbisfile.c computes `x -= K; if(x <= L) x = L + c;` (L another local), the value L+c is a fixed '
             'point of that update, so the step is reached only when x > L+c -- the branch conditions that control the step '
             '(dominator chain, operands unchanged since the test) entail x - L >= c+1 in the exact linear domain (linrel).  '
             'Otherwise the bisection seeks to the same byte and reads the same pages again and again once it has backed up '
             'against its lower bound: a hang that needs a long run of foreign or damaged data between two pages')
    import linrel
    import cfg as _cfg
    n = 0
    for F in P.functions():
        if not F.file.endswith('vorbisfile.c') or F.entry is None:
            continue
        loops = _cfg.loops(F)
        inloop = set()
        for body in loops.values():
            inloop |= set(body)
        for e in F.nodes('assign'):
            nd = F.ex[e]
            if nd['op'] != '=' or F.pos[e][0] not in inloop:
                continue
            l = F.ex[F.strip_casts(nd['c'][0])]
            if l['k'] != 'ref' or l['decl'].get('kind') != 'var':
                continue
            x = l['decl']['id']
            rhs = _lin_local(F, nd['c'][1])
            if rhs is None or x in rhs[0] or len(rhs[0]) != 1 or list(rhs[0].values())[0] != 1:
                continue
            L = list(rhs[0])[0]
            c = rhs[1]
            # controlled by  x <= L (+k)
            ctl = None
            for cnd, pol in common.controlling_conditions(F, e):
                cn = F.ex[F.strip_casts(cnd)]
                if cn['k'] != 'bin' or cn['op'] not in ('<', '<=', '>', '>='):
                    continue
                a, b = _lin_local(F, cn['c'][0]), _lin_local(F, cn['c'][1])
                if a is None or b is None:
                    continue
                if pol and set(a[0]) | set(b[0]) == {x, L}:
                    ctl = cnd if ctl is None or F.loc(cnd) > F.loc(ctl) else ctl
            if ctl is None:
                continue
            # the step: x -= K (K > 0) reaching the clamp without another definition of x
            steps = []
            for d in F.nodes('assign'):
                dn = F.ex[d]
                dl = F.ex[F.strip_casts(dn['c'][0])]
                if dn['op'] == '-=' and dl['k'] == 'ref' and dl['decl'].get('id') == x and F.pos[d][0] in inloop:
                    kv = common.const_val(F, dn['c'][1])
                    if kv is not None and kv > 0:
                        def redef(q, d=d):
                            qn = F.ex[q]
                            if qn['k'] == 'assign' and q not in (d, e):
                                ql = F.ex[F.strip_casts(qn['c'][0])]
                                return ql['k'] == 'ref' and ql['decl'].get('id') == x
                            return False
                        if _cfg.search(F, F.pos[d], lambda q: q == e, redef) is not None:
                            steps.append(d)
            for d in steps:
                poly = linrel.Poly()
                used = []
                for cnd, pol in common.controlling_conditions(F, d):
                    cn = F.ex[F.strip_casts(cnd)]
                    if cn['k'] != 'bin' or cn['op'] not in ('<', '<=', '>', '>=', '==', '!='):
                        continue
                    a, b = _lin_local(F, cn['c'][0]), _lin_local(F, cn['c'][1])
                    if a is None or b is None:
                        continue
                    vs = set(a[0]) | set(b[0])

                    def mod(q, vs=vs):
                        qn = F.ex[q]
                        if qn['k'] == 'assign' or (qn['k'] == 'un' and qn['op'] in ('pre++', 'pre--', 'post++', 'post--')):
                            ql = F.ex[F.strip_casts(qn['c'][0])]
                            return ql['k'] == 'ref' and ql['decl'].get('id') in vs
                        if qn['k'] == 'un' and qn['op'] == '&':
                            ql = F.ex[F.strip_casts(qn['c'][0])]
                            return ql['k'] == 'ref' and ql['decl'].get('id') in vs
                        return False
                    # a modification of an operand on a path from the test to the step that does not evaluate the test again
                    stale = False
                    for m in [q for q in F.pos if mod(q)]:
                        if _cfg.search(F, F.pos[cnd], lambda q: q == m, lambda q: q == d or q == cnd) is not None and \
                                _cfg.search(F, F.pos[m], lambda q: q == d, lambda q: q == cnd) is not None:
                            stale = True
                            break
                    if stale:
                        continue
                    lin = {f'v{v}': k_ for v, k_ in a[0].items()}
                    for v, k_ in b[0].items():
                        lin[f'v{v}'] = lin.get(f'v{v}', 0) - k_
                    cst = b[1] - a[1]                  # a - b (op) 0  <=>  lin (op) cst
                    op = cn['op']
                    if not pol:
                        op = {'<': '>=', '<=': '>', '>': '<=', '>=': '<', '==': '!=', '!=': '=='}[op]
                    if op == '<':
                        poly.add(lin, cst - 1)
                    elif op == '<=':
                        poly.add(lin, cst)
                    elif op == '>':
                        poly.add_ge(lin, cst + 1)
                    elif op == '>=':
                        poly.add_ge(lin, cst)
                    elif op == '==':
                        poly.add_eq(lin, cst)
                    else:
                        continue
                    used.append(('' if pol else '!') + F.s(cnd))
                ok = poly.entails_ge({f'v{x}': 1, f'v{L}': -1}, c + 1)
                n += 1
                xn, Ln = F.vars[x]['name'], F.vars.get(L, {}).get('name', '?')
                chk.ob(rule, F.name, f'step-back-excludes-clamp-value:{xn}#{len([q for q in F.nodes("assign") if F.ex[q]["op"] == "-=" and F.loc(q) < F.loc(d) and F.s(F.ex[q]["c"][0]) == F.s(F.ex[d]["c"][0])])}',
                       ok, F.where(d),
                       f'`{F.s(d)}` then `if({F.s(ctl)}) {F.s(e)}`: the step is controlled by {used}, which ' +
                       (f'entail {xn} - {Ln} >= {c + 1}' if ok else
                        f'do not entail {xn} - {Ln} >= {c + 1}: with {xn} == {Ln}+{c} the step and the clamp give {xn} == {Ln}+{c} again and '
                        'the loop repeats the same seek and the same reads'))
    return n

def r03_15(chk, P, rule='R03.15'):
    chk.rule(rule, 'the link count and the tables it sizes change together: in every function of vorbisfile.c that stores '
             'OggVorbis_File.links, no return is reachable on a path on which links has been stored and one of the per-link tables '
             'the clear function walks with that count (vi, vc) has not been (re)allocated by the same invocation (K2 flags per '
             'path; a table stored before the count counts too).  ov_clear runs over vf->links entries of vf->vi and vf->vc: a count '
             'raised ahead of a fallible step leaves it walking past the one-element tables when that step fails')
    from rules.c08 import VF
    tables = ('vi', 'vc')
    n = 0
    for F in P.functions():
        if not F.file.endswith('vorbisfile.c') or F.entry is None:
            continue
        st = [e for e in F.nodes('assign') if F.ex[F.strip_casts(F.ex[e]['c'][0])].get('field') == 'links'
              and F.ex[F.strip_casts(F.ex[e]['c'][0])].get('record') == 'OggVorbis_File']
        if not st:
            continue
        setters = [('links', k2.stores_field(VF, 'links', ops=None), True)]
        for t in tables:
            setters.append((t, k2.stores_field(VF, t, ops=None), True))
        A, h = k2.analyse(P, F, setters)
        bad = []
        for (e, env, v) in A.ret_states:
            fl = env.get('$flags', frozenset())
            if 'links' in fl and not set(tables) <= fl:
                bad.append((e, sorted(set(tables) - fl)))
        bad.sort(key=lambda x: F.loc(x[0]))
        n += 1
        chk.ob(rule, F.name, 'count-and-tables-change-together', not bad, F.where(bad[0][0]) if bad else F.where(st[0]),
               (f'`{F.s(bad[0][0])[:40]}` is reachable after `{F.s(st[0])}` with vf->{bad[0][1][0]} still at its old extent: ov_clear walks '
                f'vf->links entries of it') if bad else f'every return behind `{F.s(st[0])}` has (re)allocated {list(tables)}')
    return n


def run(chk, P):
    r03_2(chk, P)
    chk.floor('R03.2', 1)
    r03_5(chk, P)
    chk.floor('R03.5', 5)
    r03_6(chk, P)
    chk.floor('R03.6', 1)
    from rules import pagestate
    chk.rule('R03.14', 'a clean-up releases only what was set up: a local vorbis_info / vorbis_comment / ogg_stream_state is handed to '
             'its clear function only on paths on which it was initialised (same obligations as R12.11) -- a merged error exit that '
             'clears the locals of a header fetch which failed before its init calls follows whatever pointers the stack held')
    from rules import c12
    c12.r12_11(common.Proxy(chk, 'R03.14'), P, rule='R03.14')
    chk.floor('R03.14', 6)
    pagestate.packet_filled(chk, P, 'R03.8')
    chk.floor('R03.8', 8)
    import k3
    E = getattr(P, '_effects', None) or k3.Effects(P)
    P._effects = E
    pagestate.page_valid(chk, P, E, 'R03.9')
    chk.floor('R03.9', 20)
    chk.rule('R03.10', 'per-link tables are not indexed by the link counter of a streaming handle (one table entry, counter grows '
             'with every link played): same obligations as C09 R09.11')
    from rules import c09
    c09.r09_11(common.Proxy(chk, 'R03.10'), P, rule='R03.10')
    chk.floor('R03.10', 5)
    r03_11(chk, P)
    chk.floor('R03.11', 1)
    r03_13(chk, P)
    chk.floor('R03.13', 2)
    r03_15(chk, P)
    chk.floor('R03.15', 2)
    from rules import c07
    chk.rule('R03.12', 'no per-link value outlives a link switch: a local derived from the handle\'s current link (ov_info(vf,-1), '
             'vf->vi+vf->current_link, ...) is not used after a call that may change vf->current_link without being recomputed -- a '
             'stale channel count or block size sizes the accesses to the new link\'s decoder buffers (same obligations as R07.6)')
    c07.r07_6(common.Proxy(chk, 'R03.12'), P, E, rule='R03.12')
    chk.floor('R03.12', 3)
    r03_3(chk, P)
    chk.floor('R03.3', 10)
    chk.rule('R03.4', 'failed opens store NULL into vf->datasource before ov_clear on every path; the close callback has one '
             'guarded site; ov_fopen closes only the FILE it opened, on failure (same obligations as R12.3)')
    # reuse the C12 implementation under this rule id
    class Proxy:
        def __init__(self, chk):
            self.chk = chk

        def __getattr__(self, a):
            return getattr(self.chk, a)

        def ob(self, rule, *a, **k):
            return self.chk.ob('R03.4', *a, **k)

        def rule(self, rid, text):
            pass
    c12.r12_3(Proxy(chk), P)
    chk.floor('R03.4', 3)
    import typestate
    typestate.c03(chk, P)
    import k4rules
    k4rules.c03(chk, P)
    chk.trusted += ['clang 14 front end', 'libogg: ogg_stream_* on a cleared state fails without side effects', 'libogg: ogg_stream_packetout/packetpeek return -1, 0 or 1 and write the packet only for 1; ogg_sync_pageseek writes the page only when it returns > 0; ogg_sync_reset does not move the buffer']
    return ('Typestate analysis of the OggVorbis_File handle (ready_state vs liveness of the decoder objects) with exact '
            'summaries of the internal helpers, error-discipline rules for fallible decode calls, and path rules for the open '
            'failure paths decide that no decoder object is used while cleared, failed set-up never reaches the accumulator, and '
            'a failed open leaves the source unclosed. Value-range analysis decides link-table indexing. Does not decide loop '
            'termination over arbitrary page structure.')
