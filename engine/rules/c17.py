"""C17 — integer PCM output is the rounded, clipped, interleaved float output (partial, DESIGN 4/C17).

Decided: R17.1 every value stored to the caller's buffer is clipped to the word's range on every format path (scale,
clip constants and unsigned offset agree); R17.2 parameter checks and the frame clamp dominate all writes, loop bounds
are exactly samples and channels; R17.3 frame-major interleave and byte order per path; R17.4 bytes returned and
position advance use the same frame count; R17.5 the channel count is the current link's.  Not decided: rounding."""
import absint
import k2
import k8
from absint import V
from facts import AnalysisBroken
from rules import common
from rules.c08 import _ordinal, VF


def r17(chk, P):
    F = P.need('ov_read_filter')
    sk = k8.Skel(P, 'r')
    par = {p['name']: p for p in F.params}
    for nm in ('buffer', 'length', 'bigendianp', 'word', 'sgned'):
        chk.require(nm in par, f'ov_read_filter lost parameter {nm}')
    sg = f'v{par["sgned"]["id"]}'
    wd = f'v{par["word"]["id"]}'
    # pointer stores into the caller's buffer: *buffer++ = .. / *dest = ..   (dest derived from buffer)
    stores = []

    ftoi_args = {}

    def obs(A, env, e, v):
        nd = A.ex[e]
        if nd['k'] == 'call' and nd['callee'].get('d') == 'vorbis_ftoi' and nd.get('c') and A.final:
            av = A.peek(env, nd['c'][0])
            tmp = env.get('$tmp') or {}
            a0 = A.F.strip_casts(nd['c'][0])
            if a0 in tmp:
                av = tmp[a0]
            elif nd['c'][0] in tmp:
                av = tmp[nd['c'][0]]
            ftoi_args[e] = absint.join(ftoi_args.get(e), av) if e in ftoi_args else av
        if nd['k'] != 'assign' or nd['op'] != '=':
            return
        l = A.ex[A.F.strip_casts(nd['c'][0])]
        if not (l['k'] == 'un' and l['op'] == '*'):
            return
        base = A.ex[A.F.strip_casts(l['c'][0])]
        while base['k'] == 'un' and base['op'] in ('post++', 'pre++'):
            base = A.ex[A.F.strip_casts(base['c'][0])]
        if not (base['k'] == 'ref' and base['decl']['kind'] in ('var', 'param')):
            return
        t = base.get('t', '')
        if t not in ('char *', 'short *'):
            return
        rhs = A.F.strip_casts(nd['c'][1])
        rn = A.ex[rhs]
        rv = A.peek(env, rhs)
        # byte-wise forms val>>8 / val&0xff: the logical sample is the variable
        part = None
        if rn['k'] == 'bin' and rn['op'] in ('>>', '&'):
            part = 'hi' if rn['op'] == '>>' else 'lo'
            rv = A.peek(env, rn['c'][0])
        stores.append(dict(e=e, width=1 if t == 'char *' else 2, part=part, val=rv, sgned=env.get(sg), word=env.get(wd),
                           env={k: x for k, x in env.items() if isinstance(x, V) and isinstance(k, str) and k[0] == 'v' and k[1:].isdigit()},
                           flags=env.get('$flags', frozenset())))

    def partition(A, env):
        s = env.get(sg)
        return (env.get('$flags', frozenset()), None if s is None else (s.const() == 0))

    def clamp(A, env, e):
        nd = A.ex[e]
        if nd['k'] == 'bin' and nd['op'] in ('>', '>=', '<', '<='):
            s = sk.canon(A.F, e)
            return '/' in s and F.s(e).count('length') == 1 and 'samples' in F.s(e)
        return False
    h = k2.Flags([('clamped', clamp, True)])
    A = absint.Analyzer(P, F, hooks=h, partition=partition)
    A.observers.append(obs)
    A.run()
    chk.require(len({s['e'] for s in stores}) >= 6, f'only {len({s["e"] for s in stores})} buffer stores found in ov_read_filter')

    chk.rule('R17.1', 'every sample stored into the caller\'s buffer by ov_read_filter lies, on the signed path, in exactly '
             '[-S, S-1] and, on the unsigned path, in exactly [0, 2S-1], where S is the scale constant of that path (128 for '
             '8-bit, 32768 for 16-bit words); byte-wise stores are the high and low byte of such a value')
    chk.rule('R17.2', 'at every store into the caller\'s buffer: word >= 1, channels in [1,255], samples >= 1, the comparison of '
             'samples with length/bytespersample has been evaluated on the path, and the loop indices are bounded by samples '
             'and channels respectively')
    # scale constants per store: the float literal multiplied inside the vorbis_ftoi call that defines the value
    sid = {}
    order = sorted({s['e'] for s in stores}, key=lambda e: F.ex[e]['loc'])
    for s in stores:
        k = order.index(s['e'])
        width_bytes = 1 if (s['width'] == 1 and s['part'] is None) else 2
        S = 128 if width_bytes == 1 else 32768
        unsigned_ = s['sgned'] is not None and s['sgned'].const() == 0
        v = s['val']
        if unsigned_:
            want = (0, 2 * S - 1)
        else:
            want = (-S, S - 1)
        # on the 16-bit native signed path there is no offset; the unsigned native path adds it
        ok = (v.lo, v.hi) == want
        lab = f'store#{k}:{"unsigned" if unsigned_ else "signed"}'
        chk.ob('R17.1', F.name, lab, ok, F.where(s['e']),
               f'stored sample {v}; required exactly [{want[0]},{want[1]}] for a {"n un" if unsigned_ else " "}signed {8*width_bytes}-bit word')
        env = s['env']
        w = s['word']
        chv = [x for k2_, x in env.items() if F.vars.get(int(k2_[1:]), {}).get('name') == 'channels']
        smv = [x for k2_, x in env.items() if F.vars.get(int(k2_[1:]), {}).get('name') == 'samples']
        ok2 = w is not None and w.lo >= 1 and chv and chv[0].lo >= 1 and chv[0].hi <= 255 and smv and smv[0].lo >= 1 \
            and 'clamped' in s['flags']
        chk.ob('R17.2', F.name, lab + ':guards', bool(ok2), F.where(s['e']),
               f'word {w}, channels {chv[0] if chv else None}, samples {smv[0] if smv else None}, clamp evaluated: {"clamped" in s["flags"]}')
    # loop bounds: indices i<channels, j<samples at every store
    chsym = [f'v{i}' for i, v in F.vars.items() if v['name'] == 'channels']
    smsym = [f'v{i}' for i, v in F.vars.items() if v['name'] == 'samples']
    for s in stores:
        env = s['env']
        idx = {F.vars[int(k[1:])]['name']: x for k, x in env.items() if F.vars.get(int(k[1:]), {}).get('name') in ('i', 'j')}
        k = order.index(s['e'])
        ok = 'i' in idx and 'j' in idx and any(c in idx['i'].lt for c in chsym) and any(c in idx['j'].lt for c in smsym) \
            and idx['i'].lo >= 0 and idx['j'].lo >= 0
        chk.ob('R17.2', F.name, f'store#{k}:loop-bounds', ok, F.where(s['e']), f'i {idx.get("i")}, j {idx.get("j")}')

    chk.rule('R17.3', 'byte order: under `bigendianp` the high byte (val>>8) is stored before the low byte (val&0xff), on the '
             'other byte-wise path the low byte first; the native path stores whole 16-bit words and is taken only when host '
             'order equals the requested order')
    bw = [s for s in stores if s['part']]
    by_e = {}
    for s in bw:
        by_e[s['e']] = s
    pairs = sorted(by_e, key=lambda e: F.ex[e]['loc'])
    for a, b in zip(pairs[0::2], pairs[1::2]):
        conds = common.controlling_conditions(F, a)
        big = None
        for c, pol in conds:
            if sk.canon(F, c) == '$' and F.s(c) == 'bigendianp':
                big = pol
        first = by_e[a]['part']
        ok = big is not None and ((big and first == 'hi') or (not big and first == 'lo')) and by_e[b]['part'] != first
        chk.ob('R17.3', F.name, f'byte-order:{"big" if big else "little"}', ok, F.where(a),
               f'path bigendianp={big}: first byte stored is the {first} byte')
    chk.require(len(pairs) >= 4, 'byte-wise store pairs not found')

    chk.rule('R17.4', 'the value returned (bytes) is the frame count given to vorbis_synthesis_read times bytespersample, and '
             'bytespersample is word*channels')
    reads = list(F.calls('vorbis_synthesis_read'))
    chk.require(reads, 'ov_read_filter no longer calls vorbis_synthesis_read')
    cnt = F.s(F.ex[reads[0]]['c'][1])
    defs = common.single_defs(F)
    ok = False
    msg = ''
    for n in F.pos:
        nd = F.ex[n]
        if nd['k'] == 'ret' and nd.get('c'):
            r = F.ex[F.strip_casts(nd['c'][0])]
            if r['k'] == 'bin' and r['op'] == '*':
                a, b = F.s(r['c'][0]), F.s(r['c'][1])
                if cnt in (a, b):
                    other = r['c'][1] if a == cnt else r['c'][0]
                    on = F.ex[F.strip_casts(other)]
                    if on['k'] == 'ref' and on['decl'].get('id') in defs:
                        d = F.s(defs[on['decl']['id']])
                        ok = 'word' in d and 'channels' in d and '*' in d
                        msg = f'returns {cnt}*{F.s(other)} with {F.s(other)} = {d}'
    chk.ob('R17.4', F.name, 'bytes-returned', ok, F.where(reads[0]), msg or 'no return of count*bytespersample found')

    chk.rule('R17.8', 'samples are clipped before they are converted: at every vorbis_ftoi call of ov_read_filter the argument lies '
             'within the range of int in every state that reaches the call (K4 floating intervals, refined by the clipping '
             'comparisons).  Converting a value that does not fit an int yields INT_MIN on x86 (and is undefined in ISO C) '
             'whatever its sign, so a decoded sample far above full scale would come out as the most negative value instead of '
             'the largest ("clipped to the representable range"); decoded values are not bounded by the format')
    for i_, c_ in enumerate(sorted(ftoi_args, key=lambda x: F.ex[x]['loc'])):
        v_ = ftoi_args[c_]
        ok_ = v_ is not None and v_.lo >= -2 ** 31 and v_.hi <= 2 ** 31 - 1
        chk.ob('R17.8', F.name, f'conversion-argument-fits-int#{i_}', ok_, F.where(c_),
               f'`{F.s(c_)[:50]}`: argument {v_}' if ok_ else
               f'`{F.s(c_)[:50]}`: the argument can be {v_}: a sample beyond +-2^31/scale is converted before it is clipped and '
               'comes out as INT_MIN whatever its sign')
    chk.require(len(ftoi_args) >= 3, 'ov_read_filter: fewer than 3 vorbis_ftoi calls seen')

    chk.rule('R17.7', 'a read that delivers data never answers 0: the value of the data return of ov_read_filter (the return of '
             'frame count times bytes per frame behind vorbis_synthesis_read) is at least 1 in every state that reaches it '
             '(K4) -- 0 is the end-of-stream answer, and a buffer too small for one frame of the link actually being '
             'decoded must have been answered with an error before')
    k_ = 0
    for (e, env, v) in A.ret_states:
        nd = F.ex[e]
        if not nd.get('c'):
            continue
        r = F.ex[F.strip_casts(nd['c'][0])]
        if not (r['k'] == 'bin' and r['op'] == '*' and cnt in (F.s(r['c'][0]), F.s(r['c'][1]))):
            continue
        lo = v.lo if isinstance(v, V) else None
        okv = lo is not None and lo >= 1
        cv = A.peek(env, r['c'][0] if F.s(r['c'][0]) == cnt else r['c'][1])
        chk.ob('R17.7', F.name, f'data-return-positive#{k_}', okv, F.where(e),
               f'`{F.s(e)}` is {v} ({cnt} {cv})' if okv else
               f'`{F.s(e)}` can be {v} ({cnt} {cv}): a call that fetched and decoded data can return 0, which callers take for '
               'end of stream -- the too-small-buffer case is not rejected for the link being decoded')
        k_ += 1
    chk.require(k_ >= 1, 'ov_read_filter: data return not reached by the analysis')



def r17_10(chk, P):
    chk.rule('R17.10', 'clipping is the identity on values inside the range: a clamp helper of vorbisfile.c (floating parameters only, every '
             'return hands back one of its parameters) returns a bound parameter b only under conditions that put the value parameter '
             'at or beyond b -- the if-guards on the way to `return b` (statement tree; `fabs(x) <= c` read as -c <= x <= c), expanded to '
             'a disjunction of linear conjunctions over the parameters, entail x >= b or entail x <= b in every disjunct (exact linear '
             'domain; the conditions are homogeneous, so the integer tightening of the domain is harmless).  A clamp that sends values '
             'just inside the range to the bound (a range taken as symmetric although lo = -hi-1, a comparison against the wrong bound) '
             'still delivers only in-range words, so no range rule sees it; only samples next to full scale come out wrong')
    import linrel
    n = 0
    for F in P.functions():
        if not F.file.endswith('vorbisfile.c') or F.entry is None or len(F.params) < 2:
            continue
        if not all(p_['t'].strip() in ('float', 'double') for p_ in F.params):
            continue
        rets = list(F.nodes('ret'))
        pids = {p_['id']: p_['name'] for p_ in F.params}
        tgt = {}
        for r in rets:
            c = F.ex[r].get('c')
            rn = F.ex[F.strip_casts(c[0])] if c else None
            while rn is not None and rn['k'] == 'un' and rn['op'] in ('+',):
                rn = F.ex[F.strip_casts(rn['c'][0])]
            if rn is not None and rn['k'] == 'ref' and rn['decl'].get('kind') == 'var':
                # single exit through a result local: the sites are the places where a parameter is put into it
                vid = rn['decl']['id']
                for n_, nd_ in F.ex.items():
                    src = None
                    if nd_['k'] == 'assign' and nd_['op'] == '=' and n_ in F.pos:
                        l_ = F.ex[F.strip_casts(nd_['c'][0])]
                        if l_['k'] == 'ref' and l_['decl'].get('id') == vid:
                            src = nd_['c'][1]
                    elif nd_['k'] == 'decl' and n_ in F.pos:
                        for v_ in nd_['vars']:
                            if v_.get('id') == vid and v_.get('init'):
                                src = v_['init']
                    if src is None:
                        continue
                    sn = F.ex[F.strip_casts(src)]
                    if sn['k'] != 'ref' or sn['decl'].get('id') not in pids:
                        tgt = None
                        break
                    tgt[n_] = sn['decl']['id']
                if tgt is None:
                    break
                continue
            if rn is None or rn['k'] != 'ref' or rn['decl'].get('id') not in pids:
                tgt = None
                break
            tgt[r] = rn['decl']['id']
        if not tgt or len(set(tgt.values())) < 2:
            continue
        # the value parameter: the one every comparison of the function mentions
        cnt = {}
        for e in F.nodes('bin'):
            if F.ex[e]['op'] in ('<', '<=', '>', '>='):
                for q in F.walk(e):
                    qn = F.ex[q]
                    if qn['k'] == 'ref' and qn['decl'].get('id') in pids:
                        cnt[qn['decl']['id']] = cnt.get(qn['decl']['id'], 0) + 1
        if not cnt:
            continue
        x = max(cnt, key=lambda k_: cnt[k_])

        def lin(e):
            e = F.strip_casts(e)
            nd = F.ex[e]
            if nd['k'] == 'ref' and nd['decl'].get('id') in pids:
                return [({f'p{nd["decl"]["id"]}': 1}, 1)]           # list of (linear form, sign) alternatives: plain
            if nd['k'] == 'un' and nd['op'] == '-':
                a = lin(nd['c'][0])
                return None if a is None or len(a) != 1 else [({k_: -v for k_, v in a[0][0].items()}, 1)]
            if nd['k'] == 'call' and nd['callee'].get('d') in ('fabs', 'fabsf') and nd.get('c'):
                a = lin(nd['c'][0])
                if a is None or len(a) != 1:
                    return None
                return [(a[0][0], 1), ({k_: -v for k_, v in a[0][0].items()}, 1)]   # |t|: both t and -t
            return None

        def dnf(e, pol):
            e = F.strip_casts(e)
            nd = F.ex[e]
            if nd['k'] == 'un' and nd['op'] == '!':
                return dnf(nd['c'][0], not pol)
            if nd['k'] == 'bin' and nd['op'] in ('&&', '||'):
                a, b = dnf(nd['c'][0], pol), dnf(nd['c'][1], pol)
                if (nd['op'] == '&&') == pol:
                    return [p_ + q_ for p_ in a for q_ in b]
                return a + b
            if nd['k'] == 'bin' and nd['op'] in ('<', '<=', '>', '>='):
                op = nd['op']
                if not pol:
                    op = {'<': '>=', '<=': '>', '>': '<=', '>=': '<'}[op]
                a, b = lin(nd['c'][0]), lin(nd['c'][1])
                if a is None or b is None or (len(a) > 1 and len(b) > 1):
                    return [[]]
                # orient as  L <= R  (strictness dropped: weaker premise)
                if op in ('>', '>='):
                    a, b = b, a
                # now a <= b ; |t| on the left: both alternatives hold (conjunction); |t| on the right: one of them (disjunction)
                def row(l, r):
                    d = dict(l)
                    for k_, v in r.items():
                        d[k_] = d.get(k_, 0) - v
                    return (d, 0)
                if len(a) > 1:
                    return [[row(alt[0], b[0][0]) for alt in a]]
                if len(b) > 1:
                    return [[row(a[0][0], alt[0])] for alt in b]
                return [[row(a[0][0], b[0][0])]]
            return [[]]
        for r, b in sorted(tgt.items(), key=lambda kv: F.loc(kv[0])):
            if b == x:
                continue
            disj = [[]]
            for c, pol in common.guard_conditions(F, r):
                disj = [p_ + q_ for p_ in disj for q_ in dnf(c, pol)][:64]
            ok = True
            for conj in disj:
                po = linrel.Poly()
                for d, c0 in conj:
                    po.add(d, c0)
                ge = po.entails_ge({f'p{x}': 1, f'p{b}': -1}, 0)
                le = po.entails({f'p{x}': 1, f'p{b}': -1}, 0)
                if not (ge or le):
                    ok = False
            n += 1
            k_ = len([q for q in tgt if tgt[q] == b and F.loc(q) < F.loc(r)])
            chk.ob('R17.10', F.name, f'bound-returned-only-beyond-it:{pids[b]}#{k_}', ok, F.where(r),
                   f'`{F.s(r)}` is guarded by {[("" if p_ else "!") + F.s(c) for c, p_ in common.guard_conditions(F, r)]}: ' +
                   (f'{pids[x]} is at or beyond {pids[b]} in every case' if ok else
                    f'the guards do not place {pids[x]} at or beyond {pids[b]}: values inside the range are sent to the bound'))
    return n

def run(chk, P):
    r17(chk, P)
    chk.floor('R17.1', 6)
    chk.floor('R17.2', 12)
    chk.floor('R17.3', 2)
    chk.floor('R17.7', 1)
    chk.floor('R17.8', 3)
    r17_10(chk, P)
    chk.floor('R17.10', 2)
    chk.rule('R17.9', 'the channel count that sizes a frame is the decoded link\'s on a streaming handle too: vf->vi is indexed by '
             'vf->current_link only where the handle is known seekable (same obligations as R09.11); a streaming handle has a '
             'single info while current_link counts the links played')
    from rules import c09
    c09.r09_11(common.Proxy(chk, 'R17.9'), P, rule='R17.9')
    chk.floor('R17.9', 5)
    from rules import c09

    class Proxy:
        def __init__(self, chk, rid):
            self.chk, self.rid = chk, rid

        def __getattr__(self, a):
            return getattr(self.chk, a)

        def ob(self, rule, *a, **k):
            return self.chk.ob(self.rid, *a, **k)

        def assumed(self, rule, *a, **k):
            return self.chk.assumed(self.rid, *a, **k)

        def rule(self, rid, text):
            pass
    chk.rule('R17.5', 'the channel count (frame size, interleave stride) is taken from the link being decoded: no bare vf->vi '
             '(link 0) is dereferenced in the read path (shared implementation with C09 R09.4)')
    c09.r09_4(Proxy(chk, 'R17.5'), P)
    # R17.6: the link's channel count / info pointer is not carried across the packet fetch that may switch links
    import k3
    from rules import c07
    E = getattr(P, '_effects', None) or k3.Effects(P)
    P._effects = E
    c07.r07_6(chk, P, E, rule='R17.6', only={'ov_read_filter', 'ov_read', 'ov_read_float'})
    chk.floor('R17.6', 1)
    chk.trusted += ['clang 14 front end', 'K4 interval analysis partitioned by the sign flag', 'vorbis_ftoi returns an int (any value)']
    return ('Value-range analysis of ov_read_filter, partitioned by the signedness argument, proves that every stored sample '
            'is clipped to exactly the range of its word on all five packing paths, that parameter checks and the frame clamp '
            'precede every store, and that byte order follows the request. Rounding to nearest is not decided.')
