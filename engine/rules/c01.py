"""C01 — decoder output conforms to the specification (partial, DESIGN 4/C01).

Decided: R01.1 the bit layout every unpacker / packet reader implements equals the specification text in doc/*.tex;
R01.2 constant tables equal their specification (dB table, window shapes, floor-1 range vector); R01.3 backend
registries are exhaustive and their range checks use the registry sizes; R01.4 the decode stages run in the
specification's order.  Not decided: any sample value."""
import math
import struct

import k8
import spec
from facts import AnalysisBroken
import cfg
from rules import layout, common


def f32(x):
    return struct.unpack('f', struct.pack('f', x))[0]


def global_floats(P, name):
    gs = P.globals.get(name)
    if not gs:
        raise AnalysisBroken(f'table {name} not found')
    init = gs[0].get('init')
    if not isinstance(init, dict) or init.get('kind') != 'list':
        raise AnalysisBroken(f'table {name} has no evaluated initialiser')
    vals = init['elems']
    if not all(isinstance(v, (int, float)) for v in vals):
        raise AnalysisBroken(f'table {name}: non-numeric initialiser')
    return gs[0], [float(v) for v in vals]


def r01_2(chk, P):
    chk.rule('R01.2', 'constant tables equal the specification: FLOOR1_fromdB_LOOKUP = floor1_inverse_dB_table of '
             '10-tables.tex as IEEE single values; every window table referenced from vwin[] equals '
             'sin(pi/2*sin^2((i+1/2)/n*pi)) within one single-precision ulp and vwin[] lists them in size order 64..8192; '
             'the floor-1 range vector {256,128,86,64} of 07-floor1.tex equals the values floor1_look assigns to quant_q')
    # dB table: the one in floor1.c (decode side)
    cand = [g for g in P.globals.get('FLOOR1_fromdB_LOOKUP', []) if g['file'].endswith('floor1.c')]
    chk.require(cand, 'FLOOR1_fromdB_LOOKUP not found in floor1.c')
    g = cand[0]
    vals = [float(v) for v in g['init']['elems']]
    ref = spec.db_table()
    bad = [i for i in range(256) if i >= len(vals) or f32(ref[i]) != f32(vals[i])]
    chk.ob('R01.2', 'floor1.c', 'table:FLOOR1_fromdB_LOOKUP', len(vals) == 256 and not bad, 'lib/floor1.c',
           f'256 entries equal 10-tables.tex' if not bad and len(vals) == 256 else
           f'{len(vals)} entries; first differing index {bad[0] if bad else None}: code {vals[bad[0]] if bad and bad[0] < len(vals) else None} spec {ref[bad[0]] if bad else None}')
    # every other copy of the table (psy.c keeps one for the encoder) must be identical too
    for g2 in P.globals.get('FLOOR1_fromdB_LOOKUP', []):
        if g2 is g:
            continue
        v2 = [float(v) for v in g2['init']['elems']]
        chk.ob('R01.2', g2['file'].split('/')[-1], 'table:FLOOR1_fromdB_LOOKUP(copy)', [f32(x) for x in v2] == [f32(x) for x in vals],
               g2['file'], 'copy identical to the decode table')
    # windows
    vw = P.globals.get('vwin')
    chk.require(vw, 'vwin[] not found')
    refs = [e['name'] for e in vw[0]['init']['elems'] if isinstance(e, dict) and e.get('kind') == 'ref']
    chk.require(len(refs) == 8, f'vwin[] has {len(refs)} table references, 8 expected')
    sizes = []
    total = 0
    for nm in refs:
        g, v = global_floats(P, nm)
        n = 2 * len(v)
        sizes.append(n)
        total += len(v)
        worst = 0.0
        for i, x in enumerate(v):
            want = math.sin(math.pi / 2 * math.sin((i + .5) / n * math.pi) ** 2)
            worst = max(worst, abs(f32(want) - x))
        chk.ob('R01.2', 'window.c', f'table:{nm}', worst <= 6.0e-8, 'lib/window.c',
               f'{len(v)} entries, max |code - formula| = {worst:.3g}')
    chk.ob('R01.2', 'window.c', 'table:vwin-order', sizes == [64, 128, 256, 512, 1024, 2048, 4096, 8192], 'lib/window.c',
           f'window sizes in vwin[] order: {sizes}')
    # floor1 range vector: values floor1_look gives quant_q for multiplier 1..4
    want = spec.floor1_ranges()
    F = P.need('floor1_look')
    sk = k8.Skel(P, 'r')
    stores = []     # (case label or None, rhs expr)

    def visit(s, case):
        if s is None:
            return
        if s['k'] == 'seq':
            cur = case
            for c in s['c']:
                t = c
                while t and t['k'] in ('case', 'default'):
                    cur = t.get('v') if t['k'] == 'case' else 'default'
                    t = t.get('body')
                if t is not None:
                    visit(t, cur)
        elif s['k'] == 'switch':
            sw = sk.canon(F, s['cond'])
            visit(s['body'], None if sw != '.mult' else 'in-mult-switch')
        elif s['k'] == 'if':
            visit(s.get('then'), case)
            visit(s.get('else'), case)
        elif s['k'] in ('for', 'while', 'do', 'label', 'case', 'default'):
            visit(s.get('body'), case)
        elif s['k'] == 'expr':
            nd = F.ex[s['e']]
            if nd['k'] == 'assign' and nd['op'] == '=':
                lhs = F.ex[F.strip_casts(nd['c'][0])]
                if lhs['k'] == 'member' and lhs['field'] == 'quant_q':
                    stores.append((case, nd['c'][1]))
    visit(F.d['body'], None)
    chk.require(stores, 'floor1_look no longer assigns quant_q')
    code = []
    try:
        for m in (1, 2, 3, 4):
            vals = set()
            for case, rhs in stores:
                if isinstance(case, int) and case != m:
                    continue
                vals.add(common.consteval(P, F, rhs, {'.mult': m}, sk.canon))
            code.append(sorted(vals)[0] if len(vals) == 1 else sorted(vals))
    except common.NotConst as e:
        raise AnalysisBroken(f'floor1_look: quant_q expression cannot be evaluated per multiplier ({e})')
    chk.ob('R01.2', 'floor1_look', 'table:floor1-range-vector', code == want, F.where(),
           f'quant_q for multiplier 1..4 = {code}; 07-floor1.tex: {want}')
    return total + 256


def r01_3(chk, P):
    chk.rule('R01.3', 'backend registries: _floor_P/_residue_P/_mapping_P have exactly the 2/3/1 entries the specification '
             'allows, every decode slot of every bundle is a function, and the type range checks of _vorbis_unpack_books '
             'compare against those sizes')
    want = {'_floor_P': (2, ['unpack', 'look', 'free_info', 'free_look', 'inverse1', 'inverse2'], 'floor_type'),
            '_residue_P': (3, ['unpack', 'look', 'free_info', 'free_look', 'inverse'], 'residue_type'),
            '_mapping_P': (1, ['unpack', 'free_info', 'inverse'], 'map_type')}
    U = P.need('_vorbis_unpack_books')
    sk = k8.Skel(P, 'r')
    for reg, (n, slots, typefield) in want.items():
        gs = P.globals.get(reg)
        chk.require(gs, f'registry {reg} not found')
        elems = [e for e in gs[0]['init']['elems'] if isinstance(e, dict) and e.get('kind') == 'ref']
        chk.ob('R01.3', 'registry.c', f'{reg}:size', len(elems) == n and len(gs[0]['init']['elems']) == n, 'lib/registry.c',
               f'{len(elems)} bundles, specification allows {n} types')
        for e in elems:
            b = P.globals.get(e['name'])
            chk.require(b, f'bundle {e["name"]} not found')
            d = dict(zip(b[0]['init']['fields'], b[0]['init']['elems']))
            missing = [s for s in slots if not (isinstance(d.get(s), dict) and d[s].get('fn'))]
            chk.ob('R01.3', 'registry.c', f'{e["name"]}:decode-slots', not missing, b[0]['file'],
                   'all decode slots are functions' if not missing else f'null or missing slots: {missing}')
        # range check constant
        consts = set()
        for x in U.pos:
            nd = U.ex[x]
            if nd['k'] == 'bin' and nd['op'] in ('>=', '>'):
                l = sk.canon(U, nd['c'][0])
                v = common.const_val(U, nd['c'][1])
                if l == f'.{typefield}[$]' and v is not None:
                    consts.add(v if nd['op'] == '>=' else v + 1)
        chk.ob('R01.3', '_vorbis_unpack_books', f'{typefield}:range-check', consts == {n}, U.where(),
               f'{typefield}[i] is rejected when >= {sorted(consts)}; registry has {n} entries')


STAGES = ['floor-decode(inverse1)', 'nonzero-propagate', 'residue-decode(inverse)', 'inverse-coupling',
          'floor-curve(inverse2)', 'inverse-mdct']


def r01_4(chk, P):
    chk.rule('R01.4', 'in every function registered as vorbis_func_mapping.inverse the top-level statements realise the '
             'stages of 04-codec.tex 4.3.2-4.3.7 in order: floor inverse1 calls, non-zero propagation over coupling '
             'steps, residue inverse calls, inverse coupling, floor inverse2 calls, mdct_backward (stages are recognised '
             'by resolved calls/slot calls, also through helper functions)')
    invs = sorted(P.slots.get(('vorbis_func_mapping', 'inverse'), ()))
    chk.require(invs, 'vorbis_func_mapping.inverse has no registered function')
    sk = k8.Skel(P, 'r')
    tagmemo = {}

    def fn_tags(G, seen):
        k = P.key(G)
        if k in tagmemo:
            return tagmemo[k]
        if k in seen:
            return set()
        seen = seen | {k}
        t = stmt_tags(G, G.d['body'], seen)
        tagmemo[k] = t
        return t

    def expr_tags(G, e, seen):
        t = set()
        for n in G.walk(e):
            nd = G.ex[n]
            if nd['k'] != 'call':
                continue
            cal = nd['callee']
            if cal.get('slot') == ['vorbis_func_floor', 'inverse1']:
                t.add(0)
            elif cal.get('slot') == ['vorbis_func_residue', 'inverse']:
                t.add(2)
            elif cal.get('slot') == ['vorbis_func_floor', 'inverse2']:
                t.add(4)
            elif cal.get('d') == 'mdct_backward':
                t.add(5)
            elif cal.get('d'):
                H = P.get(cal['d'], G)
                if H is not None and H.static:
                    t |= fn_tags(H, seen)
        return t

    def stmt_tags(G, s, seen, in_coupling=False):
        t = set()
        if s is None:
            return t
        k = s['k']
        if k == 'seq':
            for c in s['c']:
                t |= stmt_tags(G, c, seen, in_coupling)
        elif k in ('expr', 'decl', 'ret'):
            t |= expr_tags(G, s['e'], seen)
            if in_coupling:
                for n in G.walk(s['e']):
                    nd = G.ex[n]
                    if nd['k'] == 'assign':
                        lt = G.ex[G.strip_casts(nd['c'][0])].get('t', '')
                        t.add(3 if lt in ('float', 'double') else 1)
        elif k == 'if':
            t |= expr_tags(G, s['cond'], seen)
            t |= stmt_tags(G, s.get('then'), seen, in_coupling) | stmt_tags(G, s.get('else'), seen, in_coupling)
        elif k in ('for', 'while', 'do'):
            coup = in_coupling
            if s.get('cond') and 'coupling_steps' in sk.canon(G, s['cond']):
                coup = True
            if k == 'for' and s.get('init'):
                t |= stmt_tags(G, s['init'], seen, False)
                if 'coupling_steps' in str(s['init']) or _mentions(G, s['init'], 'coupling_steps'):
                    coup = True
            t |= stmt_tags(G, s.get('body'), seen, coup)
        elif k in ('switch', 'case', 'default', 'label'):
            t |= stmt_tags(G, s.get('body'), seen, in_coupling)
        return t

    def _mentions(G, s, field):
        if s.get('e'):
            for n in G.walk(s['e']):
                if G.ex[n]['k'] == 'member' and G.ex[n]['field'] == field:
                    return True
        return False

    for inv in invs:
        F = P.need(inv)
        body = F.d['body']
        seq = body['c'] if body['k'] == 'seq' else [body]
        order = []
        for st in seq:
            tg = stmt_tags(F, st, {P.key(F)})
            if 1 in tg and 3 in tg:
                # int flags and float data in one coupling loop: decide by majority kind is not possible -> both
                pass
            for x in sorted(tg):
                order.append((x, st['loc'][0]))
        firsts = {}
        lasts = {}
        for i, (x, ln) in enumerate(order):
            firsts.setdefault(x, i)
            lasts[x] = i
        missing = [STAGES[i] for i in range(6) if i not in firsts]
        ok = not missing
        msg = ''
        if ok:
            for a in range(5):
                if lasts[a] > firsts[a + 1]:
                    ok = False
                    msg = f'stage "{STAGES[a + 1]}" (line {order[firsts[a + 1]][1]}) starts before stage "{STAGES[a]}" has finished (line {order[lasts[a]][1]})'
                    break
        else:
            msg = f'stages not found: {missing}'
        chk.ob('R01.4', inv, 'stage-order', ok, F.where(),
               msg or ' -> '.join(f'{STAGES[x]}@{ln}' for x, ln in order))


def r01_5(chk, P):
    chk.rule('R01.5', 'codebook value tables are addressed by the entry number, as the specification defines both lookup types '
             '(03-codebook: type 1 takes the entry number\'s base-lookup_values digits, type 2 reads at entry*dimensions+i): in '
             '_book_unquantize the effective index of every read of the quantised value list (directly or through a row '
             'pointer) depends on the induction variable of the loop over [0,entries), not on the count of used entries')
    F = P.need('_book_unquantize')
    defs = common.single_defs(F)
    # loops over the entries of the book
    ent = {}
    for h, body in cfg.loops(F).items():
        t = F.blocks[h].get('term')
        if not t or t.get('cond') is None:
            continue
        c = F.ex[F.strip_casts(t['cond'])]
        if c['k'] == 'bin' and c['op'] == '<':
            a = F.ex[F.strip_casts(c['c'][0])]
            b = F.ex[F.strip_casts(c['c'][1])]
            if a['k'] == 'ref' and b['k'] == 'member' and b.get('field') == 'entries':
                ent[h] = a['decl']['id']
    chk.require(ent, '_book_unquantize: loops over the entries not found')

    def vars_of(e, depth=0):
        out = set()
        for n in F.walk(e):
            nd = F.ex[n]
            if nd['k'] == 'ref' and nd['decl']['kind'] in ('var', 'param'):
                out.add(nd['decl']['id'])
                d = defs.get(nd['decl']['id'])
                if d is not None and depth < 3:
                    out |= vars_of(d, depth + 1)
        return out

    k = 0
    for e in sorted(F.pos):
        nd = F.ex[e]
        if nd['k'] != 'sub':
            continue
        base = F.ex[F.strip_casts(nd['c'][0])]
        idxvars = None
        if base['k'] == 'member' and base.get('field') == 'quantlist':
            idxvars = vars_of(nd['c'][1])
        elif base['k'] == 'ref' and base['decl']['kind'] == 'var':
            d = defs.get(base['decl']['id'])
            if d is not None and any(F.ex[x]['k'] == 'member' and F.ex[x].get('field') == 'quantlist' for x in F.walk(d)):
                idxvars = vars_of(nd['c'][1]) | vars_of(d)
        if idxvars is None:
            continue
        loops_here = [h for h, body in cfg.loops(F).items() if F.pos[e][0] in body and h in ent]
        ok = any(ent[h] in idxvars for h in loops_here)
        chk.ob('R01.5', F.name, f'value-row-addressed-by-entry#{k}', ok, F.where(e),
               f'{F.s(e)}: the index depends on the entry loop variable' if ok else
               f'{F.s(e)}: the index does not depend on the entry number (variables used: '
               f'{sorted(F.vars.get(v, {}).get("name", str(v)) for v in idxvars)}): with unused entries the wrong rows are read')
        k += 1
    chk.require(k >= 2, '_book_unquantize: reads of the value list not found')


def r01_6(chk, P):
    chk.rule('R01.6', 'samples per block (04-codec.tex, "window_blocksize(previous_window)/4+window_blocksize(current_window)/4"): in '
             'vorbis_synthesis_blockin every linear combination of block sizes other than a bare block size -- the amounts by which '
             'pcm_current, the running granule position and the sample counter advance -- equals blocksizes[P]/4 + blocksizes[C]/4, '
             'where C is the window flag the function copies from the submitted block and P is the location that received the '
             'old value of C before that copy (both discovered from the stores; reads through single-definition locals are '
             'resolved at the point of the definition)')
    from fractions import Fraction
    from rules.c19 import _linform
    F = P.need('vorbis_synthesis_blockin')
    chk.require(len(F.params) >= 2 and F.params[0].get('record') and F.params[1].get('record'),
                'vorbis_synthesis_blockin: (state, block) parameters not found')
    srec, brec = F.params[0]['record'], F.params[1]['record']
    defs = common.single_defs(F)

    def before(a, b):
        pa, pb = F.pos.get(a), F.pos.get(b)
        if pa is None or pb is None:
            return False
        if pa[0] == pb[0]:
            return pa[1] < pb[1]
        return common._reaches_without(F, pa[0], pb[0], None) and not common._reaches_without(F, pb[0], pa[0], None)

    # which fields index the block-size table
    idx_fields = set()
    for n in F.nodes('sub'):
        b = F.ex[F.strip_casts(F.ex[n]['c'][0])]
        if b['k'] == 'member' and b['field'] == 'blocksizes':
            for m in F.walk(F.ex[n]['c'][1]):
                md = F.ex[m]
                if md['k'] == 'member':
                    idx_fields.add((md['record'], md['field']))
    # C: state field stored from a block field; P: state field stored from C before that
    cstore = pstore = None
    for n in F.nodes('assign'):
        nd = F.ex[n]
        if nd['op'] != '=':
            continue
        l, r = F.ex[F.strip_casts(nd['c'][0])], F.ex[F.strip_casts(nd['c'][1])]
        if l['k'] == 'member' and r['k'] == 'member' and l['record'] == srec and r['record'] == brec \
                and (l['record'], l['field']) in idx_fields:
            cstore = (n, l['field'], r['field'])
    chk.require(cstore is not None, 'vorbis_synthesis_blockin: the store of the submitted block\'s window flag into the state was not found')
    for n in F.nodes('assign'):
        nd = F.ex[n]
        if nd['op'] != '=':
            continue
        l, r = F.ex[F.strip_casts(nd['c'][0])], F.strip_casts(nd['c'][1])
        if l['k'] == 'member' and l['record'] == srec and (srec, l['field']) in idx_fields and l['field'] != cstore[1] \
                and before(n, cstore[0]):
            rd = F.ex[r]
            while rd['k'] == 'ref' and rd['decl'].get('kind') == 'var' and defs.get(rd['decl'].get('id')) is not None:
                rd = F.ex[F.strip_casts(defs[rd['decl']['id']])]
            if rd['k'] == 'member' and (rd['record'], rd['field']) == (srec, cstore[1]):
                pstore = (n, l['field'])
    chk.require(pstore is not None, 'vorbis_synthesis_blockin: the store that keeps the previous window flag was not found')
    written = {}
    for n in F.nodes('assign'):
        l = F.ex[F.strip_casts(F.ex[n]['c'][0])]
        if l['k'] == 'member':
            written.setdefault((l['record'], l['field']), []).append(n)

    def cls(e, at, depth=0):
        """'P', 'C', ('const', v) or a text: which window flag the index expression e, evaluated at `at`, denotes"""
        nd = F.ex[F.strip_casts(e)]
        if nd['k'] == 'int':
            return ('const', nd['v'])
        if nd['k'] == 'ref' and nd['decl'].get('kind') == 'var' and depth < 3:
            d = defs.get(nd['decl'].get('id'))
            if d is not None:
                return cls(d, d, depth + 1)
        if nd['k'] == 'member':
            key = (nd['record'], nd['field'])
            if key == (srec, cstore[1]):
                return 'C' if before(cstore[0], at) else ('P' if before(at, cstore[0]) else '?')
            if key == (srec, pstore[1]) and before(pstore[0], at) and len(written.get(key, [])) == 1:
                return 'P'
            if key == (brec, cstore[2]) and not written.get(key):
                return 'C'
        return F.s(F.strip_casts(e))

    def atom(n):
        nd = F.ex[n]
        if nd['k'] == 'sub':
            b = F.ex[F.strip_casts(nd['c'][0])]
            if b['k'] == 'member' and b['field'] == 'blocksizes':
                return ('bs', cls(nd['c'][1], n))
        return '@' + F.s(n)

    want = {('bs', 'P'): Fraction(1, 4), ('bs', 'C'): Fraction(1, 4)}
    seen = set()
    k = 0
    cands = [n for n in F.pos if F.ex[n]['k'] in ('bin', 'sub')]
    for n in sorted(cands):
        lf = _linform(F, n, defs, atom=atom)
        if lf is None or not lf or not all(isinstance(a, tuple) and a[0] == 'bs' for a in lf):
            continue
        # maximal: the parent is not itself such a form
        p = F.sparent.get(n)
        while p is not None and F.ex[p]['k'] == 'cast':
            p = F.sparent.get(p)
        if p is not None and F.ex[p]['k'] in ('bin',):
            plf = _linform(F, p, defs, atom=atom)
            if plf is not None and plf and all(isinstance(a, tuple) and a[0] == 'bs' for a in plf):
                continue
        if len(lf) == 1 and list(lf.values()) == [Fraction(1)]:
            continue        # a bare block size
        ok = all(lf.get(a, 0) == want.get(a, 0) for a in set(lf) | set(want))
        show = ' + '.join(f'{c}*blocksizes[{a[1]}]' for a, c in sorted(lf.items(), key=str))
        chk.ob('R01.6', F.name, f'block-advance#{k}', ok, F.where(n),
               f'{F.s(n)} = {show} with P={F.params[0]["name"]}->{pstore[1]} (stored from {cstore[1]} before) and '
               f'C={F.params[0]["name"]}->{cstore[1]} (stored from the block\'s {cstore[2]})' if ok else
               f'{F.s(n)} = {show}: the specification returns blocksizes[previous]/4 + blocksizes[current]/4 samples per block, '
               f'previous = {F.params[0]["name"]}->{pstore[1]}, current = {F.params[0]["name"]}->{cstore[1]}; this amount moves a '
               f'sample counter by something else')
        k += 1
    return k


def r01_7(chk, P):
    chk.rule('R01.7', 'residue type 2 de-interleaving (08-residue.tex: the decoded vector v is distributed as out[j][i] = v[i*ch+j]): in '
             'every codebook routine that stores through a two-level subscript a[C][I] of its vector-array parameter, with C '
             'wrapping to 0 at the channel-count parameter and I advancing at the wrap, the cursor starts at the position the '
             'offset parameter names: I0*ch + C0 == offset and 0 <= C0 < ch, where I0 and C0 are the initial values the function '
             'assigns outside its loops, evaluated exactly for offset = 0..11 and ch = 1..4 (the format allows a residue to '
             'begin, and partitions to have sizes, that are not multiples of the channel count)')
    n = 0
    for F in P.functions():
        if not F.file.endswith('codebook.c'):
            continue
        pp = [p_ for p_ in F.params if p_.get('t', '').replace(' ', '') in ('float**',)]
        if not pp:
            continue
        aid = pp[0]['id']
        cur = None
        for e in F.nodes('assign'):
            l = F.ex[F.strip_casts(F.ex[e]['c'][0])]
            if l['k'] != 'sub':
                continue
            inner = F.ex[F.strip_casts(l['c'][0])]
            if inner['k'] != 'sub':
                continue
            base = F.ex[F.strip_casts(inner['c'][0])]
            if base['k'] != 'ref' or base['decl'].get('id') != aid:
                continue

            def var_of(x):
                nd = F.ex[F.strip_casts(x)]
                if nd['k'] == 'un' and nd['op'] in ('post++', 'pre++'):
                    nd = F.ex[F.strip_casts(nd['c'][0])]
                return nd['decl'].get('id') if nd['k'] == 'ref' and nd['decl'].get('kind') == 'var' else None
            C, I = var_of(inner['c'][1]), var_of(l['c'][1])
            if C is not None and I is not None:
                cur = (e, C, I)
        if cur is None:
            continue
        e, C, I = cur
        # the wrap: C = 0 controlled by C == <param>
        chp = None
        for a in F.nodes('assign'):
            nd = F.ex[a]
            l = F.ex[F.strip_casts(nd['c'][0])]
            if nd['op'] == '=' and l['k'] == 'ref' and l['decl'].get('id') == C and common.const_val(F, nd['c'][1]) == 0:
                for c, pol in common.controlling_conditions(F, a):
                    cn = F.ex[F.strip_casts(c)]
                    if cn['k'] == 'bin' and cn['op'] == '==' and pol:
                        x, y = F.ex[F.strip_casts(cn['c'][0])], F.ex[F.strip_casts(cn['c'][1])]
                        if x['k'] == 'ref' and x['decl'].get('id') == C and y['k'] == 'ref' and y['decl'].get('kind') == 'param':
                            chp = y['decl']['name']
        if chp is None:
            continue
        inloop = set()
        for h, body in cfg.loops(F).items():
            inloop |= body

        def init_of(vid):
            out = []
            for q in F.pos:
                nd = F.ex[q]
                if nd['k'] == 'decl':
                    for v in nd['vars']:
                        if v.get('id') == vid and v.get('init'):
                            out.append(v['init'])
                elif nd['k'] == 'assign' and nd['op'] == '=':
                    l = F.ex[F.strip_casts(nd['c'][0])]
                    if l['k'] == 'ref' and l['decl'].get('id') == vid and F.pos[q][0] not in inloop:
                        out.append(nd['c'][1])
            return out[-1] if out else None
        c0, i0 = init_of(C), init_of(I)
        chk.require(c0 is not None and i0 is not None, f'{F.name}: initial values of the de-interleave cursor not found')
        others = sorted({F.ex[q]['decl']['name'] for x in (c0, i0) for q in F.walk(x)
                         if F.ex[q]['k'] == 'ref' and F.ex[q]['decl'].get('kind') == 'param' and F.ex[q]['decl']['name'] != chp})
        offp = others[0] if len(others) == 1 else None
        if offp is None:
            ints = [p_['name'] for p_ in F.params if p_['name'] != chp and p_.get('t') in ('long', 'int')]
            offp = ints[0] if ints else None
        chk.require(offp is not None, f'{F.name}: the offset parameter was not identified')
        bad = None
        for ch in range(1, 5):
            for off in range(0, 12):
                try:
                    ci = common.consteval(P, F, F.strip_casts(c0), {offp: off, chp: ch}, lambda F_, x: F_.s(x))
                    ii = common.consteval(P, F, F.strip_casts(i0), {offp: off, chp: ch}, lambda F_, x: F_.s(x))
                except common.NotConst as ex:
                    raise AnalysisBroken(f'{F.name}: cursor initialiser not evaluable ({ex})')
                if not (ii * ch + ci == off and 0 <= ci < ch) and bad is None:
                    bad = (off, ch, ii, ci)
        n += 1
        chk.ob('R01.7', F.name, 'deinterleave-cursor-starts-at-offset', bad is None, F.where(e),
               f'{F.vars[I]["name"]}0 = {F.s(i0)}, {F.vars[C]["name"]}0 = {F.s(c0)}: {F.vars[I]["name"]}0*{chp}+{F.vars[C]["name"]}0 == {offp} for all 48 '
               f'(offset, ch) pairs' if bad is None else
               f'{F.vars[I]["name"]}0 = {F.s(i0)}, {F.vars[C]["name"]}0 = {F.s(c0)}: for {offp}={bad[0]}, {chp}={bad[1]} the first value lands at '
               f'sample {bad[2]} of channel {bad[3]}, the specification puts v[{bad[0]}] at sample {bad[0] // bad[1]} of channel '
               f'{bad[0] % bad[1]} -- and nothing restricts residue begin / partition size to multiples of the channel count')
    return n


def r01_8(chk, P):
    chk.rule('R01.8', 'saturated search hints only widen the search: the codeword decoder bisects between two bounds it unpacks from a '
             'table word (the loop guarded by hi-lo>1).  The packer saturates each hint field from above (a store of the constant '
             'under a `>` test against it), so a decoded LOWER bound must not decrease when its field saturates -- it is the field '
             'with a non-negative coefficient -- and a decoded UPPER bound must not decrease either: it has to be "count minus '
             'field", a negative coefficient on the field (linear forms of the unpacking expressions; bit-slices of the table '
             'word are the atoms).  An upper bound stored as itself is pulled below the codeword by the saturation for every '
             'book with more used entries than the field can hold, and those codewords decode to the wrong entry')
    from fractions import Fraction
    n = 0
    for F in P.functions():
        if not F.file.endswith('codebook.c'):
            continue
        # the bisection: a loop whose guard is (U - L > c)
        for h, body in cfg.loops(F).items():
            t = F.blocks[h].get('term') or {}
            c = t.get('cond')
            if c is None:
                continue
            cn = F.ex[F.strip_casts(c)]
            if not (cn['k'] == 'bin' and cn['op'] == '>'):
                continue
            d = F.ex[F.strip_casts(cn['c'][0])]
            if not (d['k'] == 'bin' and d['op'] == '-'):
                continue
            u, l = F.ex[F.strip_casts(d['c'][0])], F.ex[F.strip_casts(d['c'][1])]
            if not (u['k'] == 'ref' and l['k'] == 'ref' and u['decl'].get('kind') == 'var' and l['decl'].get('kind') == 'var'):
                continue
            uid, lid = u['decl']['id'], l['decl']['id']

            def lin(e):
                """{atom text: coefficient} with bit-slices (x & mask, x >> k & mask) as atoms; None if not linear"""
                nd = F.ex[F.strip_casts(e)]
                if nd['k'] == 'int':
                    return {1: Fraction(nd['v'])}
                if nd['k'] == 'bin' and nd['op'] in ('+', '-'):
                    a, b = lin(nd['c'][0]), lin(nd['c'][1])
                    if a is None or b is None:
                        return None
                    out = dict(a)
                    for k_, v in b.items():
                        out[k_] = out.get(k_, 0) + (v if nd['op'] == '+' else -v)
                    return out
                if nd['k'] == 'bin' and nd['op'] == '&':
                    return {'slice:' + F.s(F.strip_casts(e), names=False): Fraction(1)}
                if nd['k'] in ('member', 'ref', 'sub'):
                    return {'val:' + F.s(F.strip_casts(e), names=False): Fraction(1)}
                return None
            for vid, want_sign, role in ((lid, 1, 'lower'), (uid, -1, 'upper')):
                for e in sorted(F.nodes('assign'), key=lambda x: F.ex[x].get('loc') or [0, 0]):
                    nd = F.ex[e]
                    lhs = F.ex[F.strip_casts(nd['c'][0])]
                    if nd['op'] != '=' or lhs['k'] != 'ref' or lhs['decl'].get('id') != vid or F.pos[e][0] in body:
                        continue
                    lf = lin(nd['c'][1])
                    if lf is None:
                        continue
                    sl = {k_: v for k_, v in lf.items() if isinstance(k_, str) and k_.startswith('slice:')}
                    if not sl:
                        continue
                    ok = all((v > 0) == (want_sign > 0) for v in sl.values())
                    n += 1
                    chk.ob('R01.8', F.name, f'{role}-bound-hint-widens-under-saturation@{F.loc(e)}', ok, F.where(e),
                           f'`{F.s(e)}`: the {role} bound moves {"up" if want_sign > 0 else "down"} with its hint field' if ok else
                           f'`{F.s(e)}`: the {role} bound is taken from the hint field with the wrong sign: when the packer saturates the '
                           'field (books with more used entries than it can hold) the bound moves inside the range that holds the '
                           'codeword')
    return n



def r01_9(chk, P):
    chk.rule('R01.9', 'the "has residue" flags are propagated over the coupling steps in order and on the vector being updated '
             '(04-codec 4.3.4: "if either [no_residue] entry for the magnitude or the angle channel of step i is false, both '
             'are set to false" -- a flag set by one step is seen by the next): in every function registered as '
             'vorbis_func_mapping.inverse, each store of a constant into a flag vector at coupling_mag[i] / coupling_ang[i] is '
             'controlled by a condition that reads that same vector at coupling_mag[i] and coupling_ang[i], and no other vector.  '
             'A condition on the original floor results instead of the running flags differs only for chained coupling steps '
             '((0,1),(1,2)) with residue 0/1, which the encoder never emits')
    invs = sorted(P.slots.get(('vorbis_func_mapping', 'inverse'), ()))
    chk.require(invs, 'vorbis_func_mapping.inverse has no registered function')
    n = 0
    todo_f = []
    for inv in invs:
        F0 = P.need(inv)
        for k_ in sorted(P.reachable([P.key(F0)])):
            G = P.fn.get(k_)
            # the function itself and the file-local helpers it calls (an extracted coupling loop)
            if G is not None and G.entry is not None and G.file == F0.file and (G is F0 or G.static) and G not in todo_f:
                todo_f.append(G)
    for F in todo_f:
        defs = common.single_defs(F)

        def coupling_sub(e):
            """X[...coupling_mag/ang...] -> (text of X, 'coupling_mag'|'coupling_ang') or None"""
            nd = F.ex[F.strip_casts(e)]
            base = idx = None
            if nd['k'] == 'sub':
                base, idx = nd['c'][0], nd['c'][1]
            elif nd['k'] == 'un' and nd['op'] == '*':
                # *(X+i), or *p with `int *p=X+i;` / `p=&X[i];`
                t = F.strip_casts(nd['c'][0])
                tn = F.ex[t]
                if tn['k'] == 'ref' and tn['decl'].get('kind') == 'var' and tn['decl'].get('id') in defs:
                    t = F.strip_casts(defs[tn['decl']['id']])
                    tn = F.ex[t]
                if tn['k'] == 'bin' and tn['op'] == '+':
                    base, idx = tn['c'][0], tn['c'][1]
                elif tn['k'] == 'un' and tn['op'] == '&' and F.ex[F.strip_casts(tn['c'][0])]['k'] == 'sub':
                    sn = F.ex[F.strip_casts(tn['c'][0])]
                    base, idx = sn['c'][0], sn['c'][1]
            if base is None:
                return None
            nd = {'c': [base, idx]}
            todo = [nd['c'][1]]
            hops = 0
            while todo and hops < 6:
                hops += 1
                for q in F.walk(todo.pop()):
                    qn = F.ex[q]
                    if qn['k'] == 'member' and qn['field'] in ('coupling_mag', 'coupling_ang'):
                        return (F.s(F.strip_casts(nd['c'][0])), qn['field'])
                    if qn['k'] == 'ref' and qn['decl'].get('kind') == 'var' and qn['decl'].get('id') in defs:
                        todo.append(defs[qn['decl']['id']])      # `int mag=info->coupling_mag[i];`
            return None
        k = 0
        for e in sorted(F.nodes('assign'), key=lambda x: F.loc(x)):
            nd = F.ex[e]
            if nd['op'] != '=' or common.const_val(F, nd['c'][1]) is None:
                continue
            tgt = coupling_sub(nd['c'][0])
            if tgt is None or F.ex[F.strip_casts(nd['c'][0])].get('t') not in ('int', 'long', 'char', 'unsigned char', 'short'):
                continue
            reads = set()
            for cnd, pol in common.enclosing_ifs(F, e):
                for q in F.walk(cnd):
                    r = coupling_sub(q)
                    if r is not None:
                        reads.add(r)
            same = {f for (b, f) in reads if b == tgt[0]}
            other = sorted({b for (b, f) in reads if b != tgt[0]})
            ok = same == {'coupling_mag', 'coupling_ang'} and not other
            n += 1
            chk.ob('R01.9', F.name, f'flag-propagation-reads-the-vector-it-updates:{tgt[1]}#{k}', ok, F.where(e),
                   f'`{F.s(e)}` is controlled by reads of {sorted(reads)}' +
                   ('' if ok else f': the step does not test the running flags of `{tgt[0]}` at both channels of the step'
                    + (f' (it reads {other} instead, which an earlier step cannot have updated)' if other else '')))
            k += 1
    return n

def r01_10(chk, P):
    chk.rule('R01.10', 'floor curves are read from the packet channel by channel (04-codec 4.3.2: "for each channel i in order from 0 ... '
             'read the floor"; only the residue vectors are grouped by submap): in every function registered as '
             'vorbis_func_mapping.inverse, each call through vorbis_func_floor.inverse1 -- the one floor routine that reads packet '
             'bits -- sits in exactly one loop, that loop runs to the channel count, and the call does not depend on a test of '
             'chmuxlist.  A loop nest by submap reads the same floors from other bit positions as soon as the channel-to-submap '
             'list is not non-decreasing, which the bundled encoder never writes')
    import cfg
    invs = sorted(P.slots.get(('vorbis_func_mapping', 'inverse'), ()))
    chk.require(invs, 'vorbis_func_mapping.inverse has no registered function')
    n = 0
    for inv in invs:
        F0 = P.need(inv)
        fs = [F0] + [P.fn[k_] for k_ in sorted(P.reachable([P.key(F0)])) if k_ in P.fn and P.fn[k_] is not F0 and P.fn[k_].file == F0.file
                     and P.fn[k_].static and P.fn[k_].entry is not None]
        for F in fs:
            calls = [c for c in F.calls() if F.ex[c]['callee'].get('slot') == ['vorbis_func_floor', 'inverse1']]
            if not calls:
                continue
            loops = cfg.loops(F)
            defs = common.single_defs(F)

            def mentions(e, field, depth=0):
                for q in F.walk(e):
                    qn = F.ex[q]
                    if qn['k'] == 'member' and qn['field'] == field:
                        return True
                    if qn['k'] == 'ref' and qn['decl'].get('kind') == 'var' and qn['decl'].get('id') in defs and depth < 2 \
                            and mentions(defs[qn['decl']['id']], field, depth + 1):
                        return True
                return False
            for i, c in enumerate(sorted(calls, key=lambda x: F.ex[x].get('loc') or [0, 0])):
                b = F.pos[c][0]
                enc = [h for h, body in loops.items() if b in body]
                by_ch = [h for h in enc if (F.blocks[h].get('term') or {}).get('cond') is not None
                         and mentions(F.blocks[h]['term']['cond'], 'channels')]
                filt = [cnd for cnd, pol in common.controlling_conditions(F, c) if mentions(cnd, 'chmuxlist')]
                # a helper that decodes one channel's floor is called from the channel loop of the mapping function
                if F is not F0 and not enc:
                    continue
                ok = len(enc) == 1 and len(by_ch) == 1 and not filt
                chk.ob('R01.10', F.name, f'floor-read-in-channel-order#{i}', ok, F.where(c),
                       'one enclosing loop, over the channels; no channel filter' if ok else
                       f'{len(enc)} enclosing loop(s), {len(by_ch)} of them over the channels' +
                       (f'; the call depends on `{F.s(filt[0])}`' if filt else '') +
                       ': the floors are not read in channel order')
                n += 1
    return n


def r01_11(chk, P):
    chk.rule('R01.11', 'the classification codewords of a residue are read in pass 0 whenever there are partitions to read, whether or '
             'not any classification has a book (08-residue.tex, packet decode steps 3-12: the only early exit is n_to_read == 0): '
             'where a decode routine reaches its classification read (vorbis_book_decode on the phrase book) only inside a loop '
             'bounded by a field of the look-up structure, every function in the slot vorbis_func_residue.look guarantees that '
             'field >= 1 at its returns (K4 on the look function).  A pass count taken from the highest cascade bit alone is 0 for '
             'a residue without books: its codewords stay in the packet and the next submap decodes from the wrong bit position')
    import absint
    looks = sorted(P.slots.get(('vorbis_func_residue', 'look'), ()))
    invs = sorted(P.slots.get(('vorbis_func_residue', 'inverse'), ()))
    chk.require(looks and invs, 'residue look / inverse slots empty')
    roots = [P.key(P.need(x)) for x in invs]
    reach = [P.fn[k] for k in sorted(set(roots) | set(P.reachable(roots))) if k in P.fn]
    guar = {}
    for ln in looks:
        L = P.need(ln)
        A = absint.Analyzer(P, L)
        A.run()
        g = {}
        for (e, env, v) in A.ret_states:
            if v is not None and (v.nn is False or v.const() == 0):
                continue
            c = L.ex[e].get('c')
            rn = L.ex[L.strip_casts(c[0])] if c else None
            if rn is None or rn['k'] != 'ref':
                g = None
                break
            pre = f'v{rn["decl"]["id"]}->'
            for k_, x in env.items():
                if isinstance(k_, str) and k_.startswith(pre) and isinstance(x, absint.V) and '[' not in k_[len(pre):] and '->' not in k_[len(pre):]:
                    f = k_[len(pre):]
                    g[f] = min(g.get(f, x.lo), x.lo) if f in g else x.lo
        guar[ln] = g
    n = 0
    for F in reach:
        for c in F.calls('vorbis_book_decode'):
            a = F.ex[c].get('c') or []
            if not a or 'phrasebook' not in F.s(a[0]):
                continue
            fields = set()
            for cond, pol in common.controlling_conditions(F, c):
                for q in F.walk(cond):
                    qn = F.ex[q]
                    if qn['k'] == 'member' and qn.get('record', '').startswith('vorbis_look_residue') and not qn.get('t', '').endswith('*'):
                        fields.add(qn['field'])
            if not fields:
                n += 1
                chk.ob('R01.11', F.name, 'classification-read-in-pass-0', True, F.where(c),
                       'the classification read is not under a condition on the look-up structure')
                continue
            for f in sorted(fields):
                bad = [ln for ln in looks if guar.get(ln) is None or guar[ln].get(f, 0) < 1]
                n += 1
                chk.ob('R01.11', F.name, f'classification-read-in-pass-0:{f}>=1', not bad, F.where(c),
                       (f'`{F.s(c)}` runs only inside a loop bounded by look->{f}, and {bad[0]} can return with {f} = '
                        f'{guar[bad[0]].get(f, 0) if guar.get(bad[0]) else "?"}: a residue whose cascades are all 0 reads no classification '
                        f'codeword although the specification reads one per channel and partition group') if bad else
                       f'look->{f} >= 1 at every return of {looks}')
    return n


def run(chk, P):
    chk.rule('R01.1', 'for every specification section with a bit layout the sequence of field widths in the TeX source '
             '(document order, consecutive duplicates collapsed, computed widths as V) is a linearisation of the reader '
             'function\'s layout skeleton (branch arms in any order)')
    n = layout.spec_vs_reader(chk, 'R01.1', P)
    chk.floor('R01.1', 12)
    ncon = r01_2(chk, P)
    chk.floor('R01.2', 11)
    r01_3(chk, P)
    chk.floor('R01.3', 12)
    r01_4(chk, P)
    chk.floor('R01.4', 1)
    r01_5(chk, P)
    chk.floor('R01.5', 2)
    r01_6(chk, P)
    chk.floor('R01.6', 1)
    r01_7(chk, P)
    chk.floor('R01.7', 1)
    r01_8(chk, P)
    chk.floor('R01.8', 2)
    r01_9(chk, P)
    chk.floor('R01.9', 2)
    r01_10(chk, P)
    chk.floor('R01.10', 1)
    r01_11(chk, P)
    chk.floor('R01.11', 2)
    chk.rule('R01.12', 'the decoder hands each residue back end the channels of its submap slot by slot: in mapping0_inverse the '
             '"do not decode" flag and the vector put into a bundle slot belong to the same channel and are filed under the one '
             'running slot counter (shared implementation with C05 R05.8, decode side only).  With a single submap slot and channel '
             'number coincide, so only streams with two or more submaps show a flag filed under the channel number')
    from rules import c05
    c05.r05_8(common.Proxy(chk, 'R01.12', only=lambda fn, cons: fn != 'mapping0_forward'), P)
    if not any(o.rule == 'R01.12' for o in chk.obs):
        # the `chmuxlist[j]==i` guard form is what the shared rule anchors in; a decoder that bundles differently has no instance here
        chk.ob('R01.12', 'mapping0_inverse', 'no-bundle-guard-of-that-form', True, 'lib/mapping0.c', 'no block guarded by chmuxlist[J]==I on the decode side in this tree')
    chk.rule('R01.13', 'a residue back end that skips the channels marked "do not decode" decodes exactly the remaining vectors: the count '
             'handed to the shared residue walker is the compaction counter (shared implementation with C05 R05.13, decode side)')
    c05.r05_13(common.Proxy(chk, 'R01.13', only=lambda fn, cons: fn.endswith('_inverse')), P)
    chk.floor('R01.13', 2)
    chk.notes.append(f'R01.2 compared {ncon} table constants')
    chk.trusted += ['clang 14 front end and constant evaluator', 'the specification sources doc/*.tex of the repository are the oracle',
                    'width extraction from the TeX text (engine/spec.py) recognises the phrasings used in the pinned documents; '
                    'an unrecognised section is analysis-broken, not a pass']
    return ('The specification text shipped in doc/ is parsed as an independent oracle and compared with the resolved program: '
            'bit layouts of all header and packet readers, constant tables after evaluation by the compiler front end, registry '
            'sizes and the order of decode stages. Decides that the decoder parses the format the specification defines and '
            'uses the specified tables in the specified stage order; does not decide any sample value (arithmetic inside a '
            'stage is out of reach of static analysis here).')
