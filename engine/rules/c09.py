"""C09 — opening a chained file accounts for every link and every sample (partial, DESIGN 4/C09).

Decided: R09.1 per-link tables are filled and read under one link index with fixed slot roles (subscripts are linear in
one link variable with the table's own coefficients); R09.3 totals are sums over exactly all links; R09.4 per-link
set-up data is never taken from link 0 by shortcut where a link is selected.  Not decided: that the number of links, the
lengths and the contents found by the bisection are right for a given file."""
import absint
import cfg
import k8
from absint import V
from facts import AnalysisBroken
from rules import common
from rules.c08 import VF

# per-link tables of OggVorbis_File: allowed (coefficient, offset) forms of a subscript in terms of the link variable
TABLES = {
    'offsets': {(1, 0), (1, 1)},          # offsets[L] .. offsets[L+1] bound link L
    'dataoffsets': {(1, 0)},
    'serialnos': {(1, 0)},
    'vi': {(1, 0)},
    'vc': {(1, 0)},
    'pcmlengths': {(2, 0), (2, 1)},       # even slot: initial granule offset of link L; odd slot: length of link L
}
# while the tables are being built, the recursion frame that found link m+1 stores that link's entries
BUILD_EXTRA = {'offsets': {(1, 1)}, 'dataoffsets': {(1, 1)}, 'serialnos': {(1, 1)}, 'vi': {(1, 1)}, 'vc': {(1, 1)},
               'pcmlengths': {(2, 2), (2, 3)}}
BUILDERS = {'_bisect_forward_serialno'}
# serialnos doubles as the first link's BOS serial list while only partially open (slot 1 = count, 2.. = list)
PARTIAL_OPEN = {'_ov_open1': 'serialnos[0..] holds current serial, count and BOS serial list until _open_seekable2 rebuilds the table',
                '_open_seekable2': 'reads the partial-open serial list (serialnos+2, serialnos[1]) and fills link 0 entries'}


def linear_form(P, F, sk, idx):
    """index expression as a*L+b in terms of a single variable/field L -> (L canon, a, b) or ('const', 0, b) or None"""
    leaves = set()
    st = [idx]
    while st:
        n = st.pop()
        nd = F.ex[n]
        if nd['k'] in ('ref',) and nd['decl']['kind'] in ('var', 'param'):
            leaves.add(sk.canon(F, n, {nd['decl']['id']: '%' + nd['decl']['name']}))
        elif nd['k'] == 'member':
            leaves.add(sk.canon(F, n))
        else:
            st += [c for c in nd.get('c', []) if c]
    if not leaves:
        v = common.const_val(F, idx)
        return ('const', 0, v) if v is not None else None
    if len(leaves) != 1:
        return None
    L = next(iter(leaves))

    def canon(F_, e):
        nd = F_.ex[e]
        if nd['k'] == 'ref' and nd['decl']['kind'] in ('var', 'param'):
            return sk.canon(F_, e, {nd['decl']['id']: '%' + nd['decl']['name']})
        return sk.canon(F_, e)
    try:
        v0 = common.consteval(P, F, idx, {L: 0}, canon)
        v1 = common.consteval(P, F, idx, {L: 1}, canon)
        v2 = common.consteval(P, F, idx, {L: 2}, canon)
    except common.NotConst:
        return None
    if v2 - v1 != v1 - v0:
        return None
    return (L, v1 - v0, v0)


def table_accesses(P, F):
    """(node, table, index expr id or None for bare pointer use)"""
    out = []
    for n in F.pos:
        nd = F.ex[n]
        if nd['k'] == 'member' and nd.get('record') == VF and nd['field'] in TABLES:
            p = F.sparent.get(n)
            while p is not None and F.ex[p]['k'] == 'cast':
                n2 = p
                p = F.sparent.get(p)
            pn = F.ex[p] if p is not None else None
            if pn and pn['k'] == 'sub' and F.strip_casts(pn['c'][0]) == n:
                out.append((p, nd['field'], pn['c'][1]))
            elif pn and pn['k'] == 'bin' and pn['op'] in ('+',) and nd['field'] in ('vi', 'vc', 'serialnos'):
                other = pn['c'][1] if F.strip_casts(pn['c'][0]) == n else pn['c'][0]
                out.append((p, nd['field'], other))
            else:
                out.append((n, nd['field'], None))
    return out


def r09_1(chk, P):
    chk.rule('R09.1', 'every subscript of a per-link table of the handle (offsets, dataoffsets, serialnos, vi, vc, pcmlengths) is '
             'linear in one link variable L with the coefficients of that table: offsets[L|L+1], dataoffsets/serialnos/vi/vc[L], '
             'pcmlengths[2L] (initial offset) and pcmlengths[2L+1] (length); the recursion frame that builds the tables may '
             'in addition store the entries of link m+1 (L+1, 2L+2, 2L+3); constant subscripts are link 0\'s entries and are '
             'allowed in the open path only')
    sk = k8.Skel(P, 'r')
    n = 0
    for F in P.functions():
        if not F.file.endswith('vorbisfile.c'):
            continue
        for (node, tab, idx) in table_accesses(P, F):
            if idx is None:
                continue
            n += 1
            cons = f'{tab}[{F.s(idx)}]'
            if F.name in PARTIAL_OPEN and tab == 'serialnos':
                chk.assumed('R09.1', P.key(F), cons, F.where(node), PARTIAL_OPEN[F.name])
                continue
            lf = linear_form(P, F, sk, idx)
            if lf is None:
                chk.ob('R09.1', P.key(F), cons, False, F.where(node), 'subscript is not linear in a single link variable')
                continue
            L, a, b = lf
            allowed = set(TABLES[tab])
            if F.name in BUILDERS:
                allowed |= BUILD_EXTRA[tab]
            if L == 'const':
                # link 0's own slots: 0 for the plain tables, 0/1 for pcmlengths, 0/1 for offsets
                ok = (b in (0, 1) if tab in ('pcmlengths', 'offsets') else b == 0) and F.name in ('_open_seekable2', '_ov_open1')
                chk.ob('R09.1', P.key(F), cons, ok, F.where(node),
                       f'constant slot {b}: link 0 entry written/read by the open path' if ok else
                       f'constant slot {b} of a per-link table outside the open path: link 0 is used whatever the link')
                continue
            ok = (a, b) in allowed
            chk.ob('R09.1', P.key(F), cons, ok, F.where(node),
                   f'{a}*{L}+{b}' + ('' if ok else f' is not one of the forms {sorted(allowed)} of table {tab}'))
    return n


def r09_3(chk, P):
    chk.rule('R09.3', 'the i<0 branches of ov_pcm_total, ov_time_total and ov_raw_total add the per-link value over exactly '
             '0 <= i < vf->links: the index passed to the recursive call ranges over [0, links) and the accumulator starts at 0')
    for fn in ('ov_pcm_total', 'ov_time_total', 'ov_raw_total'):
        F = P.need(fn)
        rec = [c for c in F.calls(fn)]
        chk.require(rec, f'{fn} has no summing recursion any more')
        seen = []

        def obs(A, env, e, v):
            if e in rec:
                seen.append(A.peek(env, A.ex[e]['c'][1]))
        A = absint.Analyzer(P, F)
        A.observers.append(obs)
        A.run()
        j = None
        for x in seen:
            j = absint.join(j, x)
        ok = j is not None and j.lo == 0 and f'{VF}.links' in j.lt
        # the loop starts at 0 and steps by one: lo==0 proves the start; the exit condition i<links proves the end
        chk.ob('R09.3', fn, 'sum-over-all-links', ok, F.where(rec[0]), f'link index passed to the per-link call: {j}')
        # accumulator initialised to zero and returned
        ok2 = False
        for n in F.pos:
            nd = F.ex[n]
            if nd['k'] == 'assign' and nd['op'] == '+=' and any(x in rec for x in F.walk(nd['c'][1])):
                acc = F.ex[F.strip_casts(nd['c'][0])]
                if acc['k'] == 'ref':
                    d = [x for x in F.pos if F.ex[x]['k'] == 'decl' and any(v.get('id') == acc['decl']['id'] for v in F.ex[x]['vars'])]
                    for x in d:
                        for v in F.ex[x]['vars']:
                            if v.get('id') == acc['decl']['id'] and v.get('init') is not None:
                                iv = F.ex[F.strip_casts(v['init'])]
                                ok2 = iv['k'] in ('int', 'flt') and iv['v'] == 0
        chk.ob('R09.3', fn, 'accumulator-starts-at-zero', ok2, F.where(rec[0]), 'accumulator initialised to 0 and incremented by each link\'s value')


HALFRATE_OK = {'vorbis_synthesis_halfrate_p', 'vorbis_synthesis_halfrate'}
MGMT = {'realloc', 'free', 'calloc', 'malloc', 'memset'}
OPEN_PHASE = {'_ov_open1': 'only link 0 exists while the handle is partially open',
              '_open_seekable2': 'computes link 0\'s own initial offset and entries'}


def r09_4(chk, P):
    chk.rule('R09.4', 'per-link set-up data is taken from the link it belongs to: in vorbisfile.c a bare vf->vi / vf->vc (link 0) '
             'is dereferenced or handed to a libvorbis function only where the stream is known not to be seekable (one link), in '
             'the open path, or for the half-rate flag which all links share (R20.3); everywhere else the pointer is indexed by '
             'a link expression or obtained through ov_info/ov_comment')
    sk = k8.Skel(P, 'r')
    n = 0
    for F in P.functions():
        if not F.file.endswith('vorbisfile.c'):
            continue
        for (node, tab, idx) in table_accesses(P, F):
            if tab not in ('vi', 'vc') or idx is not None:
                continue
            p = F.sparent.get(node)
            while p is not None and F.ex[p]['k'] == 'cast':
                p = F.sparent.get(p)
            pn = F.ex[p] if p is not None else None
            use = None
            if pn is None:
                continue
            if pn['k'] == 'assign' and F.strip_casts(pn['c'][0]) == node:
                continue                                  # the table pointer itself is (re)assigned
            if pn['k'] == 'bin' and pn['op'] in ('==', '!=', '&&', '||'):
                continue                                  # null test
            if pn['k'] == 'un' and pn['op'] == '!':
                continue
            if pn['k'] == 'call':
                d = pn['callee'].get('d')
                if d in MGMT or d in HALFRATE_OK:
                    continue
                use = f'passed to {d or "a function"}'
            elif pn['k'] == 'member' and pn['arrow']:
                use = f'dereferenced (->{pn["field"]})'
            elif pn['k'] == 'un' and pn['op'] == '*':
                use = 'dereferenced'
            elif pn['k'] in ('ret', 'decl', 'assign'):
                use = 'copied'
            else:
                # a condition like if(vf->vi && ...)
                conds = [c for b in F.blocks.values() for c in [b.get('term', {}).get('cond')] if c]
                if node in conds or p in conds:
                    continue
                use = f'used in {pn["k"]}'
            n += 1
            cons = f'{tab}:{use}'
            if F.name in OPEN_PHASE:
                chk.assumed('R09.4', P.key(F), cons, F.where(node), OPEN_PHASE[F.name])
                continue
            conds = common.controlling_conditions(F, node)
            nonseek = any((sk.canon(F, c) == '.seekable' and not pol) or (sk.canon(F, c) == '!.seekable' and pol) for c, pol in conds)
            # no link selected yet (ready_state below STREAMSET): link 0 is the documented answer of the accessors
            nolink = any(sk.canon(F, c) in ('(.ready_state>=3)', '(.ready_state>2)') and not pol for c, pol in conds) or \
                any(sk.canon(F, c) in ('(.ready_state<3)', '(.ready_state<=2)') and pol for c, pol in conds)
            nonseek = nonseek or nolink
            chk.ob('R09.4', P.key(F), cons, nonseek, F.where(node),
                   'under a `!vf->seekable` / no-link-selected test: the stream has a single set-up in view' if nonseek else
                   f'link 0\'s {tab} is {use} although the function may be working on another link')
    return n


def r09_5(chk, P):
    chk.rule('R09.5', 'the open-time link scan (everything reachable from _bisect_forward_serialno and _initial_pcmoffset) never reads '
             'vf->current_link: while the tables are being built the handle has no current link, and the set-up of the link '
             'being scanned is passed explicitly')
    roots = [P.key(P.need('_bisect_forward_serialno')), P.key(P.need('_initial_pcmoffset'))]
    par = P.reachable(roots)
    n = 0
    for k in sorted(par):
        if k not in P.fn:
            continue
        F = P.fn[k]
        if not F.file.endswith('vorbisfile.c'):
            continue
        reads = []
        for x in F.pos:
            nd = F.ex[x]
            if nd['k'] == 'member' and nd.get('record') == VF and nd['field'] == 'current_link':
                p = F.sparent.get(x)
                if p is not None and F.ex[p]['k'] == 'assign' and F.ex[p]['op'] == '=' and F.strip_casts(F.ex[p]['c'][0]) == x:
                    continue
                reads.append(x)
        n += 1
        chk.ob('R09.5', k, 'no-current-link-during-scan', not reads, F.where(reads[0]) if reads else F.where(),
               'does not read current_link' if not reads else f'reads vf->current_link (`{F.s(F.sparent.get(reads[0], reads[0]))[:60]}`) '
               'while the link tables are still being built', path=P.path_to(par, k) if reads else None)
    return n


def r09_6(chk, P):
    chk.rule('R09.6', 'the first packet after a (re)start contributes no samples: every accumulation X += (last+this)>>2 of block '
             'overlaps in vorbisfile.c (initial granule offset of a link, raw seek, sample-accurate seek), where `last` is the '
             'local that is afterwards set to `this`, is evaluated only while `last` cannot hold the value it is initialised / '
             'reset with (K4: the interval of `last` at the accumulation excludes that constant).  Sibling sites of one '
             'computation must agree on this')
    import absint
    n = 0
    for F in P.functions():
        if not F.file.endswith('vorbisfile.c'):
            continue
        sites = []
        for e in F.pos:
            nd = F.ex[e]
            if nd['k'] != 'assign' or nd['op'] != '+=':
                continue
            r = F.ex[F.strip_casts(nd['c'][1])]
            if not (r['k'] == 'bin' and r['op'] == '>>' and common.const_val(F, r['c'][1]) == 2):
                continue
            a = F.ex[F.strip_casts(r['c'][0])]
            if not (a['k'] == 'bin' and a['op'] == '+'):
                continue
            x, y = (F.ex[F.strip_casts(c)] for c in a['c'])
            if x['k'] != 'ref' or y['k'] != 'ref':
                continue
            ix, iy = x['decl'].get('id'), y['decl'].get('id')
            # which of the two is copied from the other afterwards?
            last = None
            for q in F.pos:
                qn = F.ex[q]
                if qn['k'] == 'assign' and qn['op'] == '=':
                    l, rr = F.ex[F.strip_casts(qn['c'][0])], F.ex[F.strip_casts(qn['c'][1])]
                    if l['k'] == 'ref' and rr['k'] == 'ref':
                        if l['decl'].get('id') == ix and rr['decl'].get('id') == iy:
                            last = (ix, a['c'][0] if F.ex[F.strip_casts(a['c'][0])] is x else a['c'][1])
                        elif l['decl'].get('id') == iy and rr['decl'].get('id') == ix:
                            last = (iy, a['c'][1] if F.ex[F.strip_casts(a['c'][1])] is y else a['c'][0])
            if last:
                sites.append((e, last[0], last[1]))
        if not sites:
            continue
        # constants `last` is initialised / reset with
        inits = {}
        for (e, lid, le_) in sites:
            cs = set()
            var = F.vars.get(lid, {})
            for q, qn in F.ex.items():
                if qn['k'] == 'decl':
                    for v in qn.get('vars', []):
                        if v.get('id') == lid and v.get('init') is not None:
                            c = _constv(F, v['init'])
                            if c is not None:
                                cs.add(c)
                if qn['k'] == 'assign' and qn['op'] == '=' and q in F.pos:
                    l = F.ex[F.strip_casts(qn['c'][0])]
                    if l['k'] == 'ref' and l['decl'].get('id') == lid:
                        c = _constv(F, qn['c'][1])
                        if c is not None:
                            cs.add(c)
            inits[lid] = cs
        seen = {}

        def obs(A, env, e, v):
            for (se, lid, le_) in sites:
                if e == se:
                    seen[se] = absint.join(seen.get(se), env.get(f'v{lid}') or absint.TOP)
        A = absint.Analyzer(P, F)
        A.observers.append(obs)
        A.run()
        for i, (e, lid, le_) in enumerate(sorted(sites, key=lambda t: F.ex[t[0]]['loc'])):
            v = seen.get(e)
            nm = F.vars.get(lid, {}).get('name', '?')
            cs = inits.get(lid) or set()
            if v is None:
                chk.ob('R09.6', F.name, f'overlap-sum-skips-first-packet#{i}', True, F.where(e), 'the accumulation is unreachable')
                n += 1
                continue
            incl = sorted(c for c in cs if v.lo <= c <= v.hi and c not in v.ne)
            ok = bool(cs) and not incl
            chk.ob('R09.6', F.name, f'overlap-sum-skips-first-packet#{i}', ok, F.where(e),
                   f'{nm} is {v} at the accumulation, its start value(s) {sorted(cs)} excluded' if ok else
                   f'{nm} can still hold its start value {incl or sorted(cs)} at the accumulation ({nm} is {v}): the first packet, which '
                   'produces no samples, is counted')
            n += 1
    return n


def r09_7(chk, P):
    chk.rule('R09.7', 'the downward link search ends on a link: where a per-link table is subscripted, after the loop, by the '
             'variable L of a search `for(L=links-1; L>=0; L--){ total-=length(L); if(X>=total)break; }`, L is provably '
             'non-negative at the subscript (K4), or the searched value X is provably non-negative when the test is made '
             '(lemma: the remaining total is 0 at link 0, so the search stops there at the latest).  A search entered with a '
             'possibly negative X (the position -1 left by a failed seek) runs off the tables: vi[-1]')
    import absint
    sk = k8.Skel(P, 'r')
    n = 0
    for F in P.functions():
        if not F.file.endswith('vorbisfile.c'):
            continue
        loops = cfg.loops(F)
        searches = []        # (header, L var id, body, [(cond node, X expr id)])
        for h, body in loops.items():
            t = F.blocks[h].get('term')
            if not t or t.get('cond') is None:
                continue
            c = F.ex[F.strip_casts(t['cond'])]
            if not (c['k'] == 'bin' and c['op'] == '>=' and common.is_zero(F, c['c'][1])):
                continue
            lv = F.ex[F.strip_casts(c['c'][0])]
            if lv['k'] != 'ref' or lv['decl'].get('kind') != 'var':
                continue
            tests = []
            for b in body:
                if b == h:
                    continue
                tb = F.blocks[b].get('term')
                if not tb or tb.get('cond') is None or len(F.blocks[b]['succs']) != 2:
                    continue
                cn = F.ex[F.strip_casts(tb['cond'])]
                if cn['k'] == 'bin' and cn['op'] in ('>=', '<=') and F.blocks[b]['succs'][0] not in body:
                    x = cn['c'][0] if cn['op'] == '>=' else cn['c'][1]
                    tests.append((F.strip_casts(tb['cond']), F.strip_casts(x)))
            if tests:
                searches.append((h, lv['decl']['id'], body, tests))
        if not searches:
            continue
        acc = [(node, tab, idx) for (node, tab, idx) in table_accesses(P, F) if idx is not None]
        uses = []
        for (h, lid, body, tests) in searches:
            for (node, tab, idx) in acc:
                if F.pos[node][0] in body:
                    continue
                if any(F.ex[x]['k'] == 'ref' and F.ex[x]['decl'].get('id') == lid for x in F.walk(idx)) and \
                        cfg.search(F, (h, -1), lambda q, node=node: q == node, lambda q: False) is not None:
                    uses.append((node, tab, idx, h, lid, tests))
        if not uses:
            continue
        lvals, xvals = {}, {}

        def obs(A, env, e, v):
            for (node, tab, idx, h, lid, tests) in uses:
                if e == node:
                    lvals[node] = absint.join(lvals.get(node), env.get(f'v{lid}') or absint.TOP)
                for (cnode, x) in tests:
                    if e == cnode:
                        xvals[cnode] = absint.join(xvals.get(cnode), A.peek(env, x))
        A = absint.Analyzer(P, F)
        A.observers.append(obs)
        A.run()
        for i, (node, tab, idx, h, lid, tests) in enumerate(sorted(uses, key=lambda u: F.ex[u[0]]['loc'])):
            lv = lvals.get(node)
            nm = F.vars.get(lid, {}).get('name', '?')
            if lv is None:
                continue
            n += 1
            if lv.lo >= 0:
                chk.ob('R09.7', F.name, f'{tab}[{F.s(idx)}]#{i}', True, F.where(node), f'{nm} is {lv} at the subscript')
                continue
            xs = [(c_, xvals.get(c_)) for (c_, x) in tests]
            lemma = bool(xs) and all(xv is not None and xv.lo >= 0 for (_, xv) in xs)
            chk.ob('R09.7', F.name, f'{tab}[{F.s(idx)}]#{i}', lemma, F.where(node),
                   f'searched value {[str(xv) for _, xv in xs]} is non-negative at the test: the search stops at link 0 at the latest'
                   if lemma else
                   f'{nm} can be -1 here ({lv}): the search over the links is entered with a value that may be negative '
                   f'({[F.s(x) + " is " + str(xvals.get(c_)) for (c_, x) in tests]}), no link matches and the loop runs off the table')
    return n


def _constv(F, e):
    nd = F.ex[F.strip_casts(e)]
    if nd['k'] == 'int':
        return nd['v']
    if nd['k'] == 'un' and nd['op'] == '-':
        c = _constv(F, nd['c'][0])
        return -c if c is not None else None
    return None


SERIAL_SETTERS = {'ogg_stream_reset_serialno', 'ogg_stream_init', 'ogg_stream_clear'}


def _handle_state(F, n):
    """tracked handle state a member node denotes: 'offset' (vf->offset) or 'os.serialno' (vf->os.serialno)"""
    nd = F.ex[n]
    if nd['k'] != 'member':
        return None
    if nd.get('record') == VF and nd['field'] == 'offset':
        return 'offset'
    if nd['field'] == 'serialno' and nd.get('record') == 'ogg_stream_state':
        b = F.ex[F.strip_casts(nd['c'][0])]
        if b['k'] == 'member' and b.get('record') == VF and b['field'] == 'os':
            return 'os.serialno'
    return None


def _prov_env(chk, P, E):
    """last-writer / provenance machinery shared by R09.8 and R09.9 -> (H, pv, expand)"""
    import prov
    H = P.need('_fetch_headers')
    # who may write the tracked state
    off_writers = {k for k, sm in E.summ.items() if any(r == VF and f == 'offset' for (o, r, f) in sm['stores'])}
    ser_writers = set()
    direct = set()
    for F in P.functions():
        if any(F.ex[c]['callee'].get('d') in SERIAL_SETTERS for c in F.calls()):
            direct.add(P.key(F))
    changed = True
    ser_writers = set(direct)
    while changed:
        changed = False
        for F in P.functions():
            k = P.key(F)
            if k in ser_writers:
                continue
            for c in F.calls():
                if any(t in ser_writers for t in P.call_targets(F, c)):
                    ser_writers.add(k)
                    changed = True
                    break
    chk.require(P.key(H) in off_writers and P.key(H) in ser_writers, '_fetch_headers no longer establishes the position and the serial number')

    def call_writes(F, c):
        ws = set()
        nm = F.ex[c]['callee'].get('d')
        tg = P.call_targets(F, c)
        if any(t in off_writers for t in tg):
            ws.add('offset')
        if nm in SERIAL_SETTERS or any(t in ser_writers for t in tg):
            ws.add('os.serialno')
        return ws

    cache = {}

    def pv(F):
        k = P.key(F)
        if k not in cache:
            cache[k] = prov.Prov(P, F, _handle_state, call_writes, array_fields=TABLES)
        return cache[k]

    def expand(F, atoms, depth, trail):
        """replace ('param', i) by the provenance of the argument at every call site of F"""
        out = set()
        for a in atoms:
            if a[0] != 'param' or depth >= 3:
                out.add(a + (trail,) if a[0] == 'state' else a)
                continue
            sites = []
            for G in P.functions():
                for c in G.calls(F.name):
                    if P.key(F) in P.call_targets(G, c) and a[1] < len(G.ex[c]['c']):
                        sites.append((G, c))
            if not sites:
                out.add(a)
            for G, c in sites:
                arg = G.ex[c]['c'][a[1]]
                sub = pv(G).prov_at(arg, c)
                out |= expand(G, sub, depth + 1, trail + (f'{F.params[a[1]]["name"]} <- {G.name}:{G.loc(c)}',))
        return out

    return H, pv, expand


def r09_8(chk, P, E):
    chk.rule('R09.8', 'a link\'s table entries come from that link\'s header fetch: wherever a value stored into a per-link table of '
             'the handle derives (through locals, reaching definitions; through parameters, every call site) from a read of the '
             'handle\'s stream position vf->offset or stream serial number vf->os.serialno, the nearest preceding call that may '
             'write that state (K3 write sets for the position; transitive callers of ogg_stream_reset_serialno/_init/_clear '
             'for the serial number) is the header fetch _fetch_headers (or there is none since function entry): the read '
             'sees this link\'s header fetch, not a later page fetch or a deeper recursion level')
    H, pv, expand = _prov_env(chk, P, E)
    n = 0
    for F in P.functions():
        if not F.file.endswith('vorbisfile.c'):
            continue
        stores = []
        for e in F.nodes('assign'):
            nd = F.ex[e]
            l = F.ex[F.strip_casts(nd['c'][0])]
            if l['k'] != 'sub':
                continue
            b = F.ex[F.strip_casts(l['c'][0])]
            if b['k'] == 'member' and b.get('record') == VF and b['field'] in TABLES:
                stores.append((e, b['field']))
        if not stores:
            continue
        A = pv(F)
        for e, tab in stores:
            atoms = expand(F, A.prov_at(F.ex[e]['c'][1], e), 0, ())
            st = [a for a in atoms if a[0] == 'state']
            outs = [a for a in atoms if a[0] == 'out' and a[1] != H.name]
            if outs and tab in ('serialnos', 'dataoffsets'):
                # the local was handed by address to another call after it was read from the stream state (an in/out
                # argument of a page search): what is stored is whatever that call left in it
                n += 1
                chk.ob('R09.8', F.name, f'{tab}-entry-from-this-links-header-fetch@{F.s(F.ex[e]["c"][0])}', False, F.where(e),
                       f'{F.s(e)[:70]}: the value may have been overwritten through its address by {sorted({a[1] for a in outs})} '
                       f'before it is stored -- the entry then describes the page that call found, not this link\'s header fetch')
                continue
            if not st:
                # the scan itself must take a found link's serial number / data offset from its own header fetch: a value
                # that only copies table entries or constants describes some other link
                if F.name in BUILDERS and tab in ('serialnos', 'dataoffsets') and atoms and \
                        all(a[0] in ('table', 'param') for a in atoms):
                    n += 1
                    chk.ob('R09.8', F.name, f'{tab}-entry-from-this-links-header-fetch@{F.s(F.ex[e]["c"][0])}', False, F.where(e),
                           f'{F.s(e)[:70]}: the value derives only from {sorted({a[0] + ":" + str(a[1]) for a in atoms})} -- not from the '
                           'stream state after this link\'s header fetch: the entry repeats another link\'s value')
                continue
            bad = [a for a in st if not (a[2] == 'entry' or (a[2][0] == 'call' and a[2][1] == H.name))]
            n += 1
            chk.ob('R09.8', F.name, f'{tab}-entry-from-this-links-header-fetch@{F.s(F.ex[e]["c"][0])}', not bad, F.where(e),
                   '; '.join(sorted({f"vf->{a[1]} read on line {a[3]} sees {a[2] if a[2] == 'entry' else a[2][1]}" + (f" (via {' / '.join(a[4])})" if a[4] else '') for a in st}))
                   if not bad else
                   f'{F.s(e)[:70]}: the value derives from vf->{bad[0][1]} read on line {bad[0][3]}' +
                   (f' (via {" / ".join(bad[0][4])})' if bad[0][4] else '') +
                   f', where the last writer of that state is {bad[0][2][1] if bad[0][2][0] == "call" else "a direct store"} on line {bad[0][2][-1]}, '
                   f'not {H.name}: the entry describes whatever that call left behind (a later page, or a deeper link)')
    return n


def r09_9(chk, P, E):
    chk.rule('R09.9', 'the link scan never skips the start of a link: the parameter of _bisect_forward_serialno that carries the '
             '"searched up to here" lower bound of the bisection (the parameter the function advances with vf->offset inside its '
             'search loop) receives, at every call site, a value that derives only from per-link data offsets or from reads of '
             'vf->offset that see the link\'s header fetch as last writer.  A position read after a later page fetch '
             '(_initial_pcmoffset consumes a page, and when the link has no audio that page is the next link\'s first) can lie '
             'beyond the start of the following link, whose header fetch then fails')
    H, pv, expand = _prov_env(chk, P, E)
    F = P.need('_bisect_forward_serialno')
    lower = set()
    for e in F.nodes('assign'):
        nd = F.ex[e]
        l = F.ex[F.strip_casts(nd['c'][0])]
        if nd['op'] == '=' and l['k'] == 'ref' and l['decl'].get('kind') == 'param' and _handle_state(F, F.strip_casts(nd['c'][1])) == 'offset':
            lower.add(l['decl']['id'])
    chk.require(len(lower) == 1, f'_bisect_forward_serialno: lower-bound parameter not identified ({len(lower)} candidates)')
    pid = next(iter(lower))
    pi = [i for i, p_ in enumerate(F.params) if p_['id'] == pid][0]
    n = 0
    for G in P.functions():
        for c in G.calls(F.name):
            if P.key(F) not in P.call_targets(G, c) or pi >= len(G.ex[c]['c']):
                continue
            arg = G.ex[c]['c'][pi]
            atoms = expand(G, pv(G).prov_at(arg, c), 0, ())
            st = [a for a in atoms if a[0] == 'state']
            other = [a for a in atoms if a[0] not in ('state', 'table', 'param') ]
            bad = [a for a in st if not (a[2] == 'entry' or (a[2][0] == 'call' and a[2][1] == H.name))]
            n += 1
            chk.ob('R09.9', G.name, f'bisection-lower-bound-inside-the-link@{G.loc(c)}', not bad and not other, G.where(c),
                   f'{F.params[pi]["name"]} <- `{G.s(arg)}`: ' + ('; '.join(sorted({f"vf->{a[1]} (line {a[3]}) sees {a[2] if a[2] == 'entry' else a[2][1]}" for a in st})) or
                                                               'a per-link data offset') if not bad and not other else
                   f'{F.params[pi]["name"]} <- `{G.s(arg)}`: ' + (f'reads vf->{bad[0][1]} (line {bad[0][3]}) after {bad[0][2][1] if bad[0][2][0] == "call" else "a store"} '
                   f'(line {bad[0][2][-1]}) moved the stream on; when the link just found has no audio page the position is already '
                   'past the first page of the next link and the next level cannot find that link\'s start' if bad else
                   f'derives from {sorted(map(str, other))}'))
    return n


def r09_10(chk, P):
    chk.rule('R09.10', 'the search for the end of a link runs to convergence: in _bisect_forward_serialno the loop guarded by '
             '`searched < endsearched` (the lower bound is the parameter the body advances with vf->offset, the upper bound the '
             'local it lowers to the probe position) is left only through its guard or through an error return.  The first '
             'page of the next link is known only when the interval is empty: a probe in the bisection phase can land inside a '
             'later link, and the foreign page it meets is then not the one that follows this link')
    F = P.need('_bisect_forward_serialno')
    lower = set()
    for e in F.nodes('assign'):
        nd = F.ex[e]
        l = F.ex[F.strip_casts(nd['c'][0])]
        if nd['op'] == '=' and l['k'] == 'ref' and l['decl'].get('kind') == 'param' and _handle_state(F, F.strip_casts(nd['c'][1])) == 'offset':
            lower.add(l['decl']['id'])
    chk.require(len(lower) == 1, '_bisect_forward_serialno: lower-bound parameter not identified')
    pid = next(iter(lower))
    loops = cfg.loops(F)
    hs = []
    for h, body in loops.items():
        t = F.blocks[h].get('term') or {}
        c = t.get('cond')
        if c is None:
            continue
        cn = F.ex[F.strip_casts(c)]
        if cn['k'] == 'bin' and cn['op'] in ('<', '<='):
            a = F.ex[F.strip_casts(cn['c'][0])]
            if a['k'] == 'ref' and a['decl'].get('id') == pid:
                hs.append(h)
    chk.require(hs, '_bisect_forward_serialno: the narrowing loop was not found')
    n = 0
    for h in hs:
        body = loops[h]
        bad = []
        for b in body:
            if b == h:
                continue
            for s_ in F.blocks[b]['succs']:
                if s_ is None or s_ in body:
                    continue
                # an exit from inside the body: allowed when every return it reaches is an error return
                seen, st, ok = set(), [s_], True
                while st:
                    x = st.pop()
                    if x in seen or x is None:
                        continue
                    seen.add(x)
                    for e in F.blocks[x]['elems']:
                        if F.ex[e]['k'] == 'ret':
                            v = common.const_val(F, F.ex[e]['c'][0]) if F.ex[e].get('c') else None
                            rn = F.ex[F.strip_casts(F.ex[e]['c'][0])] if F.ex[e].get('c') else None
                            nonzero = False
                            if rn is not None and rn['k'] == 'ref':
                                for c_, pol in common.controlling_conditions(F, e):
                                    cn_ = F.ex[F.strip_casts(c_)]
                                    if pol and cn_['k'] == 'ref' and cn_['decl'].get('id') == rn['decl'].get('id'):
                                        nonzero = True          # `if(ret)return(ret);`
                                    if pol and cn_['k'] == 'bin' and cn_['op'] == '<' and common.const_val(F, cn_['c'][1]) == 0 and \
                                            F.ex[F.strip_casts(cn_['c'][0])].get('decl', {}).get('id') == rn['decl'].get('id'):
                                        nonzero = True          # `if(x<0)return(x);`
                            if not ((v is not None and v < 0) or nonzero):
                                ok = False
                    st += [y for y in F.blocks[x]['succs'] if y is not None]
                if not ok:
                    bad.append(b)
        n += 1
        line = F.loc(F.blocks[bad[0]]['elems'][-1]) if bad and F.blocks[bad[0]]['elems'] else None
        chk.ob('R09.10', F.name, f'narrowing-loop-exits-by-its-guard@{F.loc(F.blocks[h]["term"]["cond"])}', not bad, F.where(F.blocks[h]['term']['cond']),
               'left only through the guard or through error returns' if not bad else
               f'the loop can be left from inside its body (near line {line}) with the interval still open, and the function goes on '
               'to record a link boundary: the foreign page met by a probe need not be the first page after this link')
    return n


def r09_11(chk, P, rule='R09.11'):
    chk.rule(rule, 'the current link indexes the per-link tables only on a seekable handle: a streaming handle keeps one entry per '
             'table while vf->current_link counts the links played.  Wherever a per-link table of the handle is subscripted (or '
             'offset) by vf->current_link -- directly or through a local whose definition reads it -- the read of current_link '
             'is unreachable with vf->seekable false: every path from the function entry passes a test of vf->seekable on its '
             'seekable side (the `vf->seekable ? vf->current_link : 0` idiom counts), or the function is file-local and every '
             'one of its call sites is itself unreachable on a streaming handle')
    fns = [F for F in P.functions() if F.file.endswith('vorbisfile.c')]
    memo = {}

    def seek_edges_cut(F):
        """edges on which vf->seekable is known true"""
        cut = set()
        for b, blk in F.blocks.items():
            t = blk.get('term') or {}
            c = t.get('cond')
            if c is None or len(blk['succs']) != 2:
                continue
            cn = F.ex[F.strip_casts(c)]
            neg = False
            while cn['k'] == 'un' and cn['op'] == '!':
                neg = not neg
                cn = F.ex[F.strip_casts(cn['c'][0])]
            if cn['k'] == 'member' and cn.get('record') == VF and cn['field'] == 'seekable':
                cut.add((b, 1 if neg else 0))
                continue
            # `r=G(vf,..); if(r<0)return` / `if(r)return`: when G answers a streaming handle with a negative code only, the
            # continuing edge is seekable
            var, cont = None, None
            if cn['k'] == 'bin' and cn['op'] == '<' and common.const_val(F, cn['c'][1]) == 0:
                x = F.ex[F.strip_casts(cn['c'][0])]
                if x['k'] == 'ref':
                    var, cont = x['decl'].get('id'), (0 if neg else 1)
                elif x['k'] == 'assign' and x['op'] == '=':
                    var, cont = ('direct', F.strip_casts(x['c'][1])), (0 if neg else 1)
            elif cn['k'] == 'ref' and cn['decl'].get('kind') == 'var':
                var, cont = cn['decl'].get('id'), (0 if neg else 1)
            if var is None:
                continue
            call = None
            if isinstance(var, tuple):
                call = var[1]
            else:
                # the last definition of the variable before the test, in this block
                for e in reversed(blk['elems']):
                    nd = F.ex[e]
                    rhs = None
                    if nd['k'] == 'decl':
                        for v in nd['vars']:
                            if v.get('id') == var and v.get('init'):
                                rhs = v['init']
                    elif nd['k'] == 'assign' and nd['op'] == '=':
                        l = F.ex[F.strip_casts(nd['c'][0])]
                        if l['k'] == 'ref' and l['decl'].get('id') == var:
                            rhs = nd['c'][1]
                    if rhs is not None:
                        call = F.strip_casts(rhs)
                        break
            if call is None or F.ex[call]['k'] != 'call':
                continue
            tg = P.call_targets(F, call)
            if tg and all(t in P.fn and refuses_streaming(P.fn[t]) for t in tg):
                cut.add((b, cont))
        return cut

    refuse_memo = {}

    def refuses_streaming(G):
        """every return of G that is reachable with vf->seekable false yields a negative constant"""
        k = P.key(G)
        if k in refuse_memo:
            return refuse_memo[k]
        refuse_memo[k] = False
        if not G.file.endswith('vorbisfile.c'):
            return False
        un = reach_unseekable(G)
        ok = True
        for r in cfg.returns(G):
            if G.pos[r][0] not in un:
                continue
            v = common.const_val(G, G.ex[r]['c'][0]) if G.ex[r].get('c') else None
            if v is None or v >= 0:
                ok = False
        refuse_memo[k] = ok
        return ok

    def reach_unseekable(F):
        """blocks reachable from the entry while vf->seekable may be false"""
        k = P.key(F)
        if k in memo:
            return memo[k]
        memo[k] = set(F.blocks)          # recursion guard: pessimistic
        cut = seek_edges_cut(F)
        entry_possible = True
        if F.static:
            sites = [(G, c) for G in fns for c in G.calls(F.name) if k in P.call_targets(G, c)]
            if sites and all(G.pos[c][0] not in reach_unseekable(G) for (G, c) in sites):
                entry_possible = False
        seen = set()
        if entry_possible:
            st = [F.entry]
            while st:
                b = st.pop()
                if b is None or b in seen:
                    continue
                seen.add(b)
                for i_, s_ in enumerate(F.blocks[b]['succs']):
                    if (b, i_) not in cut:
                        st.append(s_)
        memo[k] = seen
        return seen
    n = 0
    for F in fns:
        defs = common.single_defs(F)

        def cl_reads(e, depth=0):
            out = []
            for q in F.walk(e):
                nd = F.ex[q]
                if nd['k'] == 'member' and nd.get('record') == VF and nd['field'] == 'current_link':
                    out.append(q)
                elif nd['k'] == 'ref' and nd['decl'].get('kind') == 'var' and depth < 2:
                    d = defs.get(nd['decl'].get('id'))
                    if d is not None:
                        out += cl_reads(d, depth + 1)
            return out
        seen_sites = set()
        for (node, tab, idx) in table_accesses(P, F):
            if idx is None:
                continue
            for q in cl_reads(idx):
                if (node, q) in seen_sites:
                    continue
                seen_sites.add((node, q))
                bad = F.pos[q][0] in reach_unseekable(F) if q in F.pos else True
                n += 1
                chk.ob(rule, F.name, f'{tab}[current_link]-only-when-seekable@{F.loc(node)}', not bad, F.where(node),
                       f'`{F.s(node)[:60]}`: the read of current_link on line {F.loc(q)} is behind a seekable test' if not bad else
                       f'`{F.s(node)[:60]}` is reachable on a streaming handle: vf->{tab} has one entry there while current_link counts '
                       'the links played -- from the second link of a chained stream on this reads past the table')
    return n


def r09_12(chk, P, E):
    chk.rule('R09.12', 'the open-time link scan leaves the handle on the link it was on: no function reachable from '
             '_bisect_forward_serialno stores vf->current_serialno or vf->current_link (K3 write sets over the call graph).  The '
             'scan only probes the headers of the later links; _open_seekable2 then positions the handle with ov_raw_seek on the '
             'first link and relies on current_serialno still naming it -- a probe that records "its" serial number makes the '
             'read path drop or mis-attribute the first link\'s pages')
    root = P.key(P.need('_bisect_forward_serialno'))
    par = P.reachable([root])
    n = 0
    for k in sorted(par):
        F = P.fn.get(k)
        if F is None or not F.file.endswith('vorbisfile.c'):
            continue
        S = E.st.get(k)
        bad = []
        if S is not None:
            for (o, r, f, e, d) in S.stores:
                if d and r == VF and f in ('current_serialno', 'current_link'):
                    bad.append((e, f))
        n += 1
        chk.ob('R09.12', k, 'scan-does-not-reposition-the-handle', not bad, F.where(bad[0][0]) if bad else F.where(),
               'stores neither current_serialno nor current_link' if not bad else
               f'stores vf->{bad[0][1]} (`{F.s(bad[0][0])[:60]}`) although it runs as part of the link scan',
               path=P.path_to(par, k) if bad else None)
    return n


def r09_15(chk, P, rule='R09.15'):
    chk.rule(rule, 'a search that runs "until the answer is stable" runs at least once: a loop of vorbisfile.c of the form '
             '`while(a != b){ a = b; ... &a ... }` (the body copies the other operand into the sentinel and hands the sentinel to a '
             'search by address) whose sentinel is a local must be entered for every value of b -- every definition of the '
             'sentinel that reaches the loop from outside is `b + c` with a constant c != 0, or K4 separates the two ranges.  '
             'A constant start value is equal to b for one stream (a serial number of 0xFFFFFFFF is -1 as an int): the search '
             'for the link\'s last page is skipped, its end position stays at "not found" and the link is recorded with length 0')
    n = 0
    for F in P.functions():
        if not F.file.endswith('vorbisfile.c') or F.entry is None:
            continue
        L = cfg.loops(F)
        cands = []
        for h, body in L.items():
            t = F.blocks[h].get('term')
            if not t or t.get('cond') is None:
                continue
            c = F.ex[F.strip_casts(t['cond'])]
            if c['k'] != 'bin' or c['op'] != '!=':
                continue
            for x, y in ((c['c'][0], c['c'][1]), (c['c'][1], c['c'][0])):
                a, b = F.ex[F.strip_casts(x)], F.ex[F.strip_casts(y)]
                if a['k'] != 'ref' or a['decl'].get('kind') != 'var' or b['k'] != 'ref':
                    continue
                aid, bid = a['decl']['id'], b['decl']['id']
                copies = addr = False
                for e, (blk, _) in F.pos.items():
                    if blk not in body:
                        continue
                    nd = F.ex[e]
                    if nd['k'] == 'assign' and nd['op'] == '=':
                        l, r = F.ex[F.strip_casts(nd['c'][0])], F.ex[F.strip_casts(nd['c'][1])]
                        if l['k'] == 'ref' and l['decl'].get('id') == aid and r['k'] == 'ref' and r['decl'].get('id') == bid:
                            copies = True
                    if nd['k'] == 'un' and nd['op'] == '&':
                        o = F.ex[F.strip_casts(nd['c'][0])]
                        if o['k'] == 'ref' and o['decl'].get('id') == aid:
                            addr = True
                if copies and addr:
                    cands.append((h, body, t['cond'], aid, bid, a['decl'].get('name'), b['decl'].get('name')))
        if not cands:
            continue
        # definitions of the sentinel outside the loop
        for (h, body, cond, aid, bid, an, bn) in cands:
            defs = []
            for e, (blk, _) in F.pos.items():
                if blk in body:
                    continue
                nd = F.ex[e]
                if nd['k'] == 'decl':
                    for v in nd['vars']:
                        if v.get('id') == aid:
                            defs.append((e, v.get('init')))
                elif nd['k'] == 'assign':
                    l = F.ex[F.strip_casts(nd['c'][0])]
                    if l['k'] == 'ref' and l['decl'].get('id') == aid:
                        defs.append((e, nd['c'][1] if nd['op'] == '=' else None))
            ok = bool(defs)
            why = []
            for e, init in defs:
                good = False
                if init is not None:
                    i_ = F.ex[F.strip_casts(init)]
                    if i_['k'] == 'bin' and i_['op'] in ('+', '-'):
                        l, r = F.ex[F.strip_casts(i_['c'][0])], i_['c'][1]
                        cv = common.const_val(F, r)
                        if l['k'] == 'ref' and l['decl'].get('id') == bid and isinstance(cv, int) and cv % (2 ** 32) != 0:
                            good = True
                    if i_['k'] == 'bin' and i_['op'] == '+' and not good:
                        r, l = F.ex[F.strip_casts(i_['c'][1])], i_['c'][0]
                        cv = common.const_val(F, l)
                        if r['k'] == 'ref' and r['decl'].get('id') == bid and isinstance(cv, int) and cv % (2 ** 32) != 0:
                            good = True
                if not good:
                    ok = False
                    why.append(f'`{F.s(e)[:50]}`')
            if not ok and defs:
                # K4: do the ranges of the two operands overlap where the loop is first reached?
                seen = []

                class H(absint.Hooks):
                    def on_edge(self, A, env, c, truth):
                        if c == cond and A.final and not truth and not env.get('$it'):
                            seen.append(1)
                A = absint.Analyzer(P, F, hooks=H(), unroll=1)
                A.run()
                if not seen:
                    ok = True
            n += 1
            chk.ob(rule, F.name, f'stable-search-runs-once:{an}', ok, F.where(cond),
                   f'`while({an}!={bn})`: every start value of {an} differs from {bn}' if ok else
                   f'`while({an}!={bn})` copies {bn} into {an} and searches with &{an}, but the start value {", ".join(why)} can equal {bn}: '
                   'for that value the search never runs and what it was to find keeps its "not found" value')
    return n


def run(chk, P):
    r09_7(chk, P)
    chk.floor('R09.7', 4)
    r09_6(chk, P)
    chk.floor('R09.6', 2)
    r09_1(chk, P)
    chk.floor('R09.1', 40)
    r09_3(chk, P)
    chk.floor('R09.3', 6)
    r09_4(chk, P)
    chk.floor('R09.4', 4)
    r09_5(chk, P)
    chk.floor('R09.5', 6)
    import k3
    E = getattr(P, '_effects', None) or k3.Effects(P)
    P._effects = E
    r09_8(chk, P, E)
    chk.floor('R09.8', 3)
    r09_9(chk, P, E)
    chk.floor('R09.9', 2)
    r09_12(chk, P, E)
    chk.floor('R09.12', 5)
    chk.rule('R09.13', 'every link and every sample is accounted for, or the open fails: a read error met by the scans that build the '
             'link tables is not taken for the end of the data (same obligations as R12.13) -- a link start, link end or link '
             'count computed from the pages read before the error is never stored in a handle whose open succeeds')
    from rules import c12
    c12.r12_13(common.Proxy(chk, 'R09.13'), P, rule='R09.13')
    chk.floor('R09.13', 8)
    chk.rule('R09.14', 'a failing read is told from the end of the data (same obligations as R12.14): the open-time scans give up on a '
             'read error but carry on after "no more data", so a read error answered as end of data yields an open with fewer links')
    c12.r12_14(common.Proxy(chk, 'R09.14'), P, rule='R09.14')
    chk.floor('R09.14', 2)
    r09_10(chk, P)
    chk.floor('R09.10', 1)
    r09_11(chk, P)
    chk.floor('R09.11', 5)
    n15 = r09_15(chk, P)
    if not n15:
        # the idiom `while(a!=b){a=b; ..&a..}` need not exist (a refactoring may turn it into a do-while or move it): no instance, no obligation
        chk.ob('R09.15', 'vorbisfile.c', 'no-stable-search-loop-with-a-local-sentinel', True, 'lib/vorbisfile.c', 'no loop of that form in this tree')
    import frames
    frames.c09(chk, P)
    chk.trusted += ['clang 14 front end', 'exact evaluation of subscript expressions for L = 0,1,2 (linear forms)', 'K4 symbolic bounds']
    return ('Every subscript of the per-link tables is evaluated symbolically as a linear form of one link variable and compared '
            'with the slot roles of its table; totals are shown to sum over exactly all links; link 0\'s set-up is shown never to '
            'be used by shortcut where a link is selected. Decides the structural clauses of "each link its own data; totals '
            'are sums"; does not decide that the bisection finds the right links and lengths for a given file.')
