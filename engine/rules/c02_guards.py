"""R02.3 — semantic guard obligations of the packet decoder (DESIGN 4/C02).  Each guard is stated over the resolved
program (CFG dominance / control dependence, canonical expressions over field names, K4 values), never over text or
positions; the assumptions of R02.2 that lean on a guard name it."""
import absint
import cfg
import k8
from absint import V, INF
from facts import AnalysisBroken
from rules import common

RULE = 'R02.3'


def canon(P, F, e, sk, depth=2):
    return common.canon_x(F, e, sk, depth=depth)


def success_returns(F):
    isptr = F.d.get('ret_t', '').endswith('*')
    out = []
    for r in cfg.returns(F):
        c = F.ex[r].get('c', [])
        if not c:
            continue
        v = F.ex[F.strip_casts(c[0])]
        if v['k'] == 'int' and ((isptr and v['v'] == 0) or (not isptr and v['v'] != 0)):
            continue
        if v['k'] == 'un' and v['op'] == '-':
            continue
        out.append(r)
    return out


def reaches(F, src, dst):
    seen, st = set(), [src]
    while st:
        b = st.pop()
        if b == dst:
            return True
        if b in seen:
            continue
        seen.add(b)
        st += [s for s in F.blocks[b]['succs'] if s is not None]
    return False


def forall_check_loops(P, F, sk, accept_nonzero=None):
    """loops of F in which a condition is evaluated on every iteration and whose `fail` edge cannot reach a success return:
    [(header, cond eid, polarity that fails, canonical cond)] -- the shape `for(j..;j<N;j++) if(bad(a[j])) goto err;`"""
    dom = cfg.dominators(F)
    loops = cfg.loops(F)
    succ = success_returns(F)
    if accept_nonzero is not None:
        # a predicate helper: which of its constant returns the caller accepts
        succ = []
        for r in cfg.returns(F):
            c_ = F.ex[r].get('c', [])
            v_ = F.ex[F.strip_casts(c_[0])] if c_ else None
            if v_ is not None and v_['k'] == 'int':
                if (v_['v'] != 0) == accept_nonzero:
                    succ.append(r)
            elif v_ is not None:
                succ.append(r)
    sblocks = {F.pos[r][0] for r in succ}
    out = []
    for h, body in loops.items():
        # the loop must be on the way to every success return
        if not all(h in dom[sb] for sb in sblocks):
            continue
        backs = [b for b in body if h in [s for s in F.blocks[b]['succs'] if s is not None]]
        # a local whose value this loop stores into an array element stands for that element: `int v=read(); if(bad(v))
        # goto err; a[j]=v;` checks a[j] just as `if(bad(a[j]))` does
        env = {}
        for n in F.pos:
            nd = F.ex[n]
            if nd['k'] == 'assign' and nd['op'] == '=' and F.pos[n][0] in body:
                l = F.ex[F.strip_casts(nd['c'][0])]
                r = F.ex[F.strip_casts(nd['c'][1])]
                if l['k'] == 'sub' and r['k'] == 'ref' and r['decl']['kind'] == 'var':
                    env[r['decl']['id']] = sk.canon(F, F.strip_casts(nd['c'][0]), {})
        for b in body:
            t = F.blocks[b].get('term')
            if not t or t.get('cond') is None or len(F.blocks[b]['succs']) != 2 or b == h:
                continue
            if not all(b in dom[x] for x in backs):
                continue
            for si, pol in ((0, True), (1, False)):
                s = F.blocks[b]['succs'][si]
                if s is None or s in body:
                    continue
                if not any(reaches(F, s, sb) for sb in sblocks):
                    out.append((h, t['cond'], pol, sk.canon(F, t['cond'], env) if env else canon(P, F, t['cond'], sk)))
    return out


def rejecting_predicates(P, F):
    """file-local functions H whose call is a branch condition of F such that a non-zero result cannot reach a success
    return of F, while the branch lies on the way to every success return: `if(posts_have_duplicates(..))goto err_out;`.
    A universally quantified check that was moved into H still gates F's success.  -> [(H, call eid)]"""
    dom = cfg.dominators(F)
    sblocks = {F.pos[r][0] for r in success_returns(F)}
    out = []
    for b, blk in F.blocks.items():
        t = blk.get('term')
        if not t or t.get('cond') is None or len(blk['succs']) != 2:
            continue
        if not all(b in dom[sb] for sb in sblocks):
            continue
        c = F.strip_casts(t['cond'])
        pol = True
        while F.ex[c]['k'] == 'un' and F.ex[c]['op'] == '!':
            c = F.strip_casts(F.ex[c]['c'][0])
            pol = not pol
        nd = F.ex[c]
        if nd['k'] == 'bin' and nd['op'] in ('!=', '==') and common.is_zero(F, nd['c'][1]):
            pol = pol if nd['op'] == '!=' else not pol
            c = F.strip_casts(nd['c'][0])
            nd = F.ex[c]
        if nd['k'] != 'call' or 'd' not in nd['callee']:
            continue
        H = P.get(nd['callee']['d'], F)
        if H is None or not H.static or H.d.get('ret_t', '').endswith('*'):
            continue
        s = blk['succs'][0 if pol else 1]
        if s is not None and not any(reaches(F, s, sb) for sb in sblocks):
            out.append((H, c, True))            # a non-zero result of H is rejected
            continue
        s = blk['succs'][1 if pol else 0]
        if s is not None and not any(reaches(F, s, sb) for sb in sblocks):
            out.append((H, c, False))           # a zero result of H is rejected (`if(!all_distinct(..))goto err;`)
    return out


def forall_checks_deep(P, F, sk):
    """forall_check_loops of F and of its rejecting predicate helpers: [(function, header, cond, polarity, canon)]"""
    out = [(F, h, c, pol, s) for (h, c, pol, s) in forall_check_loops(P, F, sk)]
    for H, call, nonzero_rejects in rejecting_predicates(P, F):
        out += [(H, h, c, pol, s) for (h, c, pol, s) in forall_check_loops(P, H, sk, accept_nonzero=not nonzero_rejects)]
    return out


def init_reaching(F, vid, at):
    """the declaration initialiser of local `vid` if it is the only definition that can reach node `at` (every other
    modification of the variable is dominated by `at`, i.e. happens later)"""
    init = None
    others = []
    for n in F.pos:
        nd = F.ex[n]
        if nd['k'] == 'decl':
            for v in nd['vars']:
                if v.get('id') == vid and v.get('init'):
                    init = (n, v['init'])
        elif nd['k'] == 'assign' or (nd['k'] == 'un' and nd['op'] in ('pre++', 'post++', 'pre--', 'post--', '&')):
            l = F.ex[F.strip_casts(nd['c'][0])]
            if l['k'] == 'ref' and l['decl'].get('id') == vid:
                others.append(n)
    if init is None or not cfg.pos_dominates(F, init[0], at):
        return None
    if all(cfg.pos_dominates(F, at, o) for o in others):
        return init[1]
    return None


def loop_bound(F, h):
    t = F.blocks[h].get('term')
    if not t or t.get('cond') is None:
        return None
    c = F.ex[F.strip_casts(t['cond'])]
    if c['k'] == 'bin' and c['op'] in ('<', '<='):
        return F.s(c['c'][1])
    return None


# ---------------------------------------------------------------------------------------------------------
def g_gate(chk, P, D):
    """decode set-up consumes set-up fields only behind the completeness gate"""
    for fn, probe in (('_vds_shared_init', 'calloc'), ('vorbis_packet_blocksize', 'oggpack_read')):
        F = P.need(fn)
        seen = []

        def obs(A, env, e, v, probe=probe, seen=seen):
            nd = A.ex[e]
            if nd['k'] == 'call' and nd['callee'].get('d') == probe:
                m = [x for k, x in env.items() if isinstance(k, str) and k.endswith('->modes') and isinstance(x, V)]
                seen.append((e, m[0] if m else None))
        pi = {'encp': V(0, 0)} if fn == '_vds_shared_init' else {}
        A = absint.Analyzer(P, F, field_inv=dict(D.inv_any), param_init=pi)
        A.observers.append(obs)
        A.run()
        chk.require(seen, f'{fn}: no {probe} call found')
        bad = [(e, m) for e, m in seen if m is None or m.lo < 1]
        chk.ob(RULE, fn, 'setup-complete-gate', not bad, F.where(bad[0][0] if bad else seen[0][0]),
               f'at all {len(seen)} {probe} calls ci->modes >= 1 even when only the zero / half-unpacked state is assumed: a '
               'set-up is consumed only after the set-up header was accepted' if not bad else
               f'{probe} reachable with ci->modes {bad[0][1]}: set-up fields are consumed without the completeness test')


def g_res0_unpack(chk, P, D, sk):
    F = P.need('res0_unpack')
    succ = success_returns(F)
    chk.require(succ, 'res0_unpack: success return not found')
    # (a) the group book has dim >= 1
    ok = False
    for r in succ:
        for c, pol in common.controlling_conditions(F, r):
            s = canon(P, F, c, sk)
            cn = F.ex[F.strip_casts(c)]
            if cn['k'] == 'bin' and cn['op'] == '<' and not pol:
                lhs = F.ex[F.strip_casts(cn['c'][0])]
                if lhs['k'] == 'ref' and lhs['decl']['kind'] == 'var':
                    init = init_reaching(F, lhs['decl']['id'], c)
                    if init is not None:
                        s = '(' + canon(P, F, init, sk) + '<' + canon(P, F, cn['c'][1], sk) + ')'
            if not pol and '.book_param[' in s and '.groupbook' in s and '.dim' in s and s.endswith('<1)'):
                ok = True
    if not ok:
        ok = _rejected_in_helper(P, F, sk, lambda cs: '.book_param[' in cs and '.groupbook' in cs, 'dim', 0)
    chk.ob(RULE, 'res0_unpack', 'groupbook-dim>=1', ok, F.where(succ[0]),
           'the success return is reached only when (book_param[groupbook]->dim < 1) is false' if ok else
           'no dominating test rejects a phrase book of dimension 0: partitions_per_word would be 0 (division by zero in '
           '_01inverse/res2_inverse)')
    # (b) every stage book is checked in a for-all loop over [0,acc)
    loops = forall_check_loops(P, F, sk)
    want = {'below-books': lambda s, pol: pol and '.booklist[' in s and '>=' in s and '.books' in s,
            'maptype!=0': lambda s, pol: pol and '.booklist[' in s and '.maptype==0' in s,
            'dim>=1': lambda s, pol: pol and '.booklist[' in s and '.dim<1' in s}
    # the bound of the checking loop must be the bound of the loop that stores booklist[]
    store_bounds = set()
    for n in F.pos:
        nd = F.ex[n]
        if nd['k'] == 'assign':
            l = F.ex[F.strip_casts(nd['c'][0])]
            if l['k'] == 'sub' and F.ex[F.strip_casts(l['c'][0])].get('field') == 'booklist':
                for h, body in cfg.loops(F).items():
                    if F.pos[n][0] in body:
                        store_bounds.add(loop_bound(F, h))
    for name, pred in want.items():
        hit = [(h, c) for (h, c, pol, s) in loops if pred(s, pol)]
        okb = bool(hit) and all(loop_bound(F, h) in store_bounds for h, c in hit)
        chk.ob(RULE, 'res0_unpack', f'stage-books:{name}', okb, F.where(hit[0][1]) if hit else F.where(),
               f'checked for every stored stage book (loop bound {loop_bound(F, hit[0][0])} = bound of the storing loop)' if okb else
               f'no for-all check "{name}" over the stage book list (bounds of storing loops: {sorted(map(str, store_bounds))})')


def _rejected_in_helper(P, F, sk, is_arg, field, bad_hi):
    """the check `arg->field <= bad_hi is rejected` done by a helper: F hands the object to a file-local helper H; analysed
    with arg->field in (-inf, bad_hi] on entry (K4) every return of H is a failure value (negative / NULL); and analysed with
    that call yielding a failure value, F reaches no success return"""
    for c in F.calls():
        nd = F.ex[c]
        if 'd' not in nd['callee']:
            continue
        H = P.get(nd['callee']['d'], F)
        if H is None or not H.static or H.entry is None:
            continue
        for i, a in enumerate(nd.get('c', [])):
            if i >= len(H.params) or not is_arg(sk.canon(F, F.strip_casts(a))):
                continue
            pid = H.params[i]['id']
            A = absint.Analyzer(P, H)
            base_init = A.initial_env

            def init(A=A, pid=pid, base_init=base_init):
                env = base_init()
                env[f'v{pid}'] = V(nn=True)
                env[f'v{pid}->{field}'] = V(-2 ** 31, bad_hi)
                return env
            A.initial_env = init
            A.run()
            isptr = H.d.get('ret_t', '').endswith('*')
            rets = [v for (_, _, v) in A.ret_states]
            if not rets or not all(v is not None and ((isptr and (v.nn is False or v.const() == 0)) or (not isptr and v.hi < 0)) for v in rets):
                continue
            # the caller turns the helper's failure into its own
            h2 = absint.Hooks()

            def post_call(A2, env, e, r, c=c, isptr=isptr):
                if e == c:
                    return V(0, 0, nn=False) if isptr else V(-2 ** 31, -1)
                return None
            h2.post_call = post_call
            A2 = absint.Analyzer(P, F, hooks=h2)
            A2.run()
            fptr = F.d.get('ret_t', '').endswith('*')
            accepts = [v for (_, _, v) in A2.ret_states
                       if v is None or (fptr and not (v.nn is False or v.const() == 0)) or (not fptr and v.lo <= 0 <= v.hi and 0 not in v.ne)]
            if not accepts:
                return True
    return False


def _unique_posts_cover_all(chk, P, F, sk, hit):
    """the duplicate check covers every post, the two implicit end posts included: the pointer table that is sorted and compared
    is filled with postlist+0 .. postlist+(N-1), N elements are sorted and N-1 neighbours compared, where N = count+2 and count
    is the local of floor1_unpack that adds up class_dim[] (the number of explicit posts).  Expressions inside file-local helpers
    are rewritten over the arguments at their call sites (two levels)."""
    count_ids = set()
    for e in F.nodes('assign'):
        nd = F.ex[e]
        l = F.ex[F.strip_casts(nd['c'][0])]
        if nd['op'] == '+=' and l['k'] == 'ref' and l['decl'].get('kind') == 'var' and '.class_dim[' in sk.canon(F, F.strip_casts(nd['c'][1])):
            count_ids.add(l['decl']['id'])
    if len(count_ids) != 1:
        chk.assumed(RULE, 'floor1_unpack', 'unique-posts-cover-all-posts', F.where(), 'the running count of explicit posts was not identified; not decided')
        return
    cid = next(iter(count_ids))

    def affine(G, e, bind, depth=0):
        """-> (symbol | None, constant) or None; symbols: 'count', 'postlist', ('loc', fn, id)"""
        e = G.strip_casts(e)
        nd = G.ex[e]
        k = nd['k']
        if k == 'paren':
            return affine(G, nd['c'][0], bind, depth)
        cv = common.const_val(G, e)
        if isinstance(cv, int):
            return (None, cv)
        if k == 'ref':
            d = nd['decl']
            if G is F and d.get('id') == cid:
                return ('count', 0)
            if d.get('kind') == 'param' and d['id'] in bind:
                return bind[d['id']]
            dd = common.single_defs(G).get(d.get('id'))
            if d.get('kind') == 'var' and dd is not None and depth < 3:
                return affine(G, dd, bind, depth + 1)
            return (('loc', G.name, d.get('id')), 0)
        if k == 'member' and nd.get('field') == 'postlist':
            return ('postlist', 0)
        if k == 'bin' and nd['op'] in ('+', '-'):
            a, b = affine(G, nd['c'][0], bind, depth), affine(G, nd['c'][1], bind, depth)
            if a is None or b is None:
                return None
            if b[0] is None:
                return (a[0], a[1] + (b[1] if nd['op'] == '+' else -b[1]))
            if a[0] is None and nd['op'] == '+':
                return (b[0], a[1] + b[1])
            if nd['op'] == '+' and isinstance(a[0], str) and a[0] == 'postlist' and isinstance(b[0], tuple):
                return (('postlist+', b[0]), a[1] + b[1])
            return None
        return None
    facts_ = []          # (kind, function, node, affine)

    def scan(G, bind, depth):
        L = cfg.loops(G)
        for q in G.calls('qsort'):
            a = G.ex[q].get('c', [])
            if len(a) > 1:
                facts_.append(('sorted-count', G, q, affine(G, a[1], bind)))
        for e in G.nodes('assign'):
            nd = G.ex[e]
            l = G.ex[G.strip_casts(nd['c'][0])]
            if nd['op'] != '=' or l['k'] != 'sub' or not G.ex[nd['c'][1]].get('t', '').endswith('*'):
                continue
            r = affine(G, nd['c'][1], bind)
            ix = affine(G, l['c'][1], bind)
            if r is not None and isinstance(r[0], tuple) and r[0][0] == 'postlist+':
                # sp[ix] = postlist + v + c : element number relative to the slot
                same = ix is not None and ix[0] == r[0][1]
                facts_.append(('fill-offset', G, e, (None, r[1] - ix[1]) if same else None))
                # the loop that fills
                for h, body in L.items():
                    if G.pos[e][0] in body:
                        t = G.blocks[h].get('term')
                        c = G.ex[G.strip_casts(t['cond'])] if t and t.get('cond') is not None else None
                        if c is not None and c['k'] == 'bin' and c['op'] == '<':
                            facts_.append(('fill-count', G, t['cond'], affine(G, c['c'][1], bind)))
        for (G2, h, c, s_) in hit:
            if G2 is G:
                t = G.blocks[h].get('term')
                cn = G.ex[G.strip_casts(t['cond'])] if t and t.get('cond') is not None else None
                if cn is not None and cn['k'] == 'bin' and cn['op'] == '<':
                    facts_.append(('compared-count', G, t['cond'], affine(G, cn['c'][1], bind)))
        if depth >= 2:
            return
        for q in G.calls():
            d = G.ex[q]['callee'].get('d')
            H = P.get(d, G) if d else None
            if H is None or not H.static or H.entry is None or H is G:
                continue
            b2 = {}
            for i_, a in enumerate(G.ex[q].get('c', [])):
                if i_ < len(H.params):
                    v = affine(G, a, bind)
                    if v is not None:
                        b2[H.params[i_]['id']] = v
            scan(H, b2, depth + 1)
    scan(F, {}, 0)
    kinds = {k for k, *_ in facts_}
    if not {'sorted-count', 'fill-offset', 'compared-count'} <= kinds:
        chk.assumed(RULE, 'floor1_unpack', 'unique-posts-cover-all-posts', F.where(),
                    f'the sort of the post pointers was not recognised ({sorted(kinds)}); not decided')
        return
    bad = []
    for kind, G, e, v in facts_:
        want = (None, 0) if kind == 'fill-offset' else ('count', 2)
        if v != want:
            bad.append((G, e, f'{kind} is {v} in {G.name}, expected {want}'))
    chk.ob(RULE, 'floor1_unpack', 'unique-posts-cover-all-posts', not bad, bad[0][0].where(bad[0][1]) if bad else F.where(),
           (f'{len(facts_)} facts: the pointer table starts at postlist[0]; count+2 posts are sorted and compared -- the two implicit '
            'end posts take part') if not bad else
           (bad[0][2] + ': a post that repeats an end post (or one left out of the sort) passes the check and gives a zero-length '
            'segment: division by zero in render_line / render_point'))


def g_floor1_unique_posts(chk, P, D, sk):
    import k2
    F = P.need('floor1_unpack')
    loops = forall_checks_deep(P, F, sk)
    hit = [(G, h, c, s) for (G, h, c, pol, s) in loops if pol and '==' in s and '-1)]' in s and s.count('*') >= 2]
    # the compared pointers were sorted: a qsort call (or a helper that performs it on every path) dominates the loop
    sorters = k2.must_do(P, k2.s_call('qsort'))
    ok = False
    for G, h, c, s in hit:
        dom = cfg.dominators(G)
        for q in G.calls():
            nd = G.ex[q]
            d = nd['callee'].get('d')
            H = P.get(d, G) if d else None
            if (d == 'qsort' or (H is not None and P.key(H) in sorters)) and G.pos[q][0] in dom[h]:
                ok = True
    if ok:
        _unique_posts_cover_all(chk, P, F, sk, hit)
    chk.ob(RULE, 'floor1_unpack', 'unique-posts', ok, hit[0][0].where(hit[0][2]) if hit else F.where(),
           'adjacent elements of the sorted post list are compared for every post and equality is rejected before the success '
           'return: x1-x0 >= 1 in render_point/render_line' if ok else
           'no sorted-adjacent duplicate check dominates the success return: a repeated post position gives adx == 0 '
           '(division by zero in render_point/render_line)')


def g_residue_end_clip(chk, P, D, sk):
    """every read of vorbis_info_residue0.end in the decode-side residue code is the operand of a min() whose other operand
    derives from vb->pcmend"""
    n = 0
    for k in sorted(D.results):
        if not D.ctx[k].seen or k in D.unp or k in D.ungated_list:
            continue
        F = P.fn[k]
        if not F.file.endswith('res0.c'):
            continue
        m = 0
        for e in sorted(F.pos):
            nd = F.ex[e]
            if nd['k'] != 'member' or nd.get('record') != 'vorbis_info_residue0' or nd['field'] != 'end':
                continue
            # climb to the enclosing conditional expression
            p = F.sparent.get(e)
            while p is not None and F.ex[p]['k'] not in ('cond', 'decl', 'assign', 'call', 'ret'):
                p = F.sparent.get(p)
            ok = False
            msg = 'used outside a min(info->end, f(pcmend))'
            if p is not None and F.ex[p]['k'] == 'cond':
                c0, a, b = F.ex[p]['c']
                cs, as_, bs = canon(P, F, c0, sk), canon(P, F, a, sk), canon(P, F, b, sk)
                other = bs if '.end' in as_ and '.end' not in bs else as_
                if '.pcmend' in other and '>>1' in other and cs in (f'({as_}<{bs})', f'({as_}<={bs})') and '.end' in as_:
                    ok = True
                    msg = f'min(info->end, {other})'
            n += 1
            chk.ob(RULE, k, f'residue-end-clipped#{m}', ok, F.where(e), msg)
            m += 1
    chk.require(n >= 2, 'no decode-side read of vorbis_info_residue0.end found')
    # the bound matches the way the function addresses the vectors: a decoder that hands `in[j]+offset` to a per-vector
    # routine works on vectors of pcmend/2 values each, whatever the channel count; the interleaved decoder (type 2) works on
    # ch*pcmend/2 values.  The bound must (not) depend on the channel-count parameter accordingly.
    m = 0
    for k in sorted(D.results):
        if not D.ctx[k].seen or k in D.unp or k in D.ungated_list:
            continue
        F = P.fn[k]
        if not F.file.endswith('res0.c'):
            continue
        ints = [p_ for p_ in F.params if absint.int_type_range(p_['t'])]
        il = [c for c in F.calls('vorbis_book_decodevv_add')]
        pc = [c for c in F.calls() if 'param' in F.ex[c]['callee']]
        if not il and not pc:
            continue
        if il:
            a = F.ex[F.strip_casts(F.ex[il[0]]['c'][3])] if len(F.ex[il[0]].get('c', [])) > 3 else None
            chid = a['decl'].get('id') if a is not None and a['k'] == 'ref' else None
            mode = 'interleaved'
        else:
            chid = ints[0]['id'] if len(ints) == 1 else None
            mode = 'per-channel'
        if chid is None:
            continue
        defs = common.single_defs(F)

        def depends(G, e, chmap, depth=0):
            """does expression e of function G depend on the channel count (chmap: local/param id of G -> True)"""
            if depth > 6:
                return False
            gdefs = common.single_defs(G)
            for q in G.walk(e):
                nd = G.ex[q]
                if nd['k'] == 'ref' and nd['decl'].get('kind') in ('var', 'param'):
                    vid = nd['decl'].get('id')
                    if chmap.get(vid):
                        return True
                    d_ = gdefs.get(vid)
                    if d_ is not None and d_ != e and depends(G, d_, chmap, depth + 1):
                        return True
                if nd['k'] == 'call' and 'd' in nd['callee']:
                    H = P.get(nd['callee']['d'], G)
                    if H is not None and H.static and H.file == G.file:
                        hmap = {}
                        for i_, a_ in enumerate(nd.get('c', [])):
                            if i_ < len(H.params) and depends(G, a_, chmap, depth + 1):
                                hmap[H.params[i_]['id']] = True
                        for r_ in cfg.returns(H):
                            rc = H.ex[r_].get('c', [])
                            if rc and depends(H, rc[0], hmap, depth + 1):
                                return True
            return False
        # the value the partition range is computed from: every expression that reads info->end in this function or in a
        # file-local helper it calls
        srcs = []
        for e in sorted(F.pos):
            nd = F.ex[e]
            if nd['k'] == 'member' and nd.get('record') == 'vorbis_info_residue0' and nd['field'] == 'end':
                p_ = F.sparent.get(e)
                while p_ is not None and F.ex[p_]['k'] not in ('cond', 'decl', 'assign', 'call', 'ret'):
                    p_ = F.sparent.get(p_)
                if p_ is not None and F.ex[p_]['k'] == 'cond':
                    srcs.append((F, p_, {chid: True}))
        for c in F.calls():
            nd = F.ex[c]
            if 'd' in nd['callee']:
                H = P.get(nd['callee']['d'], F)
                if H is not None and H.static and H.file == F.file and \
                        any(x['k'] == 'member' and x.get('record') == 'vorbis_info_residue0' and x.get('field') == 'end' for x in H.ex.values()):
                    srcs.append((F, c, {chid: True}))
        for (G, e, cm) in srcs:
            dep = depends(G, e, cm)
            ok = dep == (mode == 'interleaved')
            chk.ob(RULE, k, f'residue-end-bound-matches-addressing#{m}', ok, F.where(e),
                   f'{mode} decoder: the clip bound {"depends" if dep else "does not depend"} on the channel count' if ok else
                   f'{mode} decoder, but the bound the coded range is clipped to {"depends" if dep else "does not depend"} on the '
                   f'channel count: {"each vector holds pcmend/2 values however many channels there are; with 3 or more channels the decode writes past them" if mode == "per-channel" else "the interleaved range covers ch*pcmend/2 values"}')
            m += 1
    chk.require(m >= 2, 'no residue decoder with a clipped end found')


def g_decode_loops(chk, P, D, sk):
    """stores through the output vector of the codebook vector decoders are bounded by the length argument"""
    for fn in ('vorbis_book_decodev_add', 'vorbis_book_decodev_set', 'vorbis_book_decodevs_add', 'vorbis_book_decodevv_add'):
        F = P.need(fn)
        chk.require(len(F.params) >= 4, f'{fn}: unexpected signature')
        aid = F.params[1]['id']
        nparam = F.params[-1]['name']
        defs = common.single_defs(F)
        k = 0
        for e in sorted(F.pos):
            nd = F.ex[e]
            if nd['k'] != 'assign':
                continue
            l = F.ex[F.strip_casts(nd['c'][0])]
            if l['k'] != 'sub':
                continue
            base = F.ex[F.strip_casts(l['c'][0])]
            idx = l['c'][1]
            if base['k'] == 'sub':      # a[chptr][i]: the sample index is the outer subscript
                base = F.ex[F.strip_casts(base['c'][0])]
            if base['k'] != 'ref' or base['decl'].get('id') != aid:
                continue
            ix = F.ex[F.strip_casts(idx)]
            if ix['k'] == 'un' and ix['op'] in ('post++',):
                idx = ix['c'][0]
            itxt = F.s(F.strip_casts(idx))
            ok = False
            found = []
            for c, pol in common.controlling_conditions(F, e):
                cn = F.ex[F.strip_casts(c)]
                if cn['k'] == 'bin' and cn['op'] == '<' and pol:
                    lhs, rhs = F.s(F.strip_casts(cn['c'][0])), F.strip_casts(cn['c'][1])
                    found.append(F.s(c))
                    if lhs != itxt:
                        continue
                    r = F.ex[rhs]
                    if r['k'] == 'ref' and r['decl']['kind'] == 'param' and r['decl']['name'] == nparam:
                        ok = True
                    elif r['k'] == 'ref' and r['decl']['kind'] == 'var' and r['decl']['id'] in defs:
                        dtxt = F.s(defs[r['decl']['id']])
                        if nparam in [F.ex[x]['decl']['name'] for x in F.walk(defs[r['decl']['id']])
                                      if F.ex[x]['k'] == 'ref' and F.ex[x]['decl']['kind'] == 'param']:
                            ok = True
            chk.ob(RULE, fn, f'store-bounded-by-length#{k}', ok, F.where(e),
                   f'{F.s(nd["c"][0])} is control-dependent on {itxt} < (length)' if ok else
                   f'store {F.s(nd["c"][0])}: no controlling comparison bounds the index {itxt} by the length argument '
                   f'(controlling: {found})')
            k += 1
        chk.require(k > 0, f'{fn}: no store through the output vector found')


def g_decodemap_index(chk, P, D, sk):
    for fn in ('_01inverse', 'res2_inverse'):
        F = P.need(fn)
        hits = []

        def obs(A, env, e, v, hits=hits):
            nd = A.ex[e]
            if nd['k'] == 'sub' and 'extent' not in nd:
                b = A.ex[A.F.strip_casts(nd['c'][0])]
                if b['k'] == 'member' and b.get('field') == 'decodemap':
                    iv = A.last_index[1] if A.last_index[0] == e else A.peek(env, nd['c'][1])
                    hits.append((e, iv))
        A = D.make_analyzer(P.key(F))
        A.observers.append(obs)
        A.run()
        chk.require(hits, f'{fn}: decodemap subscript not found')
        for i, (e, iv) in enumerate(hits):
            ok = iv is not None and iv.lo >= 0 and 'vorbis_info_residue0.partvals' in iv.lt
            chk.ob(RULE, fn, f'decodemap-index-below-partvals#{i}', ok, F.where(e), f'index {iv}')


def g_blockin_clamps(chk, P, D, sk):
    """pcm_returned <= pcm_current is an invariant of every decode-side function that stores either field (pairinv.py: a
    relational analysis with affine upper bounds in the two fields, the half-rate shift made concrete; K4 supplies the
    non-negativity of the amounts).  The granule trimming of vorbis_synthesis_blockin, the consumption in
    vorbis_synthesis_read and the window moves of vorbis_synthesis_lapout are instances; the form of the clamps does not
    matter (`if(extra>(cur-ret)<<hs)extra=(cur-ret)<<hs; cur-=extra>>hs;` or `avail=cur-ret; drop=extra>>hs;
    if(drop>avail)drop=avail; cur-=drop;`)"""
    import pairinv
    REC, LO, HI = 'vorbis_dsp_state', 'pcm_returned', 'pcm_current'
    fns = []
    for k in sorted(D.results):
        if not D.ctx[k].seen:
            continue
        F = P.fn[k]
        if any((r, f) in ((REC, LO), (REC, HI)) for (r, f) in D.stored_fields(F)) and F.file.endswith('block.c'):
            fns.append(F)
    chk.require(len(fns) >= 3, f'only {len(fns)} decode-side functions store pcm_returned / pcm_current')
    for F in fns:
        # K4: non-negativity of every sub-expression of the stores to the two fields
        want = set()
        stores = []
        for e in F.pos:
            nd = F.ex[e]
            if nd['k'] == 'assign':
                l = F.ex[F.strip_casts(nd['c'][0])]
                if l['k'] == 'member' and l.get('record') == REC and l.get('field') in (LO, HI):
                    stores.append(e)
                    for q in F.walk(nd['c'][1]):
                        want.add(q)
                elif l['k'] == 'ref' and nd['op'] == '-=':
                    for q in F.walk(nd['c'][1]):
                        want.add(q)
        vals = {}

        def obs(A, env, e, v, stores=stores, want=want, vals=vals):
            if e in stores or (A.ex[e]['k'] == 'assign' and A.ex[e]['op'] == '-='):
                for q in A.F.walk(A.ex[e]['c'][1]):
                    if q in want and A.ex[q]['k'] not in ('cast',):
                        try:
                            vals[q] = absint.join(vals.get(q), A.peek(env, q))
                        except Exception:
                            pass
        A = D.make_analyzer(P.key(F))
        A.observers.append(obs)
        A.run()

        def nonneg(q, vals=vals, F=F):
            q = F.strip_casts(q)
            v = vals.get(q)
            return v is not None and v.lo >= 0
        # locals that hold the half-rate flag: every definition (initialiser or assignment) is a read of halfrate_flag
        hs_defs = {}
        for e, nd in F.ex.items():
            if nd['k'] == 'decl':
                for v in nd.get('vars', []):
                    if v.get('init') is not None and 'id' in v:
                        i = F.ex[F.strip_casts(v['init'])]
                        hs_defs.setdefault(v['id'], []).append(i['k'] == 'member' and i.get('field') == 'halfrate_flag')
            elif nd['k'] == 'assign':
                l = F.ex[F.strip_casts(nd['c'][0])]
                if l['k'] == 'ref' and l['decl'].get('kind') == 'var':
                    i = F.ex[F.strip_casts(nd['c'][1])]
                    hs_defs.setdefault(l['decl']['id'], []).append(nd['op'] == '=' and i['k'] == 'member' and i.get('field') == 'halfrate_flag')
            elif nd['k'] == 'un' and nd['op'] in ('pre++', 'pre--', 'post++', 'post--', '&'):
                l = F.ex[F.strip_casts(nd['c'][0])]
                if l['k'] == 'ref' and l['decl'].get('kind') == 'var':
                    hs_defs.setdefault(l['decl']['id'], []).append(False)
        hs_ids = {v for v, ds in hs_defs.items() if ds and all(ds)}

        def is_hs(q, F=F, hs_ids=hs_ids):
            nd = F.ex[q]
            return (nd['k'] == 'ref' and nd['decl'].get('id') in hs_ids) or (nd['k'] == 'member' and nd.get('field') == 'halfrate_flag')
        problems, nst = {}, 0
        bad_exits = {}
        amt = {}
        for k_ in (0, 1):
            pi = pairinv.PairInv(P, F, REC, LO, HI, k_, nonneg, is_hs).run()
            nst = max(nst, pi.stores)
            for e, okk in pi.amount_nn.items():
                amt[e] = amt.get(e, True) and okk
            for (e, msg) in pi.problems:
                problems.setdefault(e, msg + f' (half-rate flag {k_})')
            for (e, st) in pi.exits:
                if st.touched and not st.inv:
                    bad_exits.setdefault(e, k_)
        # trimmed amounts are never negative (K4)
        for i, e in enumerate(sorted(stores, key=lambda x: F.ex[x]['loc'])):
            nd = F.ex[e]
            fld = F.ex[F.strip_casts(nd['c'][0])]['field']
            if nd['op'] == '+=':
                v = vals.get(F.strip_casts(nd['c'][1]))
                if F.name == 'vorbis_synthesis_blockin':
                    okn = (v is not None and v.lo >= 0) or amt.get(e, False)
                    chk.ob(RULE, F.name, f'trim-amount-nonnegative:{fld}{nd["op"]}#{i}', okn, F.where(e),
                           f'amount {v}' + ('' if (v is not None and v.lo >= 0) or not okn else
                                            '; non-negative by the relational analysis (clamped between 0 and pcm_current-pcm_returned)'))
        # an unbounded update is a defect only when the invariant is not re-established before the function returns
        # (`ret+=n; if(ret>cur)ret=cur;` is fine); the updates are named in the report
        if not bad_exits:
            problems = {}
        first = sorted(problems)[0] if problems else (sorted(bad_exits)[0] if bad_exits else None)
        ok = not bad_exits
        chk.ob(RULE, F.name, 'returned-never-passes-current', ok, F.where(first) if first else F.where(),
               f'{nst} stores to pcm_returned / pcm_current; pcm_returned <= pcm_current holds at every return that follows one, for '
               'half-rate off and on' if ok else
               ('; '.join(sorted(set(problems.values())))[:300] if problems else
                f'pcm_returned <= pcm_current is not re-established before the return on line {F.loc(first)} '
                f'(half-rate flag {bad_exits[first]})'))


def g_halfrate(chk, P, D, sk):
    F = P.need('vorbis_synthesis_halfrate')
    hits = []

    def part(A, env):
        for p in A.F.params:
            if p['name'] == 'flag':
                v = env.get(f'v{p["id"]}')
                if v is not None:
                    return 0 if v.const() == 0 else (1 if (v.lo > 0 or v.hi < 0 or 0 in v.ne) else None)
        return None

    def obs(A, env, e, v):
        nd = A.ex[e]
        if nd['k'] == 'assign':
            l = A.ex[A.F.strip_casts(nd['c'][0])]
            if l['k'] == 'member' and l.get('field') == 'halfrate_flag':
                bs = [x for k, x in env.items() if isinstance(k, str) and k.endswith('blocksizes[0]') and isinstance(x, V)]
                hits.append((e, part(A, env), A.peek(env, nd['c'][1]), bs[0] if bs else None))
    A = absint.Analyzer(P, F, field_inv=dict(D.inv_ok), partition=part)
    A.observers.append(obs)
    A.run()
    chk.require(hits, 'vorbis_synthesis_halfrate: store to halfrate_flag not found')
    bad = [h for h in hits if (h[2] is None or h[2].hi > 0) and (h[3] is None or h[3].lo <= 64) and h[1] != 0]
    chk.ob(RULE, F.name, 'halfrate-refused-for-64-sample-blocks', not bad, F.where(hits[0][0]),
           'a non-zero flag is stored only with blocksizes[0] > 64, so window[W]-hs >= 0 in _vorbis_window_get' if not bad else
           f'halfrate_flag may become {bad[0][2]} with blocksizes[0] {bad[0][3]}')


def g_render_line_ctx(chk, P, D, sk):
    c = D.ctx.get('render_line')
    chk.require(c is not None and c.seen, 'render_line is not reached from the decode API')
    F = P.need('render_line')
    for pn in ('y0', 'y1'):
        v = c.params.get(pn)
        ok = v is not None and v.lo >= 0 and v.hi <= 255
        chk.ob(RULE, 'floor1_inverse2', f'render_line-{pn}-clamped', ok, F.where(),
               f'{pn} in {v} at every call: with the Bresenham lemma every rendered y stays in [0,255] = extent of '
               'FLOOR1_fromdB_LOOKUP' if ok else f'{pn} {v}: a floor value outside [0,255] reaches the dB table lookup')


def g_bytes_left(chk, P, D, sk):
    """allocations sized by a stream field are preceded by a bytes-left test"""
    for fn, minimum in (('_vorbis_unpack_comment', 3), ('vorbis_staticbook_unpack', 2)):
        F = P.need(fn)
        k = 0
        seenc = {}
        for e in sorted(F.calls(), key=lambda x: F.ex[x]['loc']):
            d = F.ex[e]['callee'].get('d')
            if d not in ('malloc', 'calloc'):
                continue
            args = F.ex[e]['c']
            # constant-size allocations need no test
            if all(F.ex[F.strip_casts(a)]['k'] == 'int' for a in args):
                continue
            cs = [(canon(P, F, c, sk, depth=1), pol) for c, pol in common.controlling_conditions(F, e)]
            ok = any((not pol) and '.storage-' in s.replace('<.storage>', '.storage') and '>' in s for s, pol in cs)
            size = F.s(e)
            if ok:
                k += 1
            # the ordered length list and fixed structures are bounded by their field widths only (R02.2 bounds them)
            cn_ = canon(P, F, e, sk, depth=0)
            seenc[cn_] = seenc.get(cn_, 0) + 1
            chk.ob(RULE, fn, f'bytes-left-test:{cn_}#{seenc[cn_] - 1}', ok or '.entries' in canon(P, F, e, sk, depth=0) and fn == 'vorbis_staticbook_unpack',
                   F.where(e), ('dominated by a bytes-left test' if ok else 'bounded by its 24-bit field only (recorded as size bound)')
                   if ok or '.entries' in canon(P, F, e, sk, depth=0) else f'{size}: no dominating bytes-left test; conditions {cs}')
        chk.require(k >= minimum, f'{fn}: only {k} allocations behind a bytes-left test (expected >= {minimum})')


def g_quantvals(chk, P, D, sk):
    """the lattice-size search of _book_maptype1_quantvals only terminates for dim >= 1 (with dim == 0 its inner loop never
    runs and vals grows without bound)"""
    F = P.need('_book_maptype1_quantvals')
    seen = []

    def obs(A, env, e, v):
        nd = A.ex[e]
        if nd['k'] == 'call' and nd['callee'].get('d') in ('pow', 'powf', 'floor'):
            d = [x for k, x in env.items() if isinstance(k, str) and k.endswith('->dim') and isinstance(x, V)]
            seen.append((e, d[0] if d else None))
    A = D.make_analyzer(P.key(F))
    A.observers.append(obs)
    A.run()
    chk.require(seen, '_book_maptype1_quantvals: initial estimate (pow/floor) not found')
    bad = [(e, d) for e, d in seen if d is None or d.lo < 1]
    chk.ob(RULE, F.name, 'lattice-search-needs-dim>=1', not bad, F.where(seen[0][0]),
           'the search is entered only with b->dim >= 1' if not bad else
           f'the search is entered with b->dim {bad[0][1]}: for dim == 0 it does not terminate (decoder init hangs)')


def g_rejected_block(chk, P, D, sk):
    """a rejected packet leaves no stale block behind: after the block arena was reset (_vorbis_block_ripcord), every
    failing return of the packet parsers has vb->pcm == NULL, so a vorbis_synthesis_blockin that follows a rejected
    vorbis_synthesis (the API allows any call order) finds nothing to read"""
    import k2
    for fn in ('vorbis_synthesis', 'vorbis_synthesis_trackonly'):
        F = P.need(fn)
        pid = F.params[0]['id']
        def post_call(A_, env, e, r):
            # return-value ranges of internal callees from the cross-function analysis (a helper that reports the error code)
            tg = P.call_targets(A_.F, e)
            if not tg or any(t not in D.rets for t in tg):
                return None
            out = None
            for t in tg:
                out = absint.join(out, D.rets[t])
            return V(out.lo, out.hi) if out is not None else None
        A, h = k2.analyse(P, F, [('arena_reset', k2.event(P, k2.s_call('_vorbis_block_ripcord'), 'may'), True)],
                          field_inv=D.field_inv_for(P.key(F)), post_call=post_call)
        bad, n = [], 0
        for (e, fl, v, env) in k2.ret_value_classes(A):
            if v is None or v.hi >= 0 or 'arena_reset' not in fl:
                continue
            n += 1
            pv = env.get(f'v{pid}->pcm')
            if not (isinstance(pv, V) and (pv.nn is False or pv.const() == 0)):
                bad.append(e)
        chk.require(n > 0, f'{fn}: no failing return after the arena reset')
        chk.ob(RULE, fn, 'rejected-packet-leaves-no-stale-block', not bad, F.where(bad[0]) if bad else F.where(),
               f'vb->pcm is NULL at all {n} failing returns reached after _vorbis_block_ripcord' if not bad else
               f'{len(bad)} of {n} failing returns leave vb->pcm as it was: it points into the block arena that was just reset '
               '(possibly re-allocated), and vorbis_synthesis_blockin would read it')


def run(chk, P, D):
    chk.rule(RULE, 'listed semantic guards of the decoder are present, each stated over the resolved program: the set-up '
             'completeness gate; group/stage book checks and post uniqueness in the unpackers (for-all loops whose failing edge '
             'cannot reach the success return); residue end clipped to the block; vector-decoder stores bounded by the length '
             'argument; partition-word index below partvals; granule-trimming clamps; half-rate refusal for 64-sample blocks; '
             'floor values clamped before the dB lookup; bytes-left tests before stream-sized allocations')
    sk = k8.Skel(P, 'r')
    g_gate(chk, P, D)
    g_res0_unpack(chk, P, D, sk)
    g_floor1_unique_posts(chk, P, D, sk)
    g_residue_end_clip(chk, P, D, sk)
    g_decode_loops(chk, P, D, sk)
    g_decodemap_index(chk, P, D, sk)
    g_blockin_clamps(chk, P, D, sk)
    g_halfrate(chk, P, D, sk)
    g_render_line_ctx(chk, P, D, sk)
    g_bytes_left(chk, P, D, sk)
    g_quantvals(chk, P, D, sk)
    g_rejected_block(chk, P, D, sk)
    chk.floor(RULE, 25)
