"""Typestate of the libogg objects vorbisfile.c works with (shared by C07, C09, C10).

page_once:   a fetched page is handed to one stream state at most once.  libogg numbers pages; a page submitted a second
             time looks like a gap, and the next ogg_stream_packetout reports a hole (OV_HOLE) on an intact stream.
stream_live: a local ogg_stream_state is used only between ogg_stream_init and ogg_stream_clear.  libogg answers every call
             on a cleared state with an error code that vorbisfile.c does not look at, so the caller silently sees no packets.

Both are decided with K2 (the K4 interpreter partitioned by event flags): the events are calls, resolved by callee and by
which object the argument designates; helper functions that take the page through a pointer parameter are summarised by
running the same analysis on them (flags at their success returns)."""
import k2
from rules import common

PAGE_T = 'ogg_page'
STREAM_T = 'ogg_stream_state'


def _addr_of_var(F, e):
    """id of the local/param variable whose address (or, for a pointer parameter, value) expression e is"""
    nd = F.ex[F.strip_casts(e)]
    if nd['k'] == 'un' and nd['op'] == '&':
        t = F.ex[F.strip_casts(nd['c'][0])]
        if t['k'] == 'ref' and t['decl'].get('kind') in ('var', 'param'):
            return t['decl']['id']
    if nd['k'] == 'ref' and nd['decl'].get('kind') in ('var', 'param'):
        return nd['decl']['id']
    return None


def _vtype(F, vid):
    v = F.vars.get(vid)
    if v:
        return v.get('t', '')
    for p in F.params:
        if p['id'] == vid:
            return p.get('t', '')
    return ''


def _page_vars(F):
    out = set()
    for vid, v in F.vars.items():
        t = v.get('t', '')
        if PAGE_T in t and '[' not in t:
            out.add(vid)
    for p in F.params:
        if PAGE_T in p.get('t', ''):
            out.add(p['id'])
    return out


def _stream_key(F, e):
    return F.s(F.strip_casts(e), names=False)


def _page_writers(P, E):
    """functions (by key) that may write the page object passed as parameter i: {key: {i}}"""
    out = {}
    for k, sm in E.summ.items():
        F = P.fn.get(k)
        if F is None:
            continue
        for (o, r, f) in sm['stores']:
            if o[0] == 'P' and o[2] == 1 and o[1] < len(F.params) and PAGE_T in F.params[o[1]].get('t', ''):
                out.setdefault(k, set()).add(o[1])
    return out


_RS_FLOOR = {}


def rs_floor(P, key):
    """the lowest constant any function reachable from `key` stores into OggVorbis_File.ready_state (0 when the handle may be
    wiped by memset or a non-constant value is stored); None when nothing reachable stores the field"""
    ck = (id(P), key)
    if ck in _RS_FLOOR:
        return _RS_FLOOR[ck]
    lo = None
    for k in P.reachable([key]):
        G = P.fn.get(k)
        if G is None:
            continue
        for e in G.pos:
            nd = G.ex[e]
            if nd['k'] == 'assign':
                l = G.ex[G.strip_casts(nd['c'][0])]
                if l['k'] == 'member' and l.get('record') == 'OggVorbis_File' and l['field'] == 'ready_state':
                    c = common.const_val(G, nd['c'][1]) if nd['op'] == '=' else None
                    c = 0 if c is None else c
                    lo = c if lo is None else min(lo, c)
            elif nd['k'] == 'call' and nd['callee'].get('d') == 'memset' and nd.get('c'):
                a = G.ex[G.strip_casts(nd['c'][0])]
                if a['k'] == 'ref' and 'OggVorbis_File' in (a['decl'].get('t') or _vtype(G, a['decl'].get('id'))):
                    lo = 0
    _RS_FLOOR[ck] = lo
    return lo


def entry_states(P):
    """handle states (ready_state values) with which K5 enters each function: {key: (lo, hi)}"""
    import typestate
    K = typestate.scan(P)[0]
    ent = {}
    for mk in K.memo:
        if isinstance(mk, tuple) and len(mk) == 3:
            for (_gi, en) in mk[1]:
                ent.setdefault(mk[0], set()).add(en[0])
    return {k: (min(v), max(v)) for k, v in ent.items() if v}


def set_entry_rs(F, env, rs):
    from absint import V
    for p in F.params:
        if p.get('record') == 'OggVorbis_File':
            env[f'v{p["id"]}->ready_state'] = V(rs[0], rs[1])


def apply_rs_floor(P, F, env, e, rs):
    """after call e: the handle state is not below what the callee's closure stores, nor below the entry state"""
    from absint import V
    lb = rs[0]
    for t in P.call_targets(F, e):
        f_ = rs_floor(P, t)
        if f_ is not None:
            lb = min(lb, f_)
    for p in F.params:
        if p.get('record') == 'OggVorbis_File':
            k_ = f'v{p["id"]}->ready_state'
            cur = env.get(k_)
            if not isinstance(cur, V):
                env[k_] = V(lb, 4)
            elif cur.lo < lb or cur.hi > 4:
                env[k_] = cur.copy(lo=max(cur.lo, lb), hi=min(cur.hi, 4))


def _analyse_pages(P, F, pv, writers, submitters, entry_rs=None):
    """K2 run over F: flag ('S', page var, stream key) = that page is in that stream. -> (A, hooks, pagein call nodes)"""
    def fetch(A, env, e):
        nd = A.ex[e]
        if nd['k'] != 'call':
            return None
        hit = set()
        for i, a in enumerate(nd.get('c', [])):
            v = _addr_of_var(F, a)
            if v in pv:
                for t in P.call_targets(F, e):
                    if i in writers.get(t, ()):
                        hit.add(v)
                if nd['callee'].get('d') in ('ogg_sync_pageseek', 'ogg_sync_pageout') and i == 1:
                    hit.add(v)
        return hit

    class H(k2.Flags):
        def on_entry(self, A, env):
            env['$flags'] = frozenset()
            if entry_rs is not None:
                from absint import V
                for p in F.params:
                    if p.get('record') == 'OggVorbis_File':
                        env[f'v{p["id"]}->ready_state'] = V(entry_rs[0], entry_rs[1])
            return env

        def on_node(self, A, env, e, v):
            fl = env.get('$flags', frozenset())
            nd = A.ex[e]
            if self.watch is not None and A.final and self.watch(A, e):
                self.at.setdefault(e, set()).add(fl)
            if nd['k'] == 'call':
                nm = nd['callee'].get('d')
                args = nd.get('c', [])
                hit = fetch(A, env, e)
                if hit:
                    fl = frozenset(x for x in fl if x[1] not in hit)
                if nm == 'ogg_stream_pagein' and len(args) >= 2:
                    v_ = _addr_of_var(F, args[1])
                    if v_ in pv:
                        fl = fl | {('S', v_, _stream_key(F, args[0]))}
                for t in P.call_targets(F, e):
                    if t in submitters:
                        i, sk = submitters[t]
                        if i < len(args):
                            v_ = _addr_of_var(F, args[i])
                            if v_ in pv:
                                fl = fl | {('S', v_, sk)}
                if entry_rs is not None:
                    # the handle state after a call: never below what the callee's closure stores (nor below the entry state)
                    from absint import V
                    lb = entry_rs[0]
                    for t in P.call_targets(F, e):
                        f_ = rs_floor(P, t)
                        if f_ is not None:
                            lb = min(lb, f_)
                    for p in F.params:
                        if p.get('record') == 'OggVorbis_File':
                            k_ = f'v{p["id"]}->ready_state'
                            cur = env.get(k_)
                            if not isinstance(cur, V):
                                env[k_] = V(lb, 4)
                            elif cur.lo < lb or cur.hi > 4:
                                env[k_] = cur.copy(lo=max(cur.lo, lb), hi=min(cur.hi, 4))
            elif nd['k'] == 'assign' and nd['op'] == '=':
                l = A.ex[F.strip_casts(nd['c'][0])]
                if l['k'] == 'ref' and l['decl'].get('id') in pv:
                    fl = frozenset(x for x in fl if x[1] != l['decl']['id'])      # the pointer now designates another page
            env['$flags'] = fl

    h = H([], watch=lambda A, e: A.ex[e]['k'] == 'call' and A.ex[e]['callee'].get('d') == 'ogg_stream_pagein')
    import absint
    A = absint.Analyzer(P, F, hooks=h, partition=k2.partition)
    A.run()
    return A, h


def page_once(chk, P, E, rule):
    chk.rule(rule, 'a fetched page is handed to a stream state at most once: in vorbisfile.c no ogg_stream_pagein(S, page) is reachable '
             'on a path on which the same page object was already submitted to the same stream S since it was last filled (by '
             '_get_next_page / _get_prev_page or any callee that may write it, K3) -- including submissions made by a helper that '
             'receives the page through a pointer parameter and returns successfully with it submitted (summary computed from the '
             'helper\'s own flags at its zero returns).  libogg treats the repeated page number as a gap and the next packetout '
             'reports a hole although the stream is intact')
    writers = _page_writers(P, E)
    fns = [F for F in P.functions() if F.file.endswith('vorbisfile.c')]
    # handle states with which each function is entered (K5: every public function from every consistent state)
    import typestate
    K = typestate.scan(P)[0]
    ent = {}
    for mk in K.memo:
        if isinstance(mk, tuple) and len(mk) == 3:
            for (_gi, en) in mk[1]:
                ent.setdefault(mk[0], set()).add(en[0])

    def entry_rs(F):
        v = ent.get(P.key(F))
        return (min(v), max(v)) if v and F.static else None
    # helpers that submit the page they are given: page pointer parameter i is in stream sk at every success return
    submitters = {}
    for F in fns:
        pp = [(i, p) for i, p in enumerate(F.params) if PAGE_T in p.get('t', '') and '*' in p.get('t', '')]
        if not pp or not list(F.calls('ogg_stream_pagein')):
            continue
        pv = _page_vars(F)
        A, h = _analyse_pages(P, F, pv, writers, {}, entry_rs(F))
        for i, p in pp:
            sks = None
            for (e, fl, v, env) in k2.ret_value_classes(A):
                if not (v.lo == 0 and v.hi == 0):
                    continue
                here = {x[2] for x in fl if x[0] == 'S' and x[1] == p['id']}
                sks = here if sks is None else (sks | here)
            if sks:
                submitters[P.key(F)] = (i, sorted(sks)[0])
                chk.notes.append(f'{rule}: {F.name} can return 0 with the page in *{p["name"]} already submitted to {sorted(sks)[0]}')
    n = 0
    for F in fns:
        pv = _page_vars(F)
        if not pv or not list(F.calls('ogg_stream_pagein')):
            continue
        A, h = _analyse_pages(P, F, pv, writers, {k: v for k, v in submitters.items() if k != P.key(F)}, entry_rs(F))
        for e in sorted(F.calls('ogg_stream_pagein'), key=lambda x: F.ex[x]['loc']):
            args = F.ex[e]['c']
            v_ = _addr_of_var(F, args[1]) if len(args) >= 2 else None
            if v_ not in pv:
                continue
            key = ('S', v_, _stream_key(F, args[0]))
            sets = h.at.get(e, set())
            bad = [fl for fl in sets if key in fl]
            n += 1
            chk.ob(rule, F.name, f'page-submitted-once@{F.loc(e)}', not bad, F.where(e),
                   f'{F.s(e)}: on all {len(sets)} path classes reaching it the page is not yet in this stream' if not bad else
                   f'{F.s(e)}: reachable on a path on which this page was already submitted to the same stream (by an earlier '
                   f'pagein or by a helper that returned with it submitted): libogg sees a page-number gap and reports a hole on '
                   'an intact stream')
    return n


def stream_live(chk, P, rule):
    chk.rule(rule, 'a local ogg_stream_state is used only while live: every ogg_stream_* call on it other than init/clear is reached '
             'only on paths on which ogg_stream_init ran and no ogg_stream_clear has run since; ogg_stream_clear only on paths '
             'on which init ran at some point (K2 flags per object).  libogg answers calls on a cleared state with an error that '
             'vorbisfile.c does not inspect: the page scan that relies on the scratch stream silently finds no packets')
    n = 0
    for F in P.functions():
        if not F.file.endswith('vorbisfile.c'):
            continue
        sv = {vid for vid, v in F.vars.items() if v.get('t', '').replace('struct ', '').strip() in (STREAM_T,)}
        if not sv:
            continue

        class H(k2.Flags):
            def on_node(self, A, env, e, v):
                fl = env.get('$flags', frozenset())
                nd = A.ex[e]
                if nd['k'] == 'call' and (nd['callee'].get('d') or '').startswith('ogg_stream_') and nd.get('c'):
                    v_ = _addr_of_var(F, nd['c'][0])
                    if v_ in sv:
                        if A.final:
                            self.at.setdefault(e, set()).add(fl)
                        nm = nd['callee']['d']
                        if nm == 'ogg_stream_init':
                            fl = (fl - {('Z', v_)}) | {('L', v_)}
                        elif nm == 'ogg_stream_clear':
                            fl = (fl - {('L', v_)}) | {('Z', v_)}
                env['$flags'] = fl
        h = H([])
        import absint
        A = absint.Analyzer(P, F, hooks=h, partition=k2.partition)
        A.run()
        for e, sets in sorted(h.at.items(), key=lambda kv: F.ex[kv[0]]['loc']):
            nd = F.ex[e]
            nm = nd['callee']['d']
            v_ = _addr_of_var(F, nd['c'][0])
            vn = F.vars[v_]['name']
            if nm == 'ogg_stream_init':
                bad = [fl for fl in sets if ('L', v_) in fl]
                why = 'initialised again while live (the first buffers leak)'
            elif nm == 'ogg_stream_clear':
                bad = [fl for fl in sets if ('L', v_) not in fl and ('Z', v_) not in fl]
                why = 'cleared without ever having been initialised (frees indeterminate pointers)'
            else:
                bad = [fl for fl in sets if ('L', v_) not in fl]
                why = ('used after ogg_stream_clear: libogg rejects the call and the caller does not notice' if any(('Z', v_) in fl for fl in bad)
                       else 'used before ogg_stream_init')
            n += 1
            chk.ob(rule, F.name, f'stream-live:{vn}@{F.loc(e)}', not bad, F.where(e),
                   f'{F.s(e)[:60]}: {vn} is live on all {len(sets)} path classes' if not bad else f'{F.s(e)[:60]}: {vn} is {why}')
    return n


def packet_filled(chk, P, rule):
    chk.rule(rule, 'a packet is looked at only after libogg filled it: in vorbisfile.c every read of a field of a local ogg_packet, and '
             'every call that receives its address for reading, is reached only on paths on which the most recent '
             'ogg_stream_packetout / ogg_stream_packetpeek on that packet returned a positive value (K4 forks on the result '
             'class of each such call; libogg writes the packet only then), and a call that reads the payload through op.packet '
             'is not separated from that fetch by anything that can move a stream\'s body storage (ogg_stream_pagein, _reset, '
             '_clear, directly or in a callee).  On the other paths the packet holds whatever the '
             'stack held: a branch on op.granulepos then goes either way')
    import absint
    from absint import V
    import k6
    FILLERS = ('ogg_stream_packetout', 'ogg_stream_packetpeek')
    # calls that may move or rewrite a stream's body storage, which op.packet points into
    RECYCLERS = ('ogg_stream_pagein', 'ogg_stream_reset', 'ogg_stream_reset_serialno', 'ogg_stream_clear', 'ogg_stream_init')
    n = 0
    recyclers = set()
    for F_ in P.functions():
        if F_.file.endswith('vorbisfile.c') and any(F_.ex[c]['callee'].get('d') in RECYCLERS for c in F_.calls()):
            recyclers.add(P.key(F_))
    grew = True
    while grew:
        grew = False
        for F_ in P.functions():
            k_ = P.key(F_)
            if k_ not in recyclers and F_.file.endswith('vorbisfile.c') and \
                    any(t in recyclers for c in F_.calls() for t in P.call_targets(F_, c)):
                recyclers.add(k_)
                grew = True
    for F in P.functions():
        if not F.file.endswith('vorbisfile.c'):
            continue
        pk = {vid for vid, v in F.vars.items() if v.get('t', '').replace('struct ', '').strip() == 'ogg_packet'}
        if not pk:
            continue
        reads = {}

        class H(k2.Flags):
            def on_node(self, A, env, e, v):
                fl = env.get('$flags', frozenset())
                nd = A.ex[e]
                if A.final:
                    vid = None
                    if nd['k'] == 'member' and not nd.get('arrow'):
                        b = A.ex[F.strip_casts(nd['c'][0])]
                        if b['k'] == 'ref' and b['decl'].get('id') in pk:
                            par = F.sparent.get(e)
                            is_tgt = par is not None and A.ex[par]['k'] == 'assign' and A.ex[par]['op'] == '=' and A.ex[par]['c'][0] == e
                            if not is_tgt:
                                vid = b['decl']['id']
                    elif nd['k'] == 'call' and nd['callee'].get('d') not in FILLERS:
                        for a in nd.get('c', []):
                            v_ = _addr_of_var(F, a)
                            an = A.ex[F.strip_casts(a)]
                            if v_ in pk and an['k'] == 'un' and an['op'] == '&':
                                vid = v_
                                # the callee reads the payload through op.packet: that needs the body storage untouched
                                reads.setdefault((e, vid, 'payload'), set()).add(('P', vid) in fl)
                    if vid is not None:
                        reads.setdefault((e, vid), set()).add(('F', vid) in fl)
                if nd['k'] == 'call' and (nd['callee'].get('d') in RECYCLERS or
                                          any(t in recyclers for t in P.call_targets(F, e))):
                    fl = frozenset(x for x in fl if x[0] != 'P')
                if nd['k'] == 'assign' and nd['op'] == '=':
                    l = A.ex[F.strip_casts(nd['c'][0])]
                    if l['k'] == 'ref' and l['decl'].get('id') in pk:
                        fl = fl | {('F', l['decl']['id'])}          # whole-struct copy
                env['$flags'] = fl

            def fork(self, A, env, e):
                nd = A.ex[e]
                if nd['k'] != 'call' or nd['callee'].get('d') not in FILLERS or len(nd.get('c', [])) < 2:
                    return None
                v_ = _addr_of_var(F, nd['c'][1])
                an = A.ex[F.strip_casts(nd['c'][1])]
                if v_ not in pk or not (an['k'] == 'un' and an['op'] == '&'):
                    return None
                outs = []
                for cls, filled in (('nonpos', False), ('pos', True)):
                    e2 = env.copy()
                    tmp = dict(e2.get('$tmp') or {})
                    cur = tmp.get(e)
                    nv = V(-1, 0) if cls == 'nonpos' else V(1, 1)       # libogg: packetout / packetpeek return -1, 0 or 1
                    if cur is not None:
                        nv = cur.copy(lo=max(cur.lo, nv.lo), hi=min(cur.hi, nv.hi))
                        if nv.is_bottom():
                            continue
                    tmp[e] = nv
                    e2['$tmp'] = tmp
                    fl = e2.get('$flags', frozenset())
                    e2['$flags'] = (fl | {('F', v_), ('P', v_)}) if filled else fl
                    outs.append(e2)
                return outs
        h = H([])
        A = absint.Analyzer(P, F, hooks=h, partition=k2.partition)
        A.run()
        for key_, st in sorted(reads.items(), key=lambda kv: (F.ex[kv[0][0]].get('loc') or [0, 0], len(kv[0]))):
            e, vid = key_[0], key_[1]
            ok = False not in st
            n += 1
            nm = F.vars[vid]['name']
            if len(key_) == 3:
                chk.ob(rule, F.name, f'packet-payload-still-in-the-stream:{nm}@{F.loc(e)}', ok, F.where(e),
                       f'`{F.s(e)[:50]}`: no page was submitted to (and nothing reset) a stream since {nm} was fetched' if ok else
                       f'`{F.s(e)[:50]}` reads the payload of {nm} after ogg_stream_pagein / reset on a stream: libogg may have moved '
                       'the body storage op.packet points into')
                continue
            chk.ob(rule, F.name, f'packet-filled-before-use:{nm}@{F.loc(e)}', ok, F.where(e),
                   f'`{F.s(e)[:50]}`: {nm} was filled by a positive packetout/packetpeek on every path' if ok else
                   f'`{F.s(e)[:50]}` is reachable on a path on which no packetout/packetpeek has returned a positive value for {nm} '
                   'since it was declared: the field holds stack garbage')
    return n


PAGE_READERS = ('ogg_page_serialno', 'ogg_page_granulepos', 'ogg_page_bos', 'ogg_page_eos', 'ogg_page_continued',
                'ogg_page_pageno', 'ogg_page_packets', 'ogg_page_version', 'ogg_stream_pagein')


def page_valid(chk, P, E, rule):
    chk.rule(rule, 'a page is looked at only while it is the page libogg last found: an ogg_page is a set of pointers into the '
             'ogg_sync buffer.  In vorbisfile.c a page object is VALID from a fetch that reported a page (ogg_sync_pageseek > 0, '
             'or a helper that takes the page by pointer and returned >= 0 -- helpers are verified, not assumed: each returns '
             'non-negative only with the page valid) until the next call that may recycle the sync buffer\'s memory (anything that can '
             'reach ogg_sync_buffer / _wrote / _clear: a further fetch that finds nothing, _get_data; not ogg_sync_reset).  Every ogg_page_* accessor call, every '
             'ogg_stream_pagein and every non-negative return of such a helper is reached only with the page valid (K4 forked on '
             'the result class of each fetch; og->header_len is followed through memset and fetch so that the "re-read if we no '
             'longer hold it" test is understood).  After a failed look-ahead the buffer may have been compacted or reallocated: '
             'the old page dangles')
    import absint
    from absint import V
    import k6
    # what recycles the sync buffer's memory: ogg_sync_buffer (compacts / reallocates), ogg_sync_wrote, _clear, _init -- and every
    # function that can reach one of them.  ogg_sync_reset only rewinds the fill marks: pointers into the buffer stay good until
    # the next read.
    MOVERS = {'ogg_sync_buffer', 'ogg_sync_wrote', 'ogg_sync_clear', 'ogg_sync_init'}
    oy_writers = set()
    for F_ in P.functions():
        if any(F_.ex[c]['callee'].get('d') in MOVERS for c in F_.calls()):
            oy_writers.add(P.key(F_))
    grew = True
    while grew:
        grew = False
        for F_ in P.functions():
            k_ = P.key(F_)
            if k_ in oy_writers:
                continue
            if any(t in oy_writers for c in F_.calls() for t in P.call_targets(F_, c)):
                oy_writers.add(k_)
                grew = True
    fns = [F for F in P.functions() if F.file.endswith('vorbisfile.c')]
    fetchers = {}       # key -> page param index: returns >= 0 only with the page valid (verified below)
    ent = entry_states(P)

    def analyse(F, pv):
        uses, rets = {}, []

        def pkey(vid):
            return f'v{vid}->header_len' if any(p['id'] == vid for p in F.params) else f'v{vid}.header_len'

        class H(k2.Flags):
            def on_entry(self, A, env):
                # a page handed in by the caller is valid by the caller's obligation
                env['$flags'] = frozenset(('V', p['id']) for p in F.params if p['id'] in pv)
                for p in F.params:
                    if p['id'] in pv:
                        env[pkey(p['id'])] = V(1, 2 ** 31 - 1)
                if F.static and P.key(F) in ent:
                    set_entry_rs(F, env, ent[P.key(F)])
                return env

            def on_call(self, A, env, e, avals):
                env['$prehl'] = (e, {vid: env.get(pkey(vid)) for vid in pv})
                return None

            def on_node(self, A, env, e, v):
                fl = env.get('$flags', frozenset())
                nd = A.ex[e]
                if nd['k'] == 'call':
                    nm = nd['callee'].get('d')
                    args = nd.get('c', [])
                    if nm in PAGE_READERS and A.final:
                        i_ = 1 if nm == 'ogg_stream_pagein' else 0
                        if i_ < len(args):
                            v_ = _addr_of_var(F, args[i_])
                            if v_ in pv:
                                uses.setdefault((e, v_), set()).add(('V', v_) in fl)
                    is_fetch = nm == 'ogg_sync_pageseek' or any(t in fetchers for t in P.call_targets(F, e))
                    if not is_fetch:
                        if nm == 'memset' and args and _addr_of_var(F, args[0]) in pv and common.const_val(F, args[1]) == 0:
                            v_ = _addr_of_var(F, args[0])
                            fl = fl - {('V', v_)}
                            env[pkey(v_)] = V(0, 0)
                        elif any(t in oy_writers for t in P.call_targets(F, e)) or nm in MOVERS:
                            fl = frozenset(x for x in fl if x[0] != 'V')
                elif nd['k'] == 'assign' and nd['op'] == '=':
                    l = A.ex[F.strip_casts(nd['c'][0])]
                    if l['k'] == 'ref' and l['decl'].get('id') in pv:
                        src = _addr_of_var(F, nd['c'][1])
                        if src in pv and ('V', src) in fl:
                            fl = fl | {('V', l['decl']['id'])}
                        else:
                            fl = fl - {('V', l['decl']['id'])}
                if nd['k'] == 'call' and F.static and P.key(F) in ent:
                    apply_rs_floor(P, F, env, e, ent[P.key(F)])
                env['$flags'] = fl

            def fork(self, A, env, e):
                nd = A.ex[e]
                if nd['k'] != 'call':
                    return None
                nm = nd['callee'].get('d')
                args = nd.get('c', [])
                pi = None
                if nm == 'ogg_sync_pageseek':
                    pi, pos_cls, neg_cls = 1, 'pos', 'nonpos'
                else:
                    for t in P.call_targets(F, e):
                        if t in fetchers:
                            pi = fetchers[t]
                            # an int result is a status (0 = done), a wider one an offset (>= 0 = found)
                            if P.fn[t].d.get('ret_t', '').strip() == 'int':
                                pos_cls, neg_cls = 'zero', 'nonzero'
                            else:
                                pos_cls, neg_cls = 'nonneg', 'neg'
                if pi is None or pi >= len(args):
                    return None
                v_ = _addr_of_var(F, args[pi])
                if v_ not in pv:
                    return None
                outs = []
                for cls, ok in ((neg_cls, False), (pos_cls, True)):
                    e2 = env.copy()
                    tmp = dict(e2.get('$tmp') or {})
                    cur = tmp.get(e)
                    if cls == 'nonneg':
                        nv = V(0, 2 ** 63 - 1)
                    elif cls == 'neg':
                        nv = V(-2 ** 63, -1)
                    elif cls == 'zero':
                        nv = V(0, 0)
                    elif cls == 'nonzero':
                        nv = V(-2 ** 31, 2 ** 31 - 1, ne=frozenset({0}))
                    else:
                        nv = k6.class_value(cls, (-2 ** 63, 2 ** 63 - 1))
                    if cur is not None:
                        nv = cur.copy(lo=max(cur.lo, nv.lo), hi=min(cur.hi, nv.hi), ne=frozenset(cur.ne) | frozenset(nv.ne))
                        if nv.is_bottom():
                            continue
                    tmp[e] = nv
                    e2['$tmp'] = tmp
                    fl = frozenset(x for x in e2.get('$flags', frozenset()) if x[0] != 'V')      # the sync buffer was touched
                    if ok:
                        fl = fl | {('V', v_)}
                        e2[pkey(v_)] = V(1, 2 ** 31 - 1)
                    else:
                        # libogg writes the page object only when it found a page: the fields keep their values
                        pre = env.get('$prehl')
                        if pre and pre[0] == e and pre[1].get(v_) is not None:
                            e2[pkey(v_)] = pre[1][v_]
                    e2['$flags'] = fl
                    outs.append(e2)
                import os as _os
                if _os.environ.get('PS_DEBUG') and A.final:
                    print('FORK', F.name, F.s(e), [(o.get('$flags'), (o.get('$tmp') or {}).get(e)) for o in outs])
                return outs
        h = H([])

        def part(A_, env):
            z = []
            for vid in sorted(pv):
                x = env.get(pkey(vid))
                z.append('Z' if isinstance(x, V) and x.const() == 0 else 'N' if isinstance(x, V) and x.lo >= 1 else '?')
            return (env.get('$flags', frozenset()), tuple(z))
        A = absint.Analyzer(P, F, hooks=h, partition=part)
        A.run()
        for (e, env, v) in A.ret_states:
            rets.append((e, env.get('$flags', frozenset()), v))
        return uses, rets

    # helpers that take the page by pointer and fetch into it: verified to return >= 0 only with the page valid
    cand = []
    for F in fns:
        pp = [(i, p) for i, p in enumerate(F.params) if PAGE_T in p.get('t', '') and '*' in p.get('t', '')]
        if pp and F.d.get('ret_t', '').strip() not in ('void', ''):
            cand.append((F, pp[0][0], pp[0][1]['id']))
    n = 0
    results = {}
    for _round in range(3):
        changed = False
        for F, pi, pid in cand:
            if not any(F.ex[c]['callee'].get('d') == 'ogg_sync_pageseek' or any(t in fetchers for t in P.call_targets(F, c)) for c in F.calls()):
                continue
            pv = _page_vars(F)
            uses, rets = analyse(F, pv)
            results[P.key(F)] = (F, uses, rets, pid)
            good = all(('V', pid) in fl for (e, fl, v) in rets if v is not None and v.hi >= 0 and not (v.lo == v.hi == 0 and False))
            has_nonneg = any(v is not None and v.hi >= 0 for (e, fl, v) in rets)
            if has_nonneg and P.key(F) not in fetchers and (good or F.name != 'ogg_sync_pageseek'):
                # the helper is *used* as a fetcher by its callers either way; whether it keeps the contract is an obligation below
                fetchers[P.key(F)] = pi
                changed = True
        if not changed:
            break
    chk.notes.append(f"{rule}: fetch helpers (verified): {sorted(P.fn[k].name for k in fetchers)}")
    for k, (F, uses, rets, pid) in sorted(results.items()):
        if k not in fetchers:
            continue
        # only helpers whose int result is an offset/ordinal (>= 0 means "a page is in *og"): those that fetch on every nonneg path
        status = F.d.get('ret_t', '').strip() == 'int'
        if status:
            bad = [(e, v) for (e, fl, v) in rets if v is not None and v.lo <= 0 <= v.hi and 0 not in v.ne and v.lo == 0 == v.hi and ('V', pid) not in fl]
        else:
            bad = [(e, v) for (e, fl, v) in rets if v is not None and v.hi >= 0 and v.lo >= 0 and ('V', pid) not in fl]
        n += 1
        chk.ob(rule, F.name, 'success-return-hands-out-a-valid-page', not bad, F.where(bad[0][0]) if bad else F.where(),
               'every return that can be non-negative is reached with the page valid' if not bad else
               f'`{F.s(bad[0][0])}` (value {bad[0][1]}) is reachable with the page in *{[p["name"] for p in F.params if p["id"] == pid][0]} not '
               'valid: a fetch that found nothing (and may have moved the sync buffer) came after the fetch that filled it')
    for F in fns:
        pv = _page_vars(F)
        if not pv:
            continue
        if P.key(F) in results:
            uses = results[P.key(F)][1]
        else:
            if not any(F.ex[c]['callee'].get('d') in PAGE_READERS for c in F.calls()):
                continue
            uses, _ = analyse(F, pv)
        # page parameters of pure readers (no fetch inside) are the caller's business
        params_ = {p['id'] for p in F.params}
        for (e, vid), st in sorted(uses.items(), key=lambda kv: F.ex[kv[0][0]].get('loc') or [0, 0]):
            if vid in params_ and P.key(F) not in fetchers:
                continue
            if vid in params_ and not any(True for _ in [0]):
                continue
            ok = False not in st
            if vid in params_:
                # on entry the caller's page is valid by the caller's obligation; only uses after an invalidating call count
                pass
            n += 1
            chk.ob(rule, F.name, f'page-valid-at-use@{F.loc(e)}', ok, F.where(e),
                   f'`{F.s(e)[:50]}`: the page is the one libogg last found on every path' if ok else
                   f'`{F.s(e)[:50]}` is reachable after a call that may have moved the sync buffer without a successful fetch in '
                   'between: the page points into memory libogg has recycled')
    return n
