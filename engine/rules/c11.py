"""C11 — a damaged or skipped packet disturbs only its neighbourhood (partial, DESIGN 4/C11).

Decided (absence of hidden state is an effect property): R11.1 the transitive write-set of vorbis_synthesis contains no
persistent decoder state; R11.2 vorbis_synthesis_blockin / _restart write only the lapping and position fields;
R11.3 scratch is re-initialised before use; R11.4 a rejected packet never reaches the accumulator; R11.5 losing packet
sequence resets both position counters together.  Not decided: bit-identity after a disturbance."""
import cfg
import k2
import k3
import k8
from facts import AnalysisBroken
from rules import common


def _fmt(eff):
    o, r, f = eff
    return f'{k3.fmt(o)}' + (f' as {r}.{f}' if r else '')


def classify_synthesis(eff):
    """is effect (obj, rec, fld) of the packet decoder confined to the block / scratch / the idempotent floor-0 cache?"""
    o, r, f = eff
    if o[0] == 'A':
        return 'scratch'
    if r in ('vorbis_block', 'alloc_chain'):
        return 'block'
    if o[0] == 'F' and o[1] in ('vorbis_block', 'alloc_chain'):
        return 'block'
    if r == 'vorbis_look_floor0' and f in ('n', 'linearmap'):
        return 'floor0-cache'
    if o[0] == 'F' and o[1] == 'vorbis_look_floor0' and o[2] == 'linearmap':
        return 'floor0-cache'
    if o[0] == 'P' and o[1] == 0 and r is None:
        return 'block'          # the block object itself passed on to externals (oggpack_readinit(&vb->opb))
    return None


ALLOWED_BLOCKIN = {'pcm', 'lW', 'W', 'nW', 'centerW', 'pcm_current', 'pcm_returned', 'granulepos', 'sequence', 'eofflag',
                   'glue_bits', 'time_bits', 'floor_bits', 'res_bits'}
ALLOWED_RESTART = {'centerW', 'pcm_current', 'pcm_returned', 'granulepos', 'sequence', 'eofflag'}


def attribute(P, E, key, eff):
    """a function in the call tree of `key` that performs the effect directly (for the report)"""
    par = P.reachable([key])
    for k in par:
        S = E.st.get(k)
        if not S:
            continue
        for (o, r, f, e, d) in S.stores:
            if d and r == eff[1] and f == eff[2] and (eff[1] is not None or o == eff[0]):
                return S.F, e
    return None, None


def r11_1(chk, P, E):
    chk.rule('R11.1', 'the may-write set of vorbis_synthesis and vorbis_synthesis_trackonly (K3, transitively through every backend '
             'slot) contains only vorbis_block fields, block-local storage, fresh scratch and the idempotent floor-0 map cache: '
             'no field of vorbis_dsp_state, private_state, codec_setup_info, codebook, look structures or static storage. A '
             'rejected or damaged packet therefore cannot have touched the overlap accumulator or the set-up.')
    for fn in ('vorbis_synthesis', 'vorbis_synthesis_trackonly'):
        F = P.need(fn)
        effs = E.stores(P.key(F))
        bad = sorted((e for e in effs if classify_synthesis(e) is None), key=_fmt)
        kinds = {}
        for e in effs:
            c = classify_synthesis(e)
            if c:
                kinds[c] = kinds.get(c, 0) + 1
        if not bad:
            chk.ob('R11.1', fn, 'write-set-confined', True, F.where(), f'{len(effs)} effect classes: {kinds}')
        for e in bad:
            G, site = attribute(P, E, P.key(F), e)
            chk.ob('R11.1', fn, f'writes:{_fmt(e)}', False, G.where(site) if G else F.where(),
                   f'{fn} may write {_fmt(e)}' + (f' (in {G.name}: `{G.s(site)[:60]}`)' if G else ''))


def r11_6(chk, P, E):
    chk.rule('R11.6', 'the one piece of state that packet decode writes outside the block -- the floor-0 map cache '
             '(vorbis_look_floor0.n / linearmap, filled on demand) -- is never read before it is (re)established in the same call: '
             'in every function of the decode call graph other than the filler, each read of a cache field is dominated by a call '
             'that (transitively) fills it.  Otherwise the samples of a packet would depend on whether an earlier packet of the '
             'same block size happened to be decoded')
    S = P.need('vorbis_synthesis')
    par = P.reachable([P.key(S)])
    fns = [k for k in par if not k.startswith(('ext:', 'cb:', 'unk:'))]
    cache = {('vorbis_look_floor0', 'n'), ('vorbis_look_floor0', 'linearmap')}
    for (rec, fld) in cache:
        P.field(rec, fld)
    # functions that store the cache directly
    fillers = set()
    for k in fns:
        St = E.st.get(k)
        if not St:
            continue
        for (o, r, f, e, d) in St.stores:
            if d and (r, f) in cache:
                fillers.add(k)
    chk.require(fillers, 'no function fills the floor-0 map cache any more')
    fills = {k for k in fns if any((r, f) in cache for (o, r, f) in E.stores(k))}     # transitively
    n = 0
    for k in sorted(fns):
        if k in fillers:
            continue
        F = P.fn[k]
        reads = []
        for e in sorted(F.pos):
            nd = F.ex[e]
            if nd['k'] == 'member' and (nd.get('record'), nd.get('field')) in cache:
                # not the target of an assignment
                p = F.sparent.get(e)
                while p is not None and F.ex[p]['k'] in ('sub', 'cast'):
                    p = F.sparent.get(p)
                if p is not None and F.ex[p]['k'] == 'assign' and F.strip_casts(F.ex[p]['c'][0]) in list(F.walk(F.ex[p]['c'][0])) and e in set(F.walk(F.ex[p]['c'][0])):
                    continue
                reads.append(e)
        if not reads:
            continue
        fill_calls = [c for c in F.calls() if any(t in fills for t in P.call_targets(F, c))]
        per = {}
        for e in reads:
            fld = F.ex[e]['field']
            ok = any(cfg.pos_dominates(F, c, e) for c in fill_calls)
            i = per.get(fld, 0)
            per[fld] = i + 1
            n += 1
            chk.ob('R11.6', k, f'cache-read-after-fill:{fld}#{i}', ok, F.where(e),
                   'dominated by the call that fills the cache' if ok else
                   f'{F.s(e)} is read on a path on which the cache has not been filled in this call: the value depends on earlier packets')
    return n


def r11_2(chk, P, E):
    chk.rule('R11.2', 'vorbis_synthesis_blockin writes only the lapping/position state (vorbis_dsp_state.{pcm[][], lW, W, nW, '
             'centerW, pcm_current, pcm_returned, granulepos, sequence, eofflag, *_bits} and private_state.{sample_count, lapped}); '
             'vorbis_synthesis_restart only the position/sequence fields and sample_count')
    for fn, allowed in (('vorbis_synthesis_blockin', ALLOWED_BLOCKIN), ('vorbis_synthesis_restart', ALLOWED_RESTART)):
        F = P.need(fn)
        effs = E.stores(P.key(F))
        bad = []
        for (o, r, f) in effs:
            if o[0] == 'A':
                continue
            if r == 'vorbis_dsp_state' and f in allowed:
                continue
            if r == 'private_state' and f == 'sample_count':
                continue
            if r == 'private_state' and f == 'lapped' and fn == 'vorbis_synthesis_blockin':
                continue          # "the gap in front of this block has been closed" (lapping state, reset per block)
            if o[0] == 'F' and o[1] == 'vorbis_dsp_state' and o[2] == 'pcm' and r is None and fn == 'vorbis_synthesis_blockin':
                continue
            bad.append((o, r, f))
        if not bad:
            chk.ob('R11.2', fn, 'write-set-confined', True, F.where(), f'{len(effs)} effect classes, all in the allowed set')
        for e in sorted(bad, key=_fmt):
            G, site = attribute(P, E, P.key(F), e)
            chk.ob('R11.2', fn, f'writes:{_fmt(e)}', False, G.where(site) if G else F.where(), f'{fn} may write {_fmt(e)}')


def r11_3(chk, P):
    chk.rule('R11.3', 'scratch is re-initialised before use: _vorbis_block_ripcord is called on every path of vorbis_synthesis / '
             '_trackonly before any _vorbis_block_alloc and before the mapping is invoked; in every mapping inverse function the '
             'zeroing memset of vb->pcm[i] precedes the residue inverse calls and depends on nothing but the channel loop')
    for fn in ('vorbis_synthesis', 'vorbis_synthesis_trackonly'):
        F = P.need(fn)
        # the reset itself or a helper that performs it on every path
        resetters = k2.must_do(P, k2.s_call('_vorbis_block_ripcord'))
        rip = [c for c in F.calls() if F.ex[c]['callee'].get('d') == '_vorbis_block_ripcord'
               or (F.ex[c]['callee'].get('d') and P.get(F.ex[c]['callee']['d'], F) is not None
                   and P.key(P.get(F.ex[c]['callee']['d'], F)) in resetters)]
        users = [c for c in F.calls() if F.ex[c]['callee'].get('d') == '_vorbis_block_alloc'
                 or F.ex[c]['callee'].get('slot') == ['vorbis_func_mapping', 'inverse']]
        ok = bool(rip) and all(any(cfg.pos_dominates(F, r, u) for r in rip) for u in users)
        chk.ob('R11.3', fn, 'ripcord-dominates-scratch-use', ok, F.where(rip[0]) if rip else F.where(),
               f'{len(users)} scratch uses dominated by the ripcord call' if ok else 'a block allocation or the mapping call is '
               'reachable without the block arena having been reset')
    sk = k8.Skel(P, 'r')
    for inv in sorted(P.slots.get(('vorbis_func_mapping', 'inverse'), ())):
        F = P.need(inv)
        res = [c for c in F.calls() if F.ex[c]['callee'].get('slot') == ['vorbis_func_residue', 'inverse']]
        zs = []
        for c in F.calls('memset'):
            a = F.ex[c]['c']
            tgt = sk.canon(F, a[0])
            if common.const_val(F, a[1]) == 0 and '.pcm[' in tgt:
                zs.append(c)
        ok = bool(zs) and bool(res)
        msg = ''
        if ok:
            z = zs[0]
            # zeroing precedes every residue call
            for r in res:
                if cfg.search(F, F.pos[r], lambda n: n == z, lambda n: False) is not None and not cfg.pos_dominates(F, z, r):
                    ok = False
                    msg = 'the zeroing can run after residue decode'
            # no path from entry to a residue call that skips the zeroing loop entirely is required only up to loop trips;
            # the memset must not be conditional on anything but the channel loop
            conds = common.controlling_conditions(F, z)
            extra = []
            for (cnd, pol) in conds:
                s = sk.canon(F, cnd)
                if not ('.channels' in s and pol):
                    extra.append(('' if pol else '!') + s)
            if extra:
                ok = False
                msg = f'zeroing of vb->pcm[i] is conditional on {extra}: channels that skip it keep data of an earlier packet'
            if ok:
                msg = f'memset(vb->pcm[i],0,..) under {[sk.canon(F, c) for c, _ in conds]} only, before {len(res)} residue calls'
        else:
            msg = 'zeroing memset or residue call not found'
        chk.ob('R11.3', inv, 'pcm-zeroed-before-residue', ok, F.where(zs[0]) if zs else F.where(), msg)


def r11_4(chk, P):
    chk.rule('R11.4', 'in vorbisfile.c every call of vorbis_synthesis_blockin is controlled by the success (== 0) of the '
             'vorbis_synthesis / vorbis_synthesis_trackonly call that filled the block')
    n = 0
    for F in P.functions():
        if not F.file.endswith('vorbisfile.c'):
            continue
        for c in F.calls('vorbis_synthesis_blockin'):
            n += 1
            conds = common.controlling_conditions(F, c)
            ok = False
            for (cnd, pol) in conds:
                calls = [x for x in F.walk(cnd) if F.ex[x]['k'] == 'call' and F.ex[x]['callee'].get('d') in
                         ('vorbis_synthesis', 'vorbis_synthesis_trackonly')]
                if calls:
                    top = F.ex[F.strip_casts(cnd)]
                    # `!f()` with polarity True, or `f()` with polarity False, or f()==0 ...
                    neg = top['k'] == 'un' and top['op'] == '!'
                    if (neg and pol) or (not neg and top['k'] == 'call' and not pol):
                        ok = True
                    if top['k'] == 'bin' and top['op'] in ('==', '!='):
                        z = common.const_val(F, top['c'][1])
                        if z == 0 and ((top['op'] == '==') == pol):
                            ok = True
            same = sorted(F.calls('vorbis_synthesis_blockin'), key=lambda x: F.ex[x]['loc'])
            chk.ob('R11.4', P.key(F), f'vorbis_synthesis_blockin#{same.index(c)}', ok, F.where(c),
                   'reached only when the packet parse returned 0' if ok else 'blockin can run on a block whose packet was rejected')
    return n


def r11_5(chk, P):
    chk.rule('R11.5', 'a break in the packet sequence forgets both running counters, an unbroken sequence keeps both: '
             'vorbis_synthesis_blockin is interpreted (K4) in three calling contexts given as constants -- first block '
             '(sequence == -1), gap (block number is not the successor), in sequence -- with marker values in the running '
             'granule position and the running sample count and a block that carries no position.  At every return after a '
             'first block or a gap the granule position is -1 and the sample count holds nothing of the marker (it restarts at 0); '
             'at every return of an in-sequence block both still hold at least their markers')
    import absint
    from absint import V, K
    F = P.need('vorbis_synthesis_blockin')
    MS, MG = 10 ** 6, 10 ** 12
    chk.require(F.params and F.params[0].get('record') == 'vorbis_dsp_state', 'vorbis_synthesis_blockin: first parameter is not the dsp state')
    root = f'v{F.params[0]["id"]}->'
    for recf in (('vorbis_dsp_state', 'sequence'), ('vorbis_block', 'sequence'), ('private_state', 'sample_count'),
                 ('vorbis_dsp_state', 'granulepos'), ('vorbis_block', 'granulepos')):
        P.field(*recf)

    def last(env, suffix, dflt):
        hit = [v for k_, v in env.items() if isinstance(k_, str) and k_.startswith(root) and k_.endswith(suffix) and isinstance(v, V)]
        if not hit:
            return dflt
        out = hit[0]
        for x in hit[1:]:
            out = absint.join(out, x)
        return out
    for ctx, vs, bs in (('first-block', -1, 9), ('gap', 5, 9), ('in-sequence', 5, 6)):
        finv = {('vorbis_dsp_state', 'sequence', False): K(vs), ('vorbis_block', 'sequence', False): K(bs),
                ('private_state', 'sample_count', False): K(MS), ('vorbis_dsp_state', 'granulepos', False): K(MG),
                ('vorbis_block', 'granulepos', False): K(-1), ('vorbis_block', 'eofflag', False): K(0),
                ('codec_setup_info', 'blocksizes', True): V(64, 8192)}
        A = absint.Analyzer(P, F, field_inv=finv)
        A.run()
        rets = [(e, env, v) for (e, env, v) in A.ret_states if v is not None and v.lo <= 0 <= v.hi]
        chk.require(rets, 'vorbis_synthesis_blockin has no success return')
        sc = gp = None
        for (e, env, v) in rets:
            x = last(env, '->sample_count', K(MS))
            y = last(env, '->granulepos', K(MG))
            sc = x if sc is None else absint.join(sc, x)
            gp = y if gp is None else absint.join(gp, y)
        if ctx == 'in-sequence':
            ok_s, ok_g = sc.lo >= MS, gp.lo >= MG
            want = 'kept'
        else:
            ok_s, ok_g = sc.hi < MS and sc.lo >= -1, gp.lo == -1 and gp.hi == -1
            want = 'forgotten'
        chk.ob('R11.5', F.name, f'{ctx}:sample-count-{want}', ok_s, F.where(rets[0][0]),
               f'running sample count {MS} on entry, {sc} at the success returns')
        chk.ob('R11.5', F.name, f'{ctx}:granule-position-{want}', ok_g, F.where(rets[0][0]),
               f'running granule position {MG} on entry (block without a position), {gp} at the success returns')


def run(chk, P):
    E = getattr(P, '_effects', None) or k3.Effects(P)
    P._effects = E
    r11_1(chk, P, E)
    chk.floor('R11.1', 2)
    r11_2(chk, P, E)
    chk.floor('R11.2', 2)
    r11_3(chk, P)
    chk.floor('R11.3', 3)
    r11_4(chk, P)
    chk.floor('R11.4', 2)
    r11_5(chk, P)
    chk.floor('R11.5', 6)
    r11_6(chk, P, E)
    chk.floor('R11.6', 3)
    chk.trusted += ['clang 14 front end', 'K3 effect table for libc/libogg', 'type-based heap classes (one per record pointer field)']
    return ('The effect analysis (K3) computes the transitive write-set of the packet decoder through all backend slots and of '
            'the accumulator functions; path rules check scratch re-initialisation and that rejected packets are skipped. '
            'Decides that there is no hidden persistent state a damaged packet could corrupt; does not decide bit-identity of '
            'the output after a disturbance.')
