"""C10 — decoded audio does not depend on how the bytes are delivered (narrow, DESIGN 4/C10).

Decided, each necessary for one phrase of the statement: R10.1 what _get_data commits to the sync layer is the count the
callback returned, only when positive (= R12.5); R10.2 the caller's length clamps the frame count before anything is
consumed or handed to the filter, and consumed = returned; R10.3 all access modes decode through one path.
Not decided: equality of the PCM across access modes and read schedules (a relation between executions)."""
import absint
import cfg
import k2
import k3
import k8
from absint import V
from facts import AnalysisBroken
from rules import common, c12
from rules.c08 import VF


def r10_2(chk, P):
    chk.rule('R10.2', 'in ov_read_float and ov_read_filter the comparison of the frame count with the caller\'s length is evaluated '
             'on every path before vorbis_synthesis_read and before the filter callback, and the count given to both and to '
             'the position advance is one and the same variable, not reassigned in between')
    sk = k8.Skel(P, 'r')
    for fn in ('ov_read_float', 'ov_read_filter'):
        F = P.need(fn)
        reads = list(F.calls('vorbis_synthesis_read'))
        chk.require(reads, f'{fn} no longer calls vorbis_synthesis_read')
        cnt_expr = F.ex[reads[0]]['c'][1]
        cnt = F.ex[F.strip_casts(cnt_expr)]
        chk.require(cnt['k'] == 'ref', f'{fn}: consumed count is not a plain variable')
        cid = cnt['decl']['id']
        lid = [p['id'] for p in F.params if p['name'] == 'length']
        chk.require(lid, f'{fn} lost its length parameter')

        def clamp(A, env, e):
            nd = A.ex[e]
            if nd['k'] == 'bin' and nd['op'] in ('>', '>=', '<', '<='):
                ids = {A.ex[x]['decl'].get('id') for x in A.F.walk(e) if A.ex[x]['k'] == 'ref' and A.ex[x]['decl']['kind'] in ('var', 'param')}
                return cid in ids and lid[0] in ids
            return False

        def reassigned(A, env, e):
            nd = A.ex[e]
            if nd['k'] == 'assign':
                l = A.ex[A.F.strip_casts(nd['c'][0])]
                # an assignment other than the clamp itself (which is controlled by the clamp comparison)
                if l['k'] == 'ref' and l['decl'].get('id') == cid and 'clamped' in env.get('$flags', frozenset()):
                    conds = common.controlling_conditions(A.F, e)
                    if not any(clamp(A, env, c) for c, _ in conds):
                        return True
            return False
        users = [c for c in F.calls() if F.ex[c]['callee'].get('d') == 'vorbis_synthesis_read' or 'param' in F.ex[c]['callee']]
        A, h = k2.analyse(P, F, [('clamped', clamp, True), ('count-changed', reassigned, True)],
                          watch=lambda A, e: e in users)
        for u in users:
            sets = h.at.get(u, set())
            nm = F.ex[u]['callee'].get('d') or 'filter-callback'
            ok = bool(sets) and all('clamped' in s and 'count-changed' not in s for s in sets)
            uses_cnt = any(F.ex[x]['k'] == 'ref' and F.ex[x]['decl'].get('id') == cid for a in F.ex[u]['c'] for x in F.walk(a))
            chk.ob('R10.2', fn, f'clamp-precedes:{nm}', ok and uses_cnt, F.where(u),
                   f'path histories at the call: {[sorted(s) for s in sets]}; passes the clamped count: {uses_cnt}')


def r10_3(chk, P, E):
    chk.rule('R10.3', 'one decode path: in vorbisfile.c vorbis_synthesis is called only from _fetch_and_process_packet; '
             'vorbis_synthesis_blockin only from there and from the seek\'s track-only loop; none of these calls nor '
             'vorbis_synthesis_pcmout/_read in the read functions is control-dependent on vf->seekable; and vorbisfile.c writes '
             'the decoder state (vd, vb) only through the libvorbis API and the lap splice')
    sk = k8.Skel(P, 'r')
    callers = {}
    for F in P.functions():
        if not F.file.endswith('vorbisfile.c'):
            continue
        for c in F.calls():
            d = F.ex[c]['callee'].get('d')
            if d in ('vorbis_synthesis', 'vorbis_synthesis_blockin', 'vorbis_synthesis_pcmout', 'vorbis_synthesis_read'):
                callers.setdefault(d, set()).add(F.name)
                conds = common.controlling_conditions(F, c)
                dep = [sk.canon(F, cn) for cn, pol in conds if 'seekable' in sk.canon(F, cn)]
                same = sorted(F.calls(d), key=lambda x: F.ex[x]['loc'])
                chk.ob('R10.3', P.key(F), f'{d}#{same.index(c)}:independent-of-seekable', not dep, F.where(c),
                       'not control-dependent on vf->seekable' if not dep else f'controlled by {dep}')
    chk.ob('R10.3', 'vorbisfile.c', 'callers:vorbis_synthesis', callers.get('vorbis_synthesis') == {'_fetch_and_process_packet'},
           'lib/vorbisfile.c', f'called from {sorted(callers.get("vorbis_synthesis", []))}')
    chk.ob('R10.3', 'vorbisfile.c', 'callers:vorbis_synthesis_blockin',
           callers.get('vorbis_synthesis_blockin', set()) <= {'_fetch_and_process_packet', 'ov_pcm_seek'}, 'lib/vorbisfile.c',
           f'called from {sorted(callers.get("vorbis_synthesis_blockin", []))}')
    # direct stores of vorbisfile.c into decoder objects
    bad = []
    for k, S in E.st.items():
        F = S.F
        if not F.file.endswith('vorbisfile.c'):
            continue
        for (o, r, f, e, d) in S.stores:
            if not d:
                continue
            nd = F.ex[e]
            if nd['k'] == 'call':
                continue        # a call into libvorbis/libogg: the API
            if r in ('vorbis_dsp_state', 'vorbis_block', 'private_state') or (o[0] == 'F' and o[1] in ('vorbis_dsp_state', 'vorbis_block')):
                if F.name == '_ov_splice':
                    continue
                bad.append((F, e, r, f))
    chk.ob('R10.3', 'vorbisfile.c', 'no-direct-stores-into-decoder', not bad, bad[0][0].where(bad[0][1]) if bad else 'lib/vorbisfile.c',
           'vorbisfile.c never assigns a decoder field itself' if not bad else f'{bad[0][0].name} stores {bad[0][2]}.{bad[0][3]} directly')


def r10_4(chk, P):
    chk.rule('R10.4', 'each link\'s headers are parsed from that link\'s own stream: in _fetch_headers, whatever ready_state the '
             'handle has on entry (the bisection of a chained file calls it once per link, each time after a successful '
             'previous call), every path to the success return has performed the prospective stream set-up of this call '
             '(ogg_stream_reset_serialno to the page\'s serial number and the store ready_state=STREAMSET), and that store is '
             'reached only when vorbis_synthesis_idheader accepted the packet (K2: K4 values partitioned by the event flag)')
    F = P.need('_fetch_headers')
    setters = [('setup', k2.is_store_field('OggVorbis_File', 'ready_state', 3), True),
               ('reset', k2.is_call('ogg_stream_reset_serialno'), True)]
    A, h = k2.analyse(P, F, setters)
    n = 0
    bad = {}
    for (e, fl, v, env) in k2.ret_value_classes(A):
        if v is None or not (v.lo <= 0 <= v.hi) or 0 in v.ne:
            continue
        n += 1
        if not {'setup', 'reset'} <= fl:
            bad.setdefault(e, set()).add(tuple(sorted(fl)))
    chk.require(n > 0, '_fetch_headers: no success return seen')
    e0 = sorted(bad)[0] if bad else None
    chk.ob('R10.4', F.name, 'success-only-after-stream-setup-in-this-call', not bad, F.where(e0) if e0 else F.where(),
           f'{n} success-return states, all after ogg_stream_reset_serialno and ready_state=STREAMSET in this call' if not bad else
           f'the return on line {F.loc(e0)} reports success on a path that did not set the stream up (events seen: '
           f'{sorted(bad[e0])}): entered with ready_state>=STREAMSET the headers are parsed from the previous link\'s stream state')
    st = [e for e in F.pos if F.ex[e]['k'] == 'assign' and k2.is_store_field('OggVorbis_File', 'ready_state')(A, {}, e)
          and common.const_val(F, F.ex[e]['c'][1]) == 3]
    chk.require(st, '_fetch_headers: store ready_state=STREAMSET not found')
    for i, e in enumerate(sorted(st, key=lambda x: F.ex[x]['loc'])):
        conds = common.controlling_conditions(F, e)

        def has_call(c, name):
            nd = F.ex[c]
            return (nd['k'] == 'call' and nd['callee'].get('d') == name) or any(has_call(x, name) for x in nd.get('c', []))
        ok = any(pol and has_call(c, 'vorbis_synthesis_idheader') for c, pol in conds)
        chk.ob('R10.4', F.name, f'streamset-only-for-a-vorbis-id-header#{i}', ok, F.where(e),
               'the store is control-dependent on vorbis_synthesis_idheader(&op) being true' if ok else
               'ready_state becomes STREAMSET without the packet having been recognised as a vorbis identification header')


def r10_8(chk, P):
    chk.rule('R10.8', 'serial numbers are compared like with like: the link table holds them as sign-extended longs (they come from '
             'ogg_page_serialno / ogg_stream_state.serialno, both signed).  In vorbisfile.c every value compared (==, !=) with an '
             'element of vf->serialnos or with vf->current_serialno, and every value handed to the serial-number lookups, has a '
             'signed integer type before the implicit conversions of the comparison.  An unsigned 32-bit copy is zero-extended: '
             'it never equals the stored value of a serial number with bit 31 set, and a seekable read then skips that link\'s '
             'pages while the streaming decode plays them')
    n = 0

    def is_serial_loc(F, e):
        nd = F.ex[F.strip_casts(e)]
        if nd['k'] == 'member' and nd.get('record') == VF and nd['field'] == 'current_serialno':
            return True
        if nd['k'] == 'sub':
            b = F.ex[F.strip_casts(nd['c'][0])]
            if b['k'] == 'member' and b.get('record') == VF and b['field'] == 'serialnos':
                return True
        return False
    for F in P.functions():
        if not F.file.endswith('vorbisfile.c'):
            continue
        for e in sorted(F.nodes('bin'), key=lambda x: F.ex[x].get('loc') or [0, 0]):
            nd = F.ex[e]
            if nd['op'] not in ('==', '!='):
                continue
            for a, b in ((nd['c'][0], nd['c'][1]), (nd['c'][1], nd['c'][0])):
                if not is_serial_loc(F, a):
                    continue
                on = F.ex[F.strip_casts(b)]
                t = on.get('t', '') or ''
                if on['k'] == 'ref' and on['decl'].get('kind') in ('var', 'param'):
                    t = F.vars.get(on['decl'].get('id'), {}).get('t', '') or next((p_['t'] for p_ in F.params if p_['id'] == on['decl'].get('id')), t)
                bad = 'unsigned' in t or 'uint' in t
                n += 1
                chk.ob('R10.8', F.name, f'serial-compared-as-signed@{F.loc(e)}', not bad, F.where(e),
                       f'`{F.s(e)[:60]}`: the other side has type {t or "?"}' if not bad else
                       f'`{F.s(e)[:60]}`: a {t} is compared with the sign-extended stored serial number: never equal when bit 31 is set')
    return n



def r10_10(chk, P, rule='R10.10'):
    chk.rule(rule, 'the first audio page of a link is delimited by dataoffsets[link], never by the start of the link: a read of '
             'vf->offsets[L] (the byte position of link L\'s first header page) is used only (a) as the upper end offsets[L+1] of '
             'the previous link, (b) in raw byte arithmetic with another element of offsets[]/dataoffsets[], or (c) in a '
             'comparison with a raw position that comes from the caller (a value whose provenance is the function\'s own '
             'parameters); a page position or bisection bound compared with offsets[L] treats the header pages as audio '
             '(or no page as the first), which only a link whose audio fits in one page -- or a seek onto a link\'s first page '
             '-- shows.  Uses are followed through single-assignment locals')
    import prov
    n = 0
    for F in P.functions():
        if not F.file.endswith('vorbisfile.c'):
            continue
        reads = []
        for e in F.nodes('sub'):
            nd = F.ex[e]
            b = F.ex[F.strip_casts(nd['c'][0])]
            if not (b['k'] == 'member' and b.get('record') == VF and b['field'] == 'offsets'):
                continue
            par = F.sparent.get(e)
            c = e
            while par is not None and F.ex[par]['k'] == 'cast':
                c, par = par, F.sparent.get(par)
            if par is not None and F.ex[par]['k'] == 'assign' and F.ex[par]['c'][0] == c:
                continue        # a store into the table
            reads.append(e)
        if not reads:
            continue
        A = prov.Prov(P, F, lambda F_, n_: None, lambda F_, c_: set(), array_fields=('offsets', 'dataoffsets'))

        def is_table_elem(x):
            x = F.strip_casts(x)
            nd = F.ex[x]
            if nd['k'] != 'sub':
                return False
            b = F.ex[F.strip_casts(nd['c'][0])]
            return b['k'] == 'member' and b.get('record') == VF and b['field'] in ('offsets', 'dataoffsets')

        def upper_end(e):
            ix = F.ex[F.strip_casts(F.ex[e]['c'][1])]
            if ix['k'] == 'bin' and ix['op'] == '+':
                return any(F.ex[F.strip_casts(c)]['k'] == 'int' and F.ex[F.strip_casts(c)]['v'] == 1 for c in ix['c'])
            return False

        def elem_of(x):
            while x is not None and x not in F.elem_set:
                x = F.sparent.get(x)
            return x

        def classify(x, depth=0):
            """use context of value node x -> list of (ok, text)"""
            par = F.sparent.get(x)
            c = x
            while par is not None and F.ex[par]['k'] == 'cast':
                c, par = par, F.sparent.get(par)
            if par is None:
                return [(True, 'value unused')]
            pn = F.ex[par]
            if pn['k'] == 'bin' and pn['op'] == '-':
                other = pn['c'][1] if pn['c'][0] == c else pn['c'][0]
                if is_table_elem(other):
                    return [(True, 'raw byte arithmetic with another table element')]
                return [(False, f'`{F.s(par)}`: subtracted from / by a value that is not a table element')]
            if pn['k'] == 'bin' and pn['op'] in ('<', '<=', '>', '>=', '==', '!='):
                other = pn['c'][1] if pn['c'][0] == c else pn['c'][0]
                at = elem_of(par)
                atoms = A.prov_at(other, at) if at is not None else frozenset({('opaque', '?')})
                if atoms and all(a[0] == 'param' for a in atoms):
                    return [(True, f'compared with the caller\'s raw position `{F.s(other)}`')]
                return [(False, f'`{F.s(par)}`: the link start is compared with `{F.s(other)}`, which is not a raw position from the '
                                f'caller ({sorted({a[0] for a in atoms})}) -- a page position is delimited by dataoffsets[]')]
            tgt = None
            if pn['k'] == 'decl':
                for v in pn['vars']:
                    if v.get('init') and F.strip_casts(v['init']) == F.strip_casts(c) and 'id' in v:
                        tgt = v['id']
            elif pn['k'] == 'assign' and pn['op'] == '=' and pn['c'][1] == c:
                l = F.ex[F.strip_casts(pn['c'][0])]
                if l['k'] == 'ref' and l['decl'].get('kind') == 'var':
                    tgt = l['decl']['id']
            if tgt is not None and depth < 2:
                out = []
                for r in F.nodes('ref'):
                    rn = F.ex[r]
                    if rn['decl'].get('id') == tgt and rn['decl'].get('kind') == 'var':
                        rp = F.sparent.get(r)
                        if rp is not None and F.ex[rp]['k'] == 'assign' and F.ex[rp]['c'][0] == r:
                            continue
                        out += classify(r, depth + 1)
                return out or [(True, 'copied into a local that is never read')]
            if pn['k'] in ('ret',):
                return [(True, 'returned as a raw position')]
            return [(False, f'`{F.s(par)[:80]}`: use of the link start that is neither raw arithmetic nor a comparison with the caller\'s position')]

        k = 0
        for e in sorted(reads, key=lambda x: F.loc(x)):
            if upper_end(e):
                n += 1
                chk.ob(rule, F.name, f'offsets-read#{k}', True, F.where(e), f'`{F.s(e)}` is the upper end of the previous link')
                k += 1
                continue
            res = classify(e)
            bad = [t for ok, t in res if not ok]
            n += 1
            chk.ob(rule, F.name, f'offsets-read#{k}', not bad, F.where(e), bad[0] if bad else '; '.join(sorted({t for _, t in res})))
            k += 1
    return n

def r10_11(chk, P, rule='R10.11'):
    chk.rule(rule, 'handing a cleared half-rate request on never fails: vorbis_synthesis_halfrate, interpreted (K4) with flag == 0 and '
             'an info that has its codec set-up, returns 0 on every path and stores 0 in the flag.  The streaming link change of '
             '_fetch_and_process_packet re-applies the request of the previous link to every new link and answers a non-zero '
             'result with OV_EINVAL: a refusal that does not depend on the flag would end an intact chain at the first link '
             'with 64-sample blocks')
    import absint
    from absint import V, K
    F = P.need('vorbis_synthesis_halfrate')
    chk.require(len(F.params) == 2 and F.params[0].get('record') == 'vorbis_info', 'vorbis_synthesis_halfrate signature changed')
    P.field('vorbis_info', 'codec_setup')
    A = absint.Analyzer(P, F, param_init={F.params[1]['name']: K(0)})
    base_init = A.initial_env
    pid = F.params[0]['id']

    def init():
        env = base_init()
        env[f'v{pid}'] = V(nn=True)
        env[f'v{pid}->codec_setup'] = V(nn=True)
        return env
    A.initial_env = init
    A.run()
    chk.require(A.ret_states, 'vorbis_synthesis_halfrate: no return reached')
    def under_null_test(e):
        """the return is reached only when a pointer was found null (the info without a codec set-up)"""
        for c, pol in common.controlling_conditions(F, e):
            cn = F.ex[F.strip_casts(c)]
            if cn['k'] == 'un' and cn['op'] == '!' and F.ex[cn['c'][0]].get('t', '').endswith('*') and pol:
                return True
            if cn.get('t', '').endswith('*') and cn['k'] in ('ref', 'member') and not pol:
                return True
            if cn['k'] == 'bin' and cn['op'] in ('==', '!=') and ((cn['op'] == '==') == pol):
                a, b = cn['c']
                for x, y in ((a, b), (b, a)):
                    if F.ex[F.strip_casts(x)].get('t', '').endswith('*') and common.const_val(F, y) == 0:
                        return True
        return False
    bad = [(e, v) for (e, env, v) in A.ret_states if (v is None or v.const() != 0) and not under_null_test(e)]
    chk.ob(rule, F.name, 'clearing-the-flag-cannot-fail', not bad, F.where(bad[0][0]) if bad else F.where(A.ret_states[0][0]),
           f'{len(A.ret_states)} return state(s) with flag == 0, all 0' if not bad else
           f'`{F.s(bad[0][0])}` is reachable with flag == 0 on an initialised info and yields {bad[0][1]}')
    return 1


def r10_12(chk, P, rule='R10.12'):
    chk.rule(rule, 'the cached stream offset follows the data source: in every function of vorbisfile.c that takes a handle and calls '
             'the seek callback, each such call is followed by a store to vf->offset before the function calls another function '
             'that takes the handle and before it returns anything but a failure code (K2 flag "source moved" per path).  '
             '_seek_helper leaves out the callback when the target equals vf->offset, so an offset that lags behind the source '
             'makes the next positioning a no-op: pages still in the read-ahead buffer are taken for pages at the new place, '
             'and which pages those are depends on how much each read delivered')
    n = 0
    for F in P.functions():
        if not F.file.endswith('vorbisfile.c') or F.entry is None or not F.params or 'OggVorbis_File' not in F.params[0]['t']:
            continue
        seeks = [c for c in F.calls() if 'cb:seek_func' in P.call_targets(F, c)]
        if not seeks:
            continue

        class H(k2.Flags):
            def post_call(self, A, env, e, r):
                if e in seeks:
                    env['$flags'] = env.get('$flags', frozenset()) | {'moved'}
                return None

        def takes_handle(A, e):
            nd = A.ex[e]
            if nd['k'] != 'call' or e in seeks:
                return False
            for t in P.call_targets(A.F, e):
                G = P.fn.get(t)
                if G is not None and G.file.endswith('vorbisfile.c') and G.params and 'OggVorbis_File' in G.params[0]['t']:
                    return True
            return False
        h = H([('moved', k2.stores_field(VF, 'offset', ops=None), False)], watch=takes_handle)
        A = absint.Analyzer(P, F, hooks=h, partition=k2.partition).run()
        bad = []
        for e, sets in sorted(h.at.items()):
            if any('moved' in s_ for s_ in sets):
                bad.append((e, f'`{F.s(e)[:60]}` is called'))
        for (e, env, v) in A.ret_states:
            if 'moved' in env.get('$flags', frozenset()) and (v is None or v.hi >= 0):
                bad.append((e, f'`{F.s(e)[:40]}` (value {v}) is reached'))
        bad.sort(key=lambda x: F.loc(x[0]))
        n += 1
        chk.ob(rule, F.name, f'offset-redefined-after-seek-callback#{len(seeks)}', not bad, F.where(bad[0][0]) if bad else F.where(seeks[0]),
               (f'{bad[0][1]} after the seek callback moved the source and before vf->offset was set again: the handle\'s idea of '
                'the source position is stale') if bad else f'{len(seeks)} seek callback site(s): vf->offset is stored before the handle is used again')
    return n


def run(chk, P):
    E = getattr(P, '_effects', None) or k3.Effects(P)
    P._effects = E

    class Proxy:
        def __init__(self, chk, rid):
            self.chk, self.rid = chk, rid

        def __getattr__(self, a):
            return getattr(self.chk, a)

        def ob(self, rule, *a, **k):
            return self.chk.ob(self.rid, *a, **k)

        def rule(self, rid, text):
            pass

        def require(self, *a):
            return self.chk.require(*a)
    chk.rule('R10.1', 'short reads: the count passed to ogg_sync_wrote in _get_data is the value the read callback returned for '
             'the buffer just obtained, used only when > 0 (same obligations as R12.5)')
    c12.r12_5(Proxy(chk, 'R10.1'), P)
    chk.floor('R10.1', 2)
    r10_2(chk, P)
    chk.floor('R10.2', 2)
    r10_4(chk, P)
    chk.floor('R10.4', 2)
    r10_3(chk, P, E)
    chk.floor('R10.3', 8)
    chk.rule('R10.5', 'seekable mode selects each link\'s pages by the serial number found at open: every value stored into '
             'vf->serialnos[] that derives from the stream state vf->os.serialno sees that link\'s header fetch as the last call '
             'that may have set the serial number (a read after a deeper bisection level sees the last link\'s serial, and a '
             'seekable read then skips the middle links the streaming and packet-level decodes deliver) -- same obligations as '
             'R09.8, restricted to the serialnos table')
    from rules import c09
    c09.r09_8(common.Proxy(chk, 'R10.5', only=lambda fn, cons: cons.startswith('serialnos-')), P, E)
    chk.floor('R10.5', 1)
    from rules import pagestate
    pagestate.page_once(chk, P, E, 'R10.6')
    chk.floor('R10.6', 6)
    from rules import c20
    chk.rule('R10.7', 'streaming and seekable decoding apply the same half-rate setting to every link (same obligations as R20.8)')
    c20.r20_8(common.Proxy(chk, 'R10.7'), P)
    chk.floor('R10.7', 1)
    r10_8(chk, P)
    chk.floor('R10.8', 4)
    r10_12(chk, P)
    chk.floor('R10.12', 2)
    chk.rule('R10.9', 'streaming delivery decodes every link with that link\'s own set-up: per-link tables are not indexed by the link '
             'counter of a streaming handle, which has one table entry while the counter grows (same obligations as R09.11)')
    c09.r09_11(common.Proxy(chk, 'R10.9'), P, rule='R10.9')
    chk.floor('R10.9', 5)
    r10_10(chk, P)
    chk.floor('R10.10', 4)
    r10_11(chk, P)
    chk.floor('R10.11', 1)
    chk.trusted += ['clang 14 front end', 'K3 effect analysis', 'call graph']
    return ('Path and call-graph rules decide the structural conditions under which delivery cannot matter: short reads commit '
            'exactly what arrived, the caller\'s length clamps before anything is consumed or filtered, and every access mode '
            'runs the same per-packet decode calls. Equality of the PCM across read schedules and access modes is a relation '
            'between executions and is not decided.')
