"""C20 — half-rate decoding halves the count and keeps positions truthful (partial, DESIGN 4/C20).

Decided: R20.1 units of measure (stream samples vs decoder-output samples, K7, engine/frames.py); R20.2 refusal precedes
the flag write; R20.3 a refused toggle rolls every link back; R20.4 the decoder dump restores the typestate (K5);
R20.5 the flag is stored before the decoder is rebuilt, and it has one home (codec_setup_info.halfrate_flag).
Not decided: bit-identity with the linear half-rate decode; the ceil(N/2) totals."""
import absint
import cfg
import k2
import k3
import k8
from absint import V
from facts import AnalysisBroken
from rules import common
from rules.c08 import _ordinal, VF


def r20_2(chk, P):
    chk.rule('R20.2', 'in vorbis_synthesis_halfrate the store to halfrate_flag is reached only when the request is to clear the '
             'flag or the short block size is known to exceed 64: a refused request leaves the flag untouched')
    F = P.need('vorbis_synthesis_halfrate')
    flag = F.params[1]
    sites = []

    def obs(A, env, e, v):
        nd = A.ex[e]
        if nd['k'] == 'assign':
            l = A.ex[A.F.strip_casts(nd['c'][0])]
            if l['k'] == 'member' and l['field'] == 'halfrate_flag':
                fv = env.get(f'v{flag["id"]}') or absint.TOP
                bs = None
                for k, x in env.items():
                    if isinstance(k, str) and k.endswith('blocksizes[0]'):
                        bs = x
                sites.append((e, fv, bs))

    def part(A, env):
        fv = env.get(f'v{flag["id"]}')
        return fv is not None and fv.const() == 0
    A = absint.Analyzer(P, F, partition=part)
    A.observers.append(obs)
    A.run()
    chk.require(sites, 'store to halfrate_flag not found in vorbis_synthesis_halfrate')
    for (e, fv, bs) in sites:
        ok = fv.const() == 0 or (bs is not None and bs.lo >= 65)
        chk.ob('R20.2', F.name, 'flag-store-after-refusal-test', ok, F.where(e), f'at the store: flag argument {fv}, blocksizes[0] {bs}')


def _flag_appliers(P, F):
    """calls in F that apply F's flag parameter to the links: direct vorbis_synthesis_halfrate(.., flag) calls, and calls of a
    file-local helper that receives the flag and reaches vorbis_synthesis_halfrate.  -> (calls in F, [(G, set calls in G)])"""
    fparam = F.params[1]['id'] if len(F.params) > 1 else None

    def takes(G, c, pid):
        return any(G.ex[G.strip_casts(x)].get('decl', {}).get('id') == pid for x in G.ex[c].get('c', []))
    direct = [c for c in F.calls('vorbis_synthesis_halfrate') if len(F.ex[c]['c']) > 1 and takes(F, c, fparam)]
    units = [(F, direct)] if direct else []
    calls = list(direct)
    for c in F.calls():
        if F.ex[c]['callee'].get('d') in ('vorbis_synthesis_halfrate', F.name) or not takes(F, c, fparam):
            continue
        for t in P.call_targets(F, c):
            G = P.fn.get(t)
            if G is None or not G.static:
                continue
            # which parameter of G receives the flag
            for i, a in enumerate(F.ex[c]['c']):
                if F.ex[F.strip_casts(a)].get('decl', {}).get('id') == fparam and i < len(G.params):
                    gs = [q for q in G.calls('vorbis_synthesis_halfrate') if len(G.ex[q]['c']) > 1 and takes(G, q, G.params[i]['id'])]
                    if gs:
                        calls.append(c)
                        units.append((G, gs))
    return calls, units


def r20_3(chk, P):
    chk.rule('R20.3', 'in ov_halfrate, when vorbis_synthesis_halfrate refuses a link the function returns a negative code and, if '
             'the request was to set the flag, first resets every link: by calling ov_halfrate(vf,0) (which loops over all '
             'links from 0) or by a loop of vorbis_synthesis_halfrate(vf->vi+k,0) whose index range includes 0; the loop that '
             'applies the flag (in ov_halfrate or in a file-local helper it hands the flag to) covers the links 0..links-1')
    F = P.need('ov_halfrate')
    setcalls, units = _flag_appliers(P, F)
    chk.require(setcalls, 'ov_halfrate no longer applies its flag through vorbis_synthesis_halfrate')
    allcalls = list(F.calls('vorbis_synthesis_halfrate'))
    rb_rec = [c for c in F.calls('ov_halfrate') if common.const_val(F, F.ex[c]['c'][1]) == 0]
    rb_loop = [c for c in allcalls if common.const_val(F, F.ex[c]['c'][1]) == 0]
    refusal_rets = []
    for n in F.pos:
        if F.ex[n]['k'] != 'ret':
            continue
        for (c, pol) in common.controlling_conditions(F, n):
            if pol and any(x in setcalls for x in F.walk(c)):
                refusal_rets.append(n)
    chk.require(refusal_rets, 'no return under the refusal test found in ov_halfrate')
    for r in refusal_rets:
        v = common.const_val(F, F.ex[r]['c'][0])
        chk.ob('R20.3', F.name, f'refusal-return@{_ordinal(F, r)}', v is not None and v < 0, F.where(r), f'returns {v}')
    ok = False
    msg = 'no roll-back found on the refusal path'
    if rb_rec:
        c = rb_rec[0]
        conds = common.controlling_conditions(F, c)
        under = any(pol and any(x in setcalls for x in F.walk(cc)) for cc, pol in conds)
        ok = under
        msg = 'ov_halfrate(vf,0) is called under the refusal test' if ok else 'ov_halfrate(vf,0) is not on the refusal path'
    elif rb_loop:
        A = absint.Analyzer(P, F)
        idx = []

        def obs(A_, env, e, v):
            if e in rb_loop:
                a0 = A_.F.strip_casts(A_.ex[e]['c'][0])
                nd = A_.ex[a0]
                if nd['k'] == 'bin' and nd['op'] == '+':
                    idx.append(A_.peek(env, nd['c'][1]))
                else:
                    idx.append(absint.K(0))
        A.observers.append(obs)
        A.run()
        j = None
        for x in idx:
            j = absint.join(j, x)
        ok = j is not None and j.lo == 0
        msg = f'roll-back loop resets links with index {j}' + ('' if ok else ': link 0 is not reset')
    chk.ob('R20.3', F.name, 'roll-back-covers-all-links', ok, F.where(refusal_rets[0]), msg)
    # the set loop itself covers 0..links-1 (in ov_halfrate or in the helper that holds it)
    for (G, gs) in units:
        A = absint.Analyzer(P, G)
        idx = []

        def obs2(A_, env, e, v, gs=gs):
            if e in gs:
                a0 = A_.F.strip_casts(A_.ex[e]['c'][0])
                nd = A_.ex[a0]
                if nd['k'] == 'bin' and nd['op'] == '+':
                    idx.append(A_.peek(env, nd['c'][1]))
        A.observers.append(obs2)
        A.run()
        j = None
        for x in idx:
            j = absint.join(j, x)
        ok = j is not None and j.lo == 0 and f'{VF}.links' in j.lt
        chk.ob('R20.3', G.name, 'set-loop-covers-all-links', ok, G.where(gs[0]), f'link index {j}')


def r20_5(chk, P, E):
    chk.rule('R20.5', 'in ov_halfrate no call that can (re)build the decoder (reaches vorbis_synthesis_init in the call graph) can '
             'be followed by a store of the half-rate flag: the decoder sizes its MDCT/window lookups from the flag at '
             'initialisation, so the flag is set first. The flag has one home: only vorbis_synthesis_halfrate stores '
             'codec_setup_info.halfrate_flag (besides the zeroing of a fresh set-up), and _vds_shared_init reads only it.')
    F = P.need('ov_halfrate')
    init = P.key(P.need('vorbis_synthesis_init'))
    builders = [c for c in F.calls() if any(t in P.fn and init in P.reachable([t]) for t in P.call_targets(F, c))
                and F.ex[c]['callee'].get('d') != 'ov_halfrate']
    setters = [c for c in F.calls('vorbis_synthesis_halfrate')] + [c for c in _flag_appliers(P, F)[0] if c not in builders]
    builders = [c for c in builders if c not in setters]
    bad = None
    for b in builders:
        p = cfg.search(F, F.pos[b], lambda n: n in setters, lambda n: False)
        if p is not None:
            bad = (b, p)
            break
    chk.ob('R20.5', F.name, 'flag-before-decoder-rebuild', bad is None, F.where(bad[0]) if bad else F.where(),
           f'{len(builders)} decoder-building calls, none followed by a flag store' if bad is None else
           f'`{F.s(bad[0])[:50]}` rebuilds the decoder and the flag is stored afterwards: the rebuilt decoder uses the old rate',
           path=cfg.block_lines(F, bad[1]) if bad else None)
    # single home of the flag
    writers = set()
    for k, S in E.st.items():
        for (o, r, f, e, d) in S.stores:
            if d and r == 'codec_setup_info' and f == 'halfrate_flag':
                writers.add(k)
    chk.ob('R20.5', 'codec_setup_info.halfrate_flag', 'single-writer', writers == {'vorbis_synthesis_halfrate'}, 'lib/synthesis.c',
           f'direct writers of halfrate_flag: {sorted(writers)}')
    other = [f for r in P.records.values() for f in r['fields'] if 'halfrate' in f['name'] and r['name'] != 'codec_setup_info']
    chk.ob('R20.5', 'records', 'no-second-copy-of-flag', not other, 'lib/codec_internal.h', f'other fields named *halfrate*: {[f["name"] for f in other]}')


def r20_8(chk, P, rule='R20.8'):
    chk.rule(rule, 'the half-rate request survives a change of link while streaming: in every function of vorbisfile.c that discards '
             'the handle\'s info (vorbis_info_clear on vf->vi) and can go on to build a decoder, no call of _make_decode_ready is '
             'reachable on a path on which the info was discarded and vorbis_synthesis_halfrate has not been applied to the new '
             'info since (K2 flags); and the flag value handed to that call derives only from vorbis_synthesis_halfrate_p read '
             'before the discard (reaching definitions).  The request is stored in the info; a fresh info decodes at full rate')
    import absint
    import k2
    import prov
    n = 0

    def on_handle_info(F, a):
        nd = F.ex[F.strip_casts(a)]
        while nd['k'] == 'bin' and nd['op'] == '+':
            nd = F.ex[F.strip_casts(nd['c'][0])]
        return nd['k'] == 'member' and nd.get('record') == 'OggVorbis_File' and nd['field'] == 'vi'
    for F in P.functions():
        if not F.file.endswith('vorbisfile.c'):
            continue
        clears = [c for c in F.calls('vorbis_info_clear') if F.ex[c]['c'] and on_handle_info(F, F.ex[c]['c'][0])]
        ready = list(F.calls('_make_decode_ready'))
        if not clears or not ready:
            continue
        reads = [c for c in F.calls('vorbis_synthesis_halfrate_p') if F.ex[c]['c'] and on_handle_info(F, F.ex[c]['c'][0])]

        class H(k2.Flags):
            def on_node(self, A, env, e, v):
                fl = env.get('$flags', frozenset())
                nd = A.ex[e]
                if nd['k'] == 'call':
                    if (e in ready or e in reads) and A.final:
                        self.at.setdefault(e, set()).add(fl)
                    if e in clears:
                        fl = fl | {'lost'}
                    elif nd['callee'].get('d') == 'vorbis_synthesis_halfrate' and nd['c'] and on_handle_info(F, nd['c'][0]):
                        fl = fl - {'lost'}
                env['$flags'] = fl
        h = H([])
        A = absint.Analyzer(P, F, hooks=h, partition=k2.partition)
        A.run()
        for e in sorted(ready, key=lambda x: F.ex[x]['loc']):
            sets = h.at.get(e, set())
            bad = [fl for fl in sets if 'lost' in fl]
            n += 1
            chk.ob(rule, F.name, f'decoder-built-from-info-with-the-request@{F.loc(e)}', not bad, F.where(e),
                   f'on all {len(sets)} path classes the info in use still carries the half-rate request or received it again' if not bad else
                   f'_make_decode_ready is reachable after vorbis_info_clear(vf->vi) (line {F.loc(clears[0])}) without '
                   'vorbis_synthesis_halfrate on the new info: after a link boundary in streaming mode the next link decodes at full rate')
        for e in sorted(reads, key=lambda x: F.ex[x]['loc']):
            sets = h.at.get(e, set())
            bad = [fl for fl in sets if 'lost' in fl]
            n += 1
            chk.ob(rule, F.name, f'request-read-before-the-discard#{sorted(reads, key=lambda x: F.ex[x]["loc"]).index(e)}', not bad, F.where(e),
                   'the request is read from an info that has not been discarded' if not bad else
                   f'`{F.s(e)}` is reachable after vorbis_info_clear(vf->vi) (line {F.loc(clears[0])}) and before the request was applied '
                   'again: a cleared info answers 0, so what is handed on to the next link is "full rate" whatever was requested')
        restores = [c for c in F.calls('vorbis_synthesis_halfrate') if F.ex[c]['c'] and on_handle_info(F, F.ex[c]['c'][0])]
        if restores:
            pr = prov.Prov(P, F, lambda F_, n_: None, lambda F_, c_: set())
            for c in restores:
                atoms = pr.prov_at(F.ex[c]['c'][1], c)
                ok = atoms == frozenset({('ret', 'vorbis_synthesis_halfrate_p')})
                n += 1
                chk.ob(rule, F.name, f'restored-value-is-the-saved-request@{F.loc(c)}', ok, F.where(c),
                       'the flag argument derives only from vorbis_synthesis_halfrate_p (or the constant initialiser)' if ok else
                       f'the flag argument derives from {sorted(map(str, atoms))}, not (only) from the request read with vorbis_synthesis_halfrate_p')
    return n


def r20_9(chk, P):
    chk.rule('R20.9', 'ov_halfrate reports success only after every link was given the flag: each literal success return of ov_halfrate '
             'lies behind the completed loop that applies vorbis_synthesis_halfrate(vf->vi+i, flag) to every link (the loop header '
             'dominates the return, the return is outside the loop, and no other exit of the loop can reach it).  The roll-back of '
             'a refused request is the recursive call ov_halfrate(vf,0): a shortcut that returns before the loop -- say, because the '
             'current link already has the requested setting -- leaves the links switched so far at half rate')
    F = P.need('ov_halfrate')
    fparam = F.params[1]['id'] if len(F.params) > 1 else None
    setcalls = [c for c in F.calls('vorbis_synthesis_halfrate')
                if len(F.ex[c]['c']) > 1 and F.ex[F.strip_casts(F.ex[c]['c'][1])].get('decl', {}).get('id') == fparam]
    loops = cfg.loops(F)
    hs = [h for h, body in loops.items() if any(F.pos[c][0] in body for c in setcalls)]
    if not hs:
        # the loop may live in a file-local helper that receives the flag: then the call is the unit that must be passed
        helpers = []
        for c in F.calls():
            a = F.ex[c].get('c', [])
            if not any(F.ex[F.strip_casts(x)].get('decl', {}).get('id') == fparam for x in a):
                continue
            for t in P.call_targets(F, c):
                G = P.fn.get(t)
                if G is not None and G.static and any(P.fn.get(k_) is not None and list(P.fn[k_].calls('vorbis_synthesis_halfrate'))
                                                      for k_ in P.reachable([t])):
                    helpers.append(c)
        chk.require(helpers, 'ov_halfrate: neither a loop nor a helper applies the flag to the links')
        dom = cfg.dominators(F)
        succ_rets = [r for r in cfg.returns(F) if F.ex[r].get('c') and common.const_val(F, F.ex[r]['c'][0]) == 0]
        chk.require(succ_rets, 'ov_halfrate: no literal success return')
        for i, r in enumerate(sorted(succ_rets, key=lambda x: F.ex[x]['loc'])):
            ok = any(cfg.pos_dominates(F, c, r) for c in helpers)
            chk.ob('R20.9', F.name, f'success-only-after-all-links#{i}', ok, F.where(r),
                   f'`{F.s(r)}` is behind the call that applies the flag to the links' if ok else
                   f'`{F.s(r)}` is reachable without the call that applies the flag to the links')
        return len(succ_rets)
    h = min(hs, key=lambda x: len(loops[x]))
    body = loops[h]
    # the loop covers all links: bound is vf->links and the induction variable starts at 0 (checked by R20.3/R09.1 already); here: exits
    dom = cfg.dominators(F)
    succ_rets = [r for r in cfg.returns(F) if F.ex[r].get('c') and common.const_val(F, F.ex[r]['c'][0]) == 0]
    chk.require(succ_rets, 'ov_halfrate: no literal success return')

    def reach(b0, target):
        seen, st = set(), [b0]
        while st:
            b = st.pop()
            if b == target:
                return True
            if b in seen:
                continue
            seen.add(b)
            st += [s_ for s_ in F.blocks[b]['succs'] if s_ is not None]
        return False
    for i, r in enumerate(sorted(succ_rets, key=lambda x: F.ex[x]['loc'])):
        rb = F.pos[r][0]
        ok = h in dom.get(rb, ()) and rb not in body
        why = 'behind the completed all-links loop'
        if not ok:
            why = 'reachable without passing the loop that applies the flag to every link'
        else:
            for b in body:
                for s_ in F.blocks[b]['succs']:
                    if s_ is not None and s_ not in body and b != h and reach(s_, rb):
                        ok = False
                        why = f'reachable from an exit of the loop other than its completion (line {F.loc(F.blocks[b]["elems"][-1]) if F.blocks[b]["elems"] else "?"})'
        chk.ob('R20.9', F.name, f'success-only-after-all-links#{i}', ok, F.where(r), f'`{F.s(r)}` is {why}')
    return len(succ_rets)


def r20_10(chk, P):
    chk.rule('R20.10', 'a refused half-rate request has not touched the decoder: the returns of ov_halfrate that report the refusal of a '
             'link (negative constant, control-dependent on the result of the call that applies the flag) are reached only on paths '
             'on which the decode machine has not been dumped -- no vorbis_dsp_clear / vorbis_block_clear on the handle and no '
             'store to ready_state or pcm_offset (K2 path flags).  The roll-back only resets the flags; a decoder dumped before the '
             'refusal is never rebuilt at the old position, so the audio after the refused call no longer matches the position')
    F = P.need('ov_halfrate')
    setcalls, units = _flag_appliers(P, F)
    chk.require(setcalls, 'ov_halfrate no longer applies its flag through vorbis_synthesis_halfrate')
    dump = k2.any_of(k2.is_call_any(['vorbis_dsp_clear', 'vorbis_block_clear', '_decode_clear']),
                     k2.stores_field(VF, 'ready_state', ops=None), k2.stores_field(VF, 'pcm_offset', ops=None))
    A, h = k2.analyse(P, F, [('dumped', dump, True)])
    refusal = set()
    for n_ in F.pos:
        if F.ex[n_]['k'] != 'ret':
            continue
        for (c, pol) in common.controlling_conditions(F, n_):
            if pol and any(x in setcalls for x in F.walk(c)):
                refusal.add(n_)
    chk.require(refusal, 'no return under the refusal test found in ov_halfrate')
    per = {}
    for (e, fl, v, env) in k2.ret_value_classes(A):
        if e in refusal:
            per[e] = per.get(e, False) or ('dumped' in fl)
    for i, e in enumerate(sorted(per, key=lambda x: F.ex[x]['loc'])):
        chk.ob('R20.10', F.name, f'refusal-leaves-the-decoder-alone#{i}', not per[e], F.where(e),
               'no decoder dump on any path to this refusal' if not per[e] else
               'the decode machine is dumped (or the position / state stored) on a path to this refusal: the handle is left without a '
               'decoder in the middle of a page and is not re-seeked')
    return len(per)



def r20_11(chk, P):
    chk.rule('R20.11', 'the toggle restores a position the seek accepts: at half rate the position advances two samples per sample '
             'returned, so after the last sample of a link of odd length it stands one past the total.  Wherever vorbisfile.c '
             're-seeks to a position it read back from the handle (an argument of ov_pcm_seek / ov_pcm_seek_page that derives from '
             'vf->pcm_offset and not from a parameter), that value is bounded above by ov_pcm_total(vf,-1) at the call (K4 '
             'symbolic upper bound against the local that holds the total) -- otherwise the range check of the seek turns '
             'ov_halfrate at the end of an odd-length stream into OV_EINVAL with the position lost')
    import absint
    from rules import common
    n = 0
    helper_sites = []
    work = [(F, None) for F in P.functions() if F.file.endswith('vorbisfile.c') and F.entry is not None]
    done_helpers = set()
    wi = 0
    while wi < len(work):
        F, forced = work[wi]
        wi += 1
        sites = []
        defs = common.single_defs(F)
        if forced is not None:
            sites = [(forced[0], F.strip_casts(F.ex[forced[0]]['c'][1]))]
        for c in ([] if forced is not None else F.calls()):
            helper_arg = None
            if F.ex[c]['callee'].get('d') not in ('ov_pcm_seek', 'ov_pcm_seek_page'):
                # a file-local helper that hands one of its parameters on to the seek (one level)
                G = P.get(F.ex[c]['callee'].get('d') or '', F)
                if G is None or not G.static or G.entry is None or not G.file.endswith('vorbisfile.c'):
                    continue
                for c2 in G.calls():
                    if G.ex[c2]['callee'].get('d') in ('ov_pcm_seek', 'ov_pcm_seek_page') and len(G.ex[c2]['c']) > 1:
                        a2 = G.ex[G.strip_casts(G.ex[c2]['c'][1])]
                        if a2['k'] == 'ref' and a2['decl'].get('kind') == 'param':
                            j = [i_ for i_, p_ in enumerate(G.params) if p_['id'] == a2['decl']['id']]
                            if j and j[0] < len(F.ex[c]['c']):
                                helper_arg = (G, c2, j[0])
                if helper_arg is None:
                    continue
            if len(F.ex[c]['c']) < 2:
                continue
            a = F.strip_casts(F.ex[c]['c'][helper_arg[2] if helper_arg else 1])
            an = F.ex[a]
            if an['k'] != 'ref' or an['decl'].get('kind') != 'var':
                continue
            # every definition of the local: does one read the handle's position?
            from_handle = False
            for q in F.pos:
                qn = F.ex[q]
                rhs = None
                if qn['k'] == 'decl':
                    for v in qn['vars']:
                        if v.get('id') == an['decl']['id'] and v.get('init'):
                            rhs = v['init']
                elif qn['k'] == 'assign' and qn['op'] == '=':
                    l = F.ex[F.strip_casts(qn['c'][0])]
                    if l['k'] == 'ref' and l['decl'].get('id') == an['decl']['id']:
                        rhs = qn['c'][1]
                if rhs is not None:
                    r = F.ex[F.strip_casts(rhs)]
                    if r['k'] == 'member' and r.get('record') == VF and r['field'] == 'pcm_offset':
                        from_handle = True
            if from_handle and helper_arg is not None:
                helper_sites.append(helper_arg)
            elif from_handle:
                sites.append((c, a))
        for (G, c2, j) in helper_sites:
            if (G.name, c2) not in done_helpers:
                done_helpers.add((G.name, c2))
                work.append((G, (c2, j)))
        helper_sites = []
        if not sites:
            continue
        totals = set()
        for v, d in defs.items():
            dn = F.ex[F.strip_casts(d)]
            if dn['k'] == 'call' and dn['callee'].get('d') == 'ov_pcm_total' and len(dn['c']) > 1 and common.const_val(F, dn['c'][1]) == -1:
                totals.add(f'v{v}')
        A = absint.Analyzer(P, F)
        seen = {}

        def obs(A_, env, e, v, seen=seen):
            for c, a in sites:
                if e == c:
                    av = A_.peek(env, a)
                    seen[c] = absint.join(seen.get(c), av)
        A.observers.append(obs)
        A.run()
        for c, a in sites:
            av = seen.get(c)
            ok = av is not None and bool((set(av.le) | set(av.lt)) & totals)
            n += 1
            chk.ob('R20.11', F.name, f'restored-position-within-total:{F.ex[c]["callee"]["d"]}', ok, F.where(c),
                   f'`{F.s(c)}`: the position read back from vf->pcm_offset is {av}' +
                   (f', bounded by the total ({sorted(totals)})' if ok else
                    ' -- not bounded by ov_pcm_total(vf,-1): one past the total after an odd-length link was played at half rate, and '
                    'the seek refuses it'))
    return n

def r20_12(chk, P, rule='R20.12'):
    chk.rule(rule, 'a half-rate request reaches every link: ov_halfrate stores the flag in the vf->links infos the handle has at that '
             'moment.  Where it can answer 0 on a partially open handle (ready_state == PARTOPEN: K4 with that constant; the link '
             'table then holds the first link only), the function that completes the table -- the one file-local function that '
             'moves the handle from PARTOPEN to OPENED -- re-applies the request: each of its returns that may be 0 and lies behind a '
             'call from which a store to vf->links is reachable has passed a call of vorbis_synthesis_halfrate (K2).  Otherwise '
             'ov_test_callbacks, ov_halfrate(vf,1), ov_test_open on a chained file leaves every link but the first at full rate '
             'while positions advance by two')
    import absint
    import k2
    from absint import V, K
    H = P.need('ov_halfrate')
    A = absint.Analyzer(P, H)
    base = A.initial_env
    pid = H.params[0]['id']

    def init():
        env = base()
        env[f'v{pid}'] = V(nn=True)
        env[f'v{pid}->ready_state'] = K(1)
        env[f'v{pid}->vi'] = V(nn=True)
        return env
    A.initial_env = init
    A.run()
    chk.require(A.ret_states, 'ov_halfrate: no return reached on a partially open handle')
    accepts = [(e, v) for (e, env, v) in A.ret_states if v is None or (v.lo <= 0 <= v.hi and 0 not in (v.ne or ()))]
    if not accepts:
        chk.ob(rule, H.name, 'request-reaches-every-link', True, H.where(), 'ov_halfrate refuses a partially open handle')
        return 1
    # the function that completes the link table
    comp = []
    for F in P.functions():
        if not F.file.endswith('vorbisfile.c') or F.entry is None or F.name in P.public_api():
            continue
        st = [n for n in F.nodes('assign') if F.ex[n]['op'] == '=' and F.ex[F.strip_casts(F.ex[n]['c'][0])].get('field') == 'ready_state'
              and F.ex[F.strip_casts(F.ex[n]['c'][0])].get('record') == 'OggVorbis_File' and common.const_val(F, F.ex[n]['c'][1]) == 2]
        rd = any(F.ex[q]['k'] == 'member' and F.ex[q].get('field') == 'ready_state' for c, pol in
                 [cp for n in st for cp in common.controlling_conditions(F, n)] for q in F.walk(c)) or st
        if st and rd:
            comp.append(F)
    chk.require(len(comp) >= 1, 'no file-local function moves the handle from PARTOPEN to OPENED')
    lw = {}

    def writes_links(A_, env, e):
        nd = A_.ex[e]
        if nd['k'] != 'call':
            return False
        for t in P.call_targets(A_.F, e):
            if t not in lw:
                lw[t] = False
                for k_ in [t] + sorted(P.reachable([t])) if t in P.fn else []:
                    G = P.fn.get(k_)
                    if G is None:
                        continue
                    for n in G.nodes('assign'):
                        l = G.ex[G.strip_casts(G.ex[n]['c'][0])]
                        if l['k'] == 'member' and l.get('record') == 'OggVorbis_File' and l['field'] == 'links' and \
                                common.const_val(G, G.ex[n]['c'][1]) is None:
                            lw[t] = True
            if lw[t]:
                return True
        return False
    n = 0
    for F in comp:
        isap = k2.is_call('vorbis_synthesis_halfrate')
        A2, h = k2.analyse(P, F, [('grown', writes_links, True)], watch=lambda A_, e_: isap(A_, None, e_))
        rets = [(e, fl, v) for (e, fl, v, env) in k2.ret_value_classes(A2) if 'grown' in fl and (v is None or (v.lo <= 0 <= v.hi and 0 not in (v.ne or ())))]
        if not rets:
            continue
        # some call of vorbis_synthesis_halfrate is reached after the table has grown (how many links it then covers is a
        # loop over run-time counts and not decided here)
        after = [c for c, fls in h.at.items() if any('grown' in fl for fl in fls)]
        ok = bool(after)
        chk.ob(rule, F.name, 'request-reaches-every-link', ok, F.where(after[0]) if ok else F.where(rets[0][0]),
               f'ov_halfrate accepts a partially open handle; {F.name} applies the request again after the link table has grown' if ok else
               f'ov_halfrate answers 0 on a partially open handle (one link in the table) and {F.name} reports success after the link '
               'table has grown without any call of vorbis_synthesis_halfrate behind that point: the links found by the open stay '
               'at full rate')
        n += 1
        # a refusal met while re-applying takes the request back from every link, the first included (it got its flag from
        # ov_halfrate on the partially open handle, not from this function)
        allc = list(F.calls('vorbis_synthesis_halfrate'))
        resets = [c for c in allc if len(F.ex[c].get('c', [])) > 1 and common.const_val(F, F.ex[c]['c'][1]) == 0]
        sets = [c for c in allc if c not in resets]
        tested = [c for c in sets if any(c in set(F.walk(t['cond'])) for b, blk in F.blocks.items()
                                        for t in [blk.get('term')] if t and t.get('cond') is not None)]
        if tested:
            idx = []
            A3 = absint.Analyzer(P, F)

            def obs3(A_, env, e, v):
                if e in resets:
                    a0 = A_.F.strip_casts(A_.ex[e]['c'][0])
                    nd = A_.ex[a0]
                    if nd['k'] == 'bin' and nd['op'] == '+':
                        idx.append(A_.peek(env, nd['c'][1]))
                    else:
                        idx.append(K(0))
            A3.observers.append(obs3)
            A3.run()
            j = None
            for x in idx:
                j = absint.join(j, x)
            ok2 = j is not None and j.lo == 0
            chk.ob(rule, F.name, 'refused-request-taken-back-from-every-link', ok2, F.where(resets[0]) if resets else F.where(tested[0]),
                   (f'the reset calls cover link index {j}' if j is not None else 'a refusal while re-applying the request is tested but no link is reset') +
                   ('' if ok2 else ': link 0, which got its flag from ov_halfrate on the partially open handle, keeps it -- one link at half '
                    'rate, the others at full rate, positions advance by two throughout'))
            n += 1
    chk.require(n >= 1, 'the function that completes the link table was not identified')
    return n


def run(chk, P):
    E = getattr(P, '_effects', None) or k3.Effects(P)
    P._effects = E
    r20_2(chk, P)
    chk.floor('R20.2', 1)
    r20_3(chk, P)
    chk.floor('R20.3', 3)
    r20_5(chk, P, E)
    chk.floor('R20.5', 3)
    r20_12(chk, P)
    chk.floor('R20.12', 2)
    import frames
    frames.c20(chk, P)
    import typestate
    typestate.c20(chk, P)
    chk.rule('R20.7', 'the sample-discard loop of a sample-accurate seek makes progress at half rate too: the remaining distance '
             'in output samples is at least one whenever the body runs, also in links that start on an odd sample (same '
             'obligations as R08.8)')
    from rules import c08
    c08.r08_8(common.Proxy(chk, 'R20.7'), P)
    chk.floor('R20.7', 1)
    r20_8(chk, P)
    chk.floor('R20.8', 1)
    r20_9(chk, P)
    chk.floor('R20.9', 1)
    r20_10(chk, P)
    chk.floor('R20.10', 1)
    r20_11(chk, P)
    chk.floor('R20.11', 1)
    chk.trusted += ['clang 14 front end', 'call graph', 'K4 intervals with symbolic bounds']
    return ('Units-of-measure typing separates stream samples from decoder-output samples and requires the half-rate shift at '
            'every crossing; path and order rules decide that a refused toggle changes nothing, rolls back all links, and that '
            'the flag is in place before the decoder is rebuilt. Does not decide bit-identity with a linear half-rate decode.')
