"""C02 — packet-level decoder is memory-safe and terminates on arbitrary input (partial, DESIGN 4/C02).

Decided (K4 cross-function value-range analysis, engine/k4dec.py, plus K1/K2 rules):
  R02.1 every stream-derived set-up field is range-validated: what the header unpackers guarantee on their success
        returns lies within the range its consumers need;
  R02.2 under those guarantees (and the decoder-state invariants derived the same way) every fixed-extent subscript,
        integer divisor, allocation and alloca size in the decode call graph is in range / non-zero / bounded, or is a
        listed assumption with its reason;
  R02.3 listed semantic guards (the shapes of the historical CVEs) are present;
  R02.4 no process-terminating function is reachable from the decode API;
  R02.5 every failure exit of a header unpacker passes through the matching clear/free.
Not decided: heap-buffer arithmetic of the residue/floor/MDCT DSP in general, loop termination, time budget."""
import absint
import cfg
import k2
import k4dec
import k8
from absint import V, INF
from facts import AnalysisBroken
from rules import common
from rules import c02_tables as T


def mkname(mk):
    return f'{mk[0]}.{mk[1]}' + ('[*]' if mk[2] else '')


# ---------------------------------------------------------------------------------------------------------
def r02_1(chk, P, D):
    chk.rule('R02.1', 'for every stream-derived set-up field, the value range (interval + symbolic upper bound) that the header '
             'unpackers guarantee on their success returns -- computed by abstract interpretation of the unpackers on the '
             'current source, joined over all success paths -- lies within the range its consumers require (table '
             'c02_tables.REQUIRED, one consumer-derived reason per line); the fields are written by no decode-side function '
             'other than the unpackers and the clear functions')
    for mk, (lo, hi, sym, why) in sorted(T.REQUIRED.items()):
        P.field(mk[0], mk[1])           # anchor: the field must exist
        v = D.inv_ok.get(mk)
        name = mkname(mk)
        if v is None:
            chk.ob('R02.1', 'unpack', name, False, f'{mk[0]}', f'no unpacker establishes a range for {name} (required [{lo},{hi}]: {why})')
            continue
        ok = v.lo >= lo and v.hi <= hi
        if sym and ok:
            ok = sym in v.lt or (v.hi < (D.inv_ok.get((sym.split('.')[0], sym.split('.')[1], False)) or V()).lo)
        where = T.WHERE.get(mk[0], 'lib')
        chk.ob('R02.1', T.UNPACKER_OF.get(mk[0], 'unpack'), name, ok, where,
               f'guaranteed {v}; required [{lo},{hi}]' + (f' and < {sym}' if sym else '') + f' ({why})')
    # side condition: who stores to the set-up fields
    allowed = set(D.unp) | set(D.ungated_list)
    bad = {}
    for k, c in D.ctx.items():
        if not c.seen:
            continue
        F = P.fn[k]
        for (rec, fld) in D.stored_fields(F):
            if rec in T.IMMUTABLE_AFTER_UNPACK and k not in allowed and (rec, fld) not in T.WRITABLE_LATER:
                bad.setdefault(k, []).append(f'{rec}.{fld}')
    for k in sorted(set(bad) | {'-'}):
        if k == '-':
            chk.ob('R02.1', 'decode-call-graph', 'set-up-fields-written-only-by-unpackers', not bad, 'lib',
                   f'{sum(1 for c in D.ctx.values() if c.seen)} functions scanned; records {sorted(T.IMMUTABLE_AFTER_UNPACK)}')
        else:
            chk.ob('R02.1', k, 'writes-set-up-field', False, P.fn[k].where(), f'stores to {sorted(set(bad[k]))}: the unpackers\' range '
                   'guarantees do not cover a later writer')


# ---------------------------------------------------------------------------------------------------------
def site_key(P, F, s, sk, seen):
    """stable name of an R02.2 site.  Proven sites are numbered per anchor; the anchor alone (function + accessed object /
    divisor / allocation size, locals expanded by their definitions) is what the assumption table names, so that an edit
    elsewhere in the expression or a new site in the function does not orphan an assumption"""
    e = s['e']
    nd = F.ex[e]
    if s['kind'] == 'sub':
        anchor = 'sub:' + sk.canon(F, F.strip_casts(nd['c'][0]))
    elif s['kind'] == 'div':
        anchor = 'div:' + common.canon_x(F, nd['c'][1], sk, depth=2)
    else:
        anchor = f'{s["kind"]}:' + common.canon_x(F, e, sk, depth=2)
    n = seen.get(anchor, 0)
    seen[anchor] = n + 1
    return anchor, (anchor if n == 0 else f'{anchor}#{n}')


def r02_2(chk, P, D):
    chk.rule('R02.2', 'in every function the abstract execution of the decode API reaches, under the set-up and decoder-state '
             'invariants: the index of every fixed-extent array subscript lies within the extent; no integer divisor can be '
             'zero; every heap allocation size is non-negative and bounded; every alloca is at most '
             f'{k4dec.ALLOCA_BUDGET} bytes.  A site the interval/symbolic domain cannot prove is accepted only as a listed '
             'assumption with its reason (reported as assumed, never silently)')
    sk = k8.Skel(P, 'r')
    used = set()
    nfn = 0
    for k in sorted(D.results):
        R = D.results[k]
        if R.unreached or not D.ctx[k].seen:
            continue
        nfn += 1
        F = P.fn[k]
        seen = {}
        for s in sorted(R.sites, key=lambda s: (F.ex[s['e']].get('loc') or [0, 0], s['e'])):
            anchor, cons = site_key(P, F, s, sk, seen)
            if s['ok']:
                chk.ob('R02.2', k, cons, True, s['where'], s['bound'])
                continue
            a = T.ASSUME.get((k, anchor))
            if a is None and s.get('strlen'):
                # class assumption, decided by provenance rather than by function name: the size is built from strlen()
                # of C strings only (through +, -, * with constants), in this function or its callers
                a = T.STRLEN_SIZES
            if a is not None:
                used.add((k, anchor))
                chk.assumed('R02.2', k, cons, s['where'], f'{s["bound"]}; {a}')
            else:
                chk.ob('R02.2', k, cons, False, s['where'], f'{s["text"][:100]}: {s["bound"]} -- not provable and not a listed assumption')
    stale = sorted(set(T.ASSUME) - used)
    chk.notes.append(f'R02.2: {nfn} functions analysed in {D.rounds} rounds ({D.wall:.1f}s); invariants stable: {getattr(D, "stable", None)}; '
                     f'assumption entries unused on this tree: {stale}')
    return nfn


# ---------------------------------------------------------------------------------------------------------
def r02_4(chk, P, D):
    chk.rule('R02.4', 'no path in the call graph from a decode API entry point reaches exit/_exit/abort/__assert_fail/longjmp/'
             'raise/kill (call graph with backend slots resolved; the encoder branch of _vds_shared_init, which the decode '
             'entry points call with encp==0, is pruned by the value analysis)')
    roots = [P.key(P.need(n)) for n in common.decode_api(P)]
    seen = {k for k, c in D.ctx.items() if c.seen}
    bad = {'ext:' + t for t in common.TERMINATORS}
    for r in roots:
        par = {}
        st = [r]
        par[r] = None
        hit = None
        while st and hit is None:
            k = st.pop()
            for t in sorted(P.callees.get(k, ())):
                if t in par:
                    continue
                if t in bad:
                    par[t] = k
                    hit = t
                    break
                if t.startswith(('ext:', 'cb:', 'unk:')) or t not in seen:
                    continue
                par[t] = k
                st.append(t)
        chk.ob('R02.4', r, 'no-terminator-reachable', hit is None, P.fn[r].where(),
               f'{len(par)} functions reachable' if hit is None else f'reaches {hit[4:]}', path=P.path_to(par, hit) if hit else None)
    # positive control: the encoder does reach exit() through floor1_fit on this tree; the rule must be able to see it
    A = P.get('vorbis_analysis')
    if A is not None:
        par = P.reachable([P.key(A)])
        chk.notes.append('R02.4 positive control: vorbis_analysis reaches ' + ', '.join(sorted(x[4:] for x in bad & set(par))) or 'nothing')


# ---------------------------------------------------------------------------------------------------------
def r02_5(chk, P, D):
    chk.rule('R02.5', 'every return of a header unpacker that reports failure (negative code / NULL) after the function has '
             'stored into the object passes through the matching clear or free call (vorbis_info_clear, vorbis_comment_clear, '
             'vorbis_staticbook_destroy, the backend\'s free_info): "after any rejection the objects can still be cleared '
             'normally" (and nothing allocated so far is lost)')
    free_info = {P.key(P.get(f)) for (r, fl), fs in P.slots.items() if fl == 'free_info' for f in fs if P.get(f) is not None}
    clears = {'vorbis_info_clear', 'vorbis_comment_clear', 'vorbis_staticbook_destroy'} | free_info
    for k in D.unp:
        F = P.fn[k]
        if k in getattr(D, 'unp_helpers', ()):
            # a file-local helper an unpacker was split into: its failure is cleaned up by its callers, whose own failure
            # returns are checked with the call counted as "has stored into the object"
            chk.notes.append(f'R02.5: {k} is a helper of an unpacker (called only by unpackers); its callers clear on failure')
            continue
        alloc = k2.any_of(*[k2.is_call(a) for a in ('malloc', 'calloc', 'realloc')])
        unpack_calls = set(D.unp)

        def stores(A, env, e):
            # a call that returns a fresh object (another unpacker, directly or through a backend slot)
            nd = A.ex[e]
            if nd['k'] != 'call':
                return False
            return any(t in unpack_calls for t in P.call_targets(A.F, e))
        A, h = k2.analyse(P, F, [('dirty', k2.any_of(alloc, stores), True),
                                 ('cleared', k2.is_call_any(clears), True)])
        isptr = F.d.get('ret_t', '').endswith('*')
        n = 0
        for (e, fl, v, env) in k2.ret_value_classes(A):
            fail = (v is not None) and ((isptr and (v.nn is False or v.const() == 0)) or (not isptr and v.hi < 0))
            if not fail:
                continue
            n += 1
            ok = 'cleared' in fl or 'dirty' not in fl
            chk.ob('R02.5', k, f'failure-return@{F.loc(e) - F.line}:{"+".join(sorted(fl)) or "-"}', ok, F.where(e),
                   f'returns {v}; flags on the path: {sorted(fl)}')
        chk.require(n > 0 or k == '_vorbis_unpack_info', f'{k}: no failure return found')


def r02_6(chk, P):
    chk.rule('R02.6', 'an initialiser that cleans up on failure cleans up an initialised object: in every public *_init function of '
             'libvorbis whose first parameter is the object to set up, each call of a release function on that object '
             '(vorbis_dsp_clear(v) after a failed set-up) is preceded on every path by a whole-object wipe of it -- memset(obj,0,..) '
             'in the function itself or in a helper that performs it on every one of its paths.  The object is caller memory '
             'with arbitrary content until then ("for all orders of headerin / synthesis_init calls")')
    import k6

    def wipes_param(F, n):
        nd = F.ex[n]
        if nd['k'] != 'call' or nd['callee'].get('d') != 'memset' or len(nd.get('c', [])) < 2:
            return False
        a = F.ex[F.strip_casts(nd['c'][0])]
        z = F.ex[F.strip_casts(nd['c'][1])]
        return a['k'] == 'ref' and a['decl'].get('kind') == 'param' and z['k'] == 'int' and z['v'] == 0
    wipers = k2.must_do(P, wipes_param)
    maywipe = k2.may_do(P, wipes_param)
    n = 0
    for F in P.functions():
        if not F.name.endswith('_init') or F.static or not F.params or not F.file.startswith(common.REPO + '/lib'):
            continue
        p0 = F.params[0]
        if not p0['t'].rstrip().endswith('*') or 'record' not in p0:
            continue
        # an initialiser of the object: the object is wiped here or in a callee that receives it (vorbis_encode_init, which
        # works on an info the caller initialised, never wipes it and is not one)
        creates = False
        for c in F.calls():
            x = F.ex[c]
            args = x.get('c', [])
            if args:
                first = F.ex[F.strip_casts(args[0])]
                if first['k'] == 'ref' and first['decl'].get('id') == p0['id']:
                    if wipes_param(F, c):
                        creates = True
                    G = P.get(x['callee'].get('d'), F) if x['callee'].get('d') else None
                    if G is not None and G.name not in k6.ALL_RELEASE and P.key(G) in maywipe and G.params and \
                            G.params[0].get('record') == p0.get('record'):
                        creates = True
        if not creates:
            continue
        for c in sorted(F.calls(), key=lambda x: F.ex[x]['loc']):
            nd = F.ex[c]
            d = nd['callee'].get('d')
            if d not in k6.ALL_RELEASE or not nd.get('c'):
                continue
            a0 = F.ex[F.strip_casts(nd['c'][0])]
            if not (a0['k'] == 'ref' and a0['decl'].get('id') == p0['id']):
                continue

            def wiped(q, F=F, pid=p0['id']):
                x = F.ex[q]
                if x['k'] != 'call':
                    return False
                args = x.get('c', [])
                if not args:
                    return False
                first = F.ex[F.strip_casts(args[0])]
                if not (first['k'] == 'ref' and first['decl'].get('id') == pid):
                    return False
                if x['callee'].get('d') == 'memset':
                    z = F.ex[F.strip_casts(args[1])] if len(args) > 1 else None
                    return z is not None and z['k'] == 'int' and z['v'] == 0
                G = P.get(x['callee'].get('d'), F) if x['callee'].get('d') else None
                return G is not None and P.key(G) in wipers
            path = cfg.search(F, None, lambda q, c=c: q == c, wiped)
            n += 1
            chk.ob('R02.6', F.name, f'{d}-after-wipe#{n}', path is None, F.where(c),
                   f'{F.s(c)} is reached only after the object was wiped' if path is None else
                   f'{F.s(c)} can run on the caller\'s still uninitialised {p0["record"]}: a path reaches it without a wipe of the '
                   'object (the set-up helper returns before its memset)', path=cfg.block_lines(F, path) if path else None)
    return n


def r02_7(chk, P):
    chk.rule('R02.7', 'a table with one slot per USED codebook entry is indexed by the count of used entries so far: in sharedbook.c, '
             'wherever an int-pointer parameter that is tested for NULL (the sort index / sparse map handed down by '
             'vorbis_book_init_decode, allocated with one element per entry whose codeword length is non-zero) is subscripted, '
             'the subscript is a local that starts at 0 and is advanced only by ++, once per iteration of the entry loop, under '
             'a test of the entry\'s codeword length -- so it is below the number of used entries at every use.  Indexing it '
             'with the entry number itself reads past the table for every sparse book')
    import cfg as _cfg
    n = 0
    for F in P.functions():
        if not F.file.endswith('sharedbook.c'):
            continue
        ips = [p_ for p_ in F.params if p_.get('t', '').replace(' ', '') in ('int*', 'long*')]
        for p_ in ips:
            subs = []
            for e in F.nodes('sub'):
                b = F.ex[F.strip_casts(F.ex[e]['c'][0])]
                if b['k'] == 'ref' and b['decl'].get('id') == p_['id']:
                    subs.append(e)
            nulltest = any(F.ex[t.get('cond')]['k'] == 'ref' and F.ex[t['cond']]['decl'].get('id') == p_['id']
                           for t in (blk.get('term') or {} for blk in F.blocks.values()) if t.get('cond') is not None)
            if not subs or not nulltest:
                continue
            loops = _cfg.loops(F)
            for e in sorted(subs, key=lambda x: F.ex[x].get('loc', [0, 0])):
                ix = F.ex[F.strip_casts(F.ex[e]['c'][1])]
                ok, why = False, ''
                if ix['k'] == 'ref' and ix['decl'].get('kind') == 'var':
                    vid = ix['decl']['id']
                    mods, zero_init = [], False
                    for q in F.pos:
                        nd = F.ex[q]
                        if nd['k'] == 'decl':
                            for v in nd['vars']:
                                if v.get('id') == vid and v.get('init') is not None and common.const_val(F, v['init']) == 0:
                                    zero_init = True
                        elif nd['k'] == 'assign':
                            l = F.ex[F.strip_casts(nd['c'][0])]
                            if l['k'] == 'ref' and l['decl'].get('id') == vid:
                                mods.append((q, 'assign'))
                        elif nd['k'] == 'un' and nd['op'] in ('pre++', 'post++', 'pre--', 'post--'):
                            l = F.ex[F.strip_casts(nd['c'][0])]
                            if l['k'] == 'ref' and l['decl'].get('id') == vid:
                                mods.append((q, nd['op']))
                    incs = [q for q, k_ in mods if k_ in ('pre++', 'post++')]
                    other = [q for q, k_ in mods if k_ not in ('pre++', 'post++')]
                    # with the table present (the only case in which the subscript is evaluated) every increment lies behind
                    # the true edge of a codeword-length test: it is unreachable once those edges are cut
                    def succs(b):
                        blk = F.blocks[b]
                        t = blk.get('term') or {}
                        c = t.get('cond')
                        ss = list(blk['succs'])
                        if c is not None and len(ss) == 2:
                            cn = F.ex[F.strip_casts(c)]
                            if cn['k'] == 'ref' and cn['decl'].get('id') == p_['id']:
                                return [ss[0]]
                            if cn['k'] == 'un' and cn['op'] == '!' and F.ex[F.strip_casts(cn['c'][0])].get('decl', {}).get('id') == p_['id']:
                                return [ss[1]]
                            if any(F.ex[x]['k'] == 'member' and F.ex[x]['field'] == 'lengthlist' for x in F.walk(c)):
                                return [ss[1]]
                        return ss
                    seen, st = set(), [F.entry]
                    while st:
                        b_ = st.pop()
                        if b_ is None or b_ in seen:
                            continue
                        seen.add(b_)
                        st += succs(b_)
                    guarded = all(F.pos[q][0] not in seen for q in incs)
                    # once per entry-loop iteration: the increment is not nested deeper than the subscripted use's guard loop
                    depth = lambda q: sum(1 for h, body in loops.items() if F.pos[q][0] in body)
                    once = all(depth(q) <= 1 for q in incs)
                    ok = zero_init and not other and incs and guarded and once
                    why = (f'{ix["decl"]["name"]}: starts at 0, advanced by {len(incs)} `++` under a codeword-length test, once per entry' if ok else
                           f'{ix["decl"]["name"]} is not a used-entry counter (zero-initialised: {zero_init}; other modifications: '
                           f'{len(other)}; increments under a codeword-length test: {guarded}; once per entry: {once}): it can reach '
                           'the number of entries, the table has one slot per used entry')
                else:
                    why = f'subscript `{F.s(F.ex[e]["c"][1])}` is not a counter of used entries'
                n += 1
                chk.ob('R02.7', F.name, f'used-entry-table-indexed-by-used-count:{p_["name"]}@{F.loc(e)}', ok, F.where(e), why)
    return n


def r02_8(chk, P):
    chk.rule('R02.8', 'the capacity of the decoder\'s channel buffers does not depend on the half-rate setting at initialisation: in every '
             'function reachable from vorbis_synthesis_init, the value stored into vorbis_dsp_state.pcm_storage (the element count '
             'the v->pcm[] buffers are allocated with) reads neither the half-rate flag nor a local derived from it.  The flag '
             'lives in the info and vorbis_synthesis_halfrate may change it after vorbis_synthesis_init, while '
             'vorbis_synthesis_blockin / _lapout / _restart address the buffers with the value current at their call '
             '("in whatever order"): buffers sized for half rate are overrun by the first full-rate block')
    import frames
    roots = [P.key(P.need('vorbis_synthesis_init'))]
    n = 0
    for k in sorted(P.reachable(roots)):
        F = P.fn.get(k)
        if F is None:
            continue
        for e in F.nodes('assign'):
            nd = F.ex[e]
            l = F.ex[F.strip_casts(nd['c'][0])]
            if not (l['k'] == 'member' and l.get('record') == 'vorbis_dsp_state' and l['field'] == 'pcm_storage'):
                continue
            bad = None
            for q in F.walk(nd['c'][1]):
                x = F.ex[q]
                if x['k'] in ('ref', 'member', 'call') and frames._syntactic_hs(P, F, q):
                    bad = q
                    break
            n += 1
            chk.ob('R02.8', F.name, f'buffer-capacity-independent-of-half-rate@{F.loc(e)}', bad is None, F.where(e),
                   f'`{F.s(e)}`: no half-rate term' if bad is None else
                   f'`{F.s(e)}` depends on the half-rate flag as it stands now (`{F.s(bad)}`): a later vorbis_synthesis_halfrate(vi,0) makes '
                   'blockin write full-rate blocks into buffers of half the size')
    return n


def r02_9(chk, P):
    chk.rule('R02.9', 'every decode table of a codebook exists whenever the book has entries: the pointer fields of `codebook` that the '
             'decode routines of codebook.c read through (subscript or dereference) are assigned in vorbis_book_init_decode on '
             'every path that returns success with used_entries possibly > 0 (K2 flags per field, K4 value of used_entries at the '
             'return).  The decoders test used_entries, not the individual tables: a table built only for some kinds of book is '
             'a NULL dereference as soon as another kind is used in that role (any book may serve as a classification book)')
    import k2
    need = set()
    for F in P.functions():
        if not F.file.endswith('codebook.c'):
            continue
        for e in F.pos:
            nd = F.ex[e]
            if nd['k'] == 'sub' or (nd['k'] == 'bin' and nd['op'] == '+') or (nd['k'] == 'un' and nd['op'] == '*'):
                b = F.ex[F.strip_casts(nd['c'][0])]
                if b['k'] == 'member' and b.get('record') == 'codebook' and b.get('t', '').rstrip().endswith('*'):
                    need.add(b['field'])
    chk.require(len(need) >= 3, f'codebook.c reads through only {sorted(need)}')
    F = P.need('vorbis_book_init_decode')
    setters = [(f'set:{f}', k2.stores_field('codebook', f, ops=('=',)), True) for f in sorted(need)]
    A, h = k2.analyse(P, F, setters)
    cid = F.params[0]['id']
    per = {}
    for (e, fl, v, env) in k2.ret_value_classes(A):
        if v is None or not (v.lo <= 0 <= v.hi) or 0 in v.ne:
            continue
        ue = env.get(f'v{cid}->used_entries')
        if ue is not None and ue.hi <= 0:
            continue
        for f in sorted(need):
            per.setdefault(f, []).append((f'set:{f}' in fl, e, ue))
    n = 0
    for f in sorted(need):
        rows = per.get(f, [])
        bad = [r for r in rows if not r[0]]
        n += 1
        chk.ob('R02.9', F.name, f'decode-table-built:{f}', bool(rows) and not bad, F.where(bad[0][1]) if bad else F.where(),
               f'{len(rows)} success-return states with entries, all with c->{f} assigned' if rows and not bad else
               (f'success is returned (line {F.loc(bad[0][1])}) with used_entries {bad[0][2]} and c->{f} not assigned on the path: '
                f'codebook.c reads through it whenever used_entries > 0' if bad else 'no success return with entries seen'))
    return n


# ---------------------------------------------------------------------------------------------------------

# registry -> (type table, tables of per-number objects) of one backend family (confirmed by reading codec_internal.h / registry.c:
# entry k of every table of a family describes floor / residue / mapping number k)
FAMILIES = {
    '_floor_P': ('floor_type', {'floor_param', 'flr'}),
    '_residue_P': ('residue_type', {'residue_param', 'residue'}),
    '_mapping_P': ('map_type', {'map_param'}),
}


def r02_10(chk, P, rule='R02.10'):
    chk.rule(rule, 'a backend function is applied to an object of its own kind: wherever a function is taken from a registry '
             '(_floor_P / _residue_P / _mapping_P) at the type recorded for number k (ci->floor_type[k], ...) and the call passes or '
             'assigns a per-number object of the same family (ci->floor_param[j], b->flr[j], ci->residue_param[j], b->residue[j], '
             'ci->map_param[j]), k and j are the same expression (single-assignment locals expanded).  A floor-0 routine run on '
             'a floor-1 look structure reads and writes through pointers of the wrong layout; only a set-up that mixes backend '
             'types shows it, and the encoder never produces one')
    defs_cache = {}

    def canon(F, e, depth=0):
        e = F.strip_casts(e)
        nd = F.ex[e]
        k = nd['k']
        if k == 'ref' and nd['decl'].get('kind') == 'var' and depth < 4:
            defs = defs_cache.setdefault(P.key(F), common.single_defs(F))
            d = defs.get(nd['decl']['id'])
            if d is not None:
                return canon(F, d, depth + 1)
            return f"v{nd['decl']['id']}"
        if k == 'ref':
            return f"{nd['decl'].get('kind', '')[:1]}{nd['decl'].get('id', nd['decl'].get('name'))}"
        if k == 'int':
            return str(nd['v'])
        if k == 'member':
            return canon(F, nd['c'][0], depth) + '.' + nd['field']
        if k == 'sub':
            return canon(F, nd['c'][0], depth) + '[' + canon(F, nd['c'][1], depth) + ']'
        if k in ('bin', 'un'):
            return nd.get('op', '?') + '(' + ','.join(canon(F, c, depth) for c in nd.get('c', []) if c) + ')'
        return F.s(e)

    def table_elem(F, e, fields):
        """e (casts stripped, single-assignment locals expanded) is tab[j] with tab a member named in fields -> (field, j)"""
        e = F.strip_casts(e)
        nd = F.ex[e]
        hops = 0
        while nd['k'] == 'ref' and nd['decl'].get('kind') == 'var' and hops < 3:
            defs = defs_cache.setdefault(P.key(F), common.single_defs(F))
            d = defs.get(nd['decl']['id'])
            if d is None:
                return None
            e = F.strip_casts(d)
            nd = F.ex[e]
            hops += 1
        if nd['k'] != 'sub':
            return None
        b = F.ex[F.strip_casts(nd['c'][0])]
        if b['k'] == 'member' and b['field'] in fields:
            return (b['field'], nd['c'][1])
        return None

    n = 0
    for F in P.functions():
        for c in F.calls():
            nd = F.ex[c]
            if 'slot' not in nd['callee']:
                continue
            # the registry element the function pointer is read from
            reg = None
            fe = nd.get('fnexpr')
            roots = [fe] if fe else []
            if not roots:
                continue
            for x in F.walk(roots[0]):
                xn = F.ex[x]
                if xn['k'] == 'sub':
                    b = F.ex[F.strip_casts(xn['c'][0])]
                    if b['k'] == 'ref' and b['decl'].get('name') in FAMILIES:
                        reg = (b['decl']['name'], xn['c'][1])
            if reg is None:
                continue
            tfield, ofields = FAMILIES[reg[0]]
            te = table_elem(F, reg[1], {tfield})
            if te is None:
                continue            # a constant or a parameter: nothing to pair here
            kx = canon(F, te[1])
            objs = []
            for a in nd.get('c', []):
                oe = table_elem(F, a, ofields)
                if oe is not None:
                    objs.append(oe)
            par = F.sparent.get(c)
            ch = c
            while par is not None and F.ex[par]['k'] == 'cast':
                ch, par = par, F.sparent.get(par)
            if par is not None and F.ex[par]['k'] == 'assign' and F.ex[par]['c'][1] == ch:
                oe = table_elem(F, F.ex[par]['c'][0], ofields)
                if oe is not None:
                    objs.append(oe)
            for fld, j in objs:
                jx = canon(F, j)
                n += 1
                chk.ob(rule, F.name, f'{reg[0]}.{nd["callee"]["slot"][-1]}:{fld}@{F.loc(c)}', kx == jx, F.where(c),
                       f'type of number `{F.s(te[1])}`, object number `{F.s(j)}`' if kx == jx else
                       f'`{F.s(c)[:90]}`: the function is the one registered for number `{F.s(te[1])}` but the {fld} object is number '
                       f'`{F.s(j)}` -- with a set-up that mixes backend types the routine runs on a structure of another layout')
    return n


def r02_11(chk, P, rule='R02.11'):
    chk.rule(rule, 'every packet-level decode call tolerates a decoder state whose vorbis_synthesis_init was refused: a refusal '
             '(no set-up header yet, or a codebook rejected while the decode tables are built -- found at init time, not by '
             'vorbis_synthesis_headerin) leaves the vorbis_dsp_state wiped (vi == NULL, backend_state == NULL).  Every function of '
             'the decode API that takes a vorbis_dsp_state* or a vorbis_block* is analysed (K4 pointer nullness) with these two '
             'fields null on entry: no member access through a null pointer is reachable -- the function tests them first and '
             'answers with an error code, as vorbis_synthesis and vorbis_synthesis_restart do')
    import absint
    from absint import V
    n = 0
    dsp_fields = (P.record('vorbis_dsp_state') or {}).get('fields', [])
    chk.require(dsp_fields, 'record vorbis_dsp_state not found')
    for name in common.decode_api(P):
        G = P.get(name)
        # the calls the property quantifies over: the synthesis entry points and the init / clear functions of the two objects
        if G is None or G.entry is None or not name.startswith(('vorbis_synthesis', 'vorbis_block_', 'vorbis_dsp_')):
            continue
        nulls = []
        for p_ in G.params:
            t = p_['t'].replace('const ', '').strip()
            if t in ('vorbis_dsp_state *', 'struct vorbis_dsp_state *'):
                nulls += [(p_, f'v{p_["id"]}->vi'), (p_, f'v{p_["id"]}->backend_state')]
            elif t in ('vorbis_block *', 'struct vorbis_block *'):
                nulls += [(p_, f'v{p_["id"]}->vd->vi'), (p_, f'v{p_["id"]}->vd->backend_state')]
        if not nulls:
            continue
        A = absint.Analyzer(P, G)
        base_init = A.initial_env

        def init(base_init=base_init, nulls=nulls):
            env = base_init()
            for p_, key in nulls:
                env[f'v{p_["id"]}'] = V(nn=True)
                if '->vd->' in key:
                    env[f'v{p_["id"]}->vd'] = V(nn=True)
                env[key] = V(0, 0, nn=False)
                # the refusal wiped the whole state: every integer field is zero as well
                base = key[:key.rindex('->')]
                for f_ in dsp_fields:
                    if not f_.get('ptr') and absint.int_type_range(f_.get('t', '')):
                        env[f'{base}->{f_["name"]}'] = V(0, 0)
            return env
        A.initial_env = init
        bad = {}

        def obs(A_, env, e, v):
            nd = A_.ex[e]
            if nd['k'] == 'member' and nd.get('arrow'):
                par_ = A_.F.sparent.get(e)
                if par_ is not None and A_.ex[par_]['k'] == 'un' and A_.ex[par_]['op'] == '&':
                    return
                b = A_.F.strip_casts(nd['c'][0])
                bv = A_.peek(env, b)
                if isinstance(bv, V) and not bv.is_bottom() and (bv.nn is False or bv.const() == 0) and bv.nn is not True:
                    bad.setdefault(e, A_.F.s(e))
        A.observers.append(obs)
        A.run()
        e0 = sorted(bad, key=lambda x: G.ex[x].get('loc') or [0, 0])[0] if bad else None
        n += 1
        chk.ob(rule, G.name, 'tolerates-refused-init-state', not bad, G.where(e0) if e0 else G.where(),
               'no access through the null vi / backend_state of a wiped state is reachable' if not bad else
               f'`{bad[e0]}` is evaluated with the state wiped (vi == NULL, backend_state == NULL) and no test of the pointer on the '
               'way: a caller that goes on after vorbis_synthesis_init returned 1 crashes here instead of getting an error code')
    return n

def run(chk, P):
    r02_6(chk, P)
    chk.floor('R02.6', 1)
    r02_7(chk, P)
    chk.floor('R02.7', 2)
    r02_8(chk, P)
    chk.floor('R02.8', 1)
    r02_9(chk, P)
    r02_10(chk, P)
    chk.floor('R02.10', 12)
    r02_11(chk, P)
    chk.floor('R02.11', 8)
    chk.rule('R02.12', 'after any rejection the objects can still be cleared: what a clear function will walk is initialised -- an owning '
             'pointer array is calloc\'ed, grown by realloc, or malloc\'ed only while its count is 0 or right before a fill loop that '
             'cannot be left early (same obligations as R13.14).  A header that is refused half-way through its list leaves the '
             'rest of the list to vorbis_comment_clear / vorbis_info_clear')
    from rules import c13
    c13.r13_14(common.Proxy(chk, 'R02.12'), P, rule='R02.12')
    chk.floor('R02.12', 4)
    chk.floor('R02.9', 3)
    D = k4dec.decode_driver(P)
    r02_1(chk, P, D)
    chk.floor('R02.1', 45)
    nfn = r02_2(chk, P, D)
    chk.floor('R02.2', 300)
    chk.require(nfn >= 80, f'only {nfn} functions reached from the decode API')
    from rules import c02_guards
    c02_guards.run(chk, P, D)
    r02_4(chk, P, D)
    chk.floor('R02.4', 20)
    r02_5(chk, P, D)
    chk.floor('R02.5', 10)
    chk.analysed['k4'] = {'functions': nfn, 'rounds': D.rounds, 'wall_s': round(D.wall, 1),
                          'setup_invariants': len(D.inv_ok), 'state_invariants': len(D.inv_state),
                          'lemmas': sorted({l for R in D.results.values() for l in R.lemmas})}
    chk.trusted += ['clang 14 front end', 'libogg: oggpack_read/look(b,k) in [-1,2^k-1], sticky end-of-packet, oggpack_bytes <= storage',
                    'libc: calloc zero-fills; qsort permutes', 'no read of uninitialised malloc memory (element summaries describe '
                    'written elements)', 'objects handed to the decode API were initialised by their init functions',
                    'K4 lemmas: accumulator bound, named sums, iteration-partitioned pure helpers (DESIGN 3.3)']
    return ('Abstract interpretation (intervals + symbolic upper bounds + end-of-packet tags) of every function the decode API '
            'reaches, with field invariants carried from the header unpackers to their consumers, decides that every '
            'stream-derived set-up field is range-validated and that every fixed-extent subscript, integer divisor, allocation '
            'and alloca size is safe under those ranges; call-graph and path rules decide that the decoder never terminates the '
            'process and that rejected headers are cleared. Heap-buffer DSP arithmetic, termination and time budget are not '
            'decided.')
