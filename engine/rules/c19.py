"""C19 — lapped seeks differ from plain seeks only inside the first half short block (narrow, DESIGN 4/C19).

Decided: R19.1 each lapped seek performs exactly its plain counterpart; R19.2 a failure of that seek or of the priming
is returned unchanged; R19.3 collect -> seek -> prime -> lapout -> splice order; R19.4 the splice writes only the
first min(n1,n2) samples of min-channel-count channels and uses the window that belongs to the chosen length.
Not decided: bit-identity after the lap region, the cross-fade values, end-of-file cases."""
import absint
import cfg
import k2
import k9
from absint import V
from facts import AnalysisBroken
from rules import common
from rules.c08 import _ordinal

LAPS = ['ov_raw_seek_lap', 'ov_pcm_seek_lap', 'ov_pcm_seek_page_lap', 'ov_time_seek_lap', 'ov_time_seek_page_lap']


def r19_1(chk, P):
    chk.rule('R19.1', 'each of the five ov_*_lap entry points hands, as the seek to perform, exactly the public function named by '
             'dropping the _lap suffix to a lap helper, together with its own position argument')
    for fn in LAPS:
        F = P.need(fn)
        want = fn[:-4]
        got = []
        for c in F.calls():
            for a in F.ex[c].get('c', []):
                an = F.ex[F.strip_casts(a)]
                if an['k'] == 'ref' and an['decl']['kind'] == 'fn':
                    got.append(an['decl']['name'])
        chk.ob('R19.1', fn, 'plain-counterpart', got == [want], F.where(), f'passes {got}; expected [{want}]')


def r19_2_3(chk, P):
    chk.rule('R19.2', 'in the lap helpers the result of the seek (call through the function parameter) and of _ov_initprime / '
             '_ov_initset is tested and, when non-zero, returned unchanged (the return under that test yields the same variable)')
    chk.rule('R19.3', 'on every path to `return 0` of a lap helper the events occur in this order: _ov_getlap (collect from the old '
             'position) -> the seek -> _ov_initprime -> vorbis_synthesis_lapout -> _ov_splice; for ov_crosslap: _ov_initset(vf1) '
             'and _ov_initprime(vf2) -> _ov_getlap -> vorbis_synthesis_lapout -> _ov_splice')
    helpers = [F for F in P.functions() if F.file.endswith('vorbisfile.c') and list(F.calls('_ov_splice')) and F.name != '_ov_splice']
    chk.require(len(helpers) >= 3, f'only {len(helpers)} functions call _ov_splice')
    for F in helpers:
        key = P.key(F)
        is_cross = F.name == 'ov_crosslap'
        # R19.2
        for c in sorted(F.calls(), key=lambda x: F.ex[x]['loc']):
            cal = F.ex[c]['callee']
            nm = cal.get('d') or ('<seek>' if 'param' in cal else None)
            if nm not in ('_ov_initset', '_ov_initprime', '<seek>'):
                continue
            st, det = k9.observe(P, F, c)
            ok = st in ('stored-tested', 'tested', 'returned')
            # the return controlled by the test returns the stored variable
            same_var = True
            si = k9.stored_into(F, c)
            if ok and si and si[0] == 'lv':
                lv = F.s(F.strip_casts(si[1]))
                rets = [n for n in F.pos if F.ex[n]['k'] == 'ret' and F.ex[n].get('c')]
                # some return of exactly that variable must be reachable directly after the call
                import cfg
                r = cfg.search(F, F.pos[c], lambda n: F.ex[n]['k'] == 'ret', lambda n: False)
                same_var = any(F.s(F.ex[n]['c'][0]) == lv for n in rets)
            calls_same = sorted([x for x in F.calls() if (F.ex[x]['callee'].get('d') or ('<seek>' if 'param' in F.ex[x]['callee'] else None)) == nm],
                                key=lambda x: F.ex[x]['loc'])
            chk.ob('R19.2', key, f'{nm}#{calls_same.index(c)}', ok and same_var, F.where(c), f'{st} {det}')
        # R19.3 staged flags
        if is_cross:
            # bringing a handle to the decode-ready, primed state = fetching packets for it: the calls of the two helpers, or --
            # when they are inlined -- the packet fetch itself; the later stages are not counted as "init" although they fetch too
            fetch = k2.event(P, k2.s_call(['_fetch_and_process_packet']), 'may')
            later = k2.is_call_any(['_ov_getlap', 'vorbis_synthesis_lapout', '_ov_splice'])

            def is_init(A, env, e, fetch=fetch, later=later):
                nd = A.ex[e]
                if nd['k'] == 'bin' and nd['op'] in ('==', '!=', '<', '>=') and any(
                        A.ex[A.F.strip_casts(x)].get('field') == 'ready_state' for x in nd['c']) and any(
                        common.const_val(A.F, x) == 4 for x in nd['c']):
                    return True         # the inlined form: the loop that fetches until the handle is decode-ready tests this
                return fetch(A, env, e) and not later(A, env, e)
            stages = [('init', is_init), ('collect', k2.is_call('_ov_getlap')),
                      ('lapout', k2.is_call('vorbis_synthesis_lapout')), ('splice', k2.is_call('_ov_splice'))]
        else:
            def is_seek(A, env, e):
                nd = A.ex[e]
                return nd['k'] == 'call' and 'param' in nd['callee']
            stages = [('collect', k2.is_call('_ov_getlap')), ('seek', is_seek), ('prime', k2.is_call('_ov_initprime')),
                      ('lapout', k2.is_call('vorbis_synthesis_lapout')), ('splice', k2.is_call('_ov_splice'))]
        setters = []
        for i, (nm, pred) in enumerate(stages):
            if i == 0:
                setters.append((nm, pred, True))
            else:
                prev = stages[i - 1][0]

                def mk(pred=pred, prev=prev):
                    return lambda A, env, e: pred(A, env, e) and prev in env.get('$flags', frozenset())
                setters.append((nm, mk(), True))

                def mk_bad(pred=pred, prev=prev, nm=nm):
                    return lambda A, env, e: pred(A, env, e) and prev not in env.get('$flags', frozenset())
                setters.append(('out-of-order:' + nm, mk_bad(), True))
        A, h = k2.analyse(P, F, setters)
        for (e, fl, v, env) in k2.ret_value_classes(A):
            if v is None or v.const() != 0:
                continue
            rn = A.ex[F.strip_casts(A.ex[e]['c'][0])]
            if rn['k'] != 'int':
                continue
            if is_cross and not fl:
                continue    # degenerate vf1==vf2 case returns 0 before anything happens
            need = {s for s, _ in stages}
            bad = [x for x in fl if x.startswith('out-of-order')]
            ok = need <= fl and not bad
            chk.ob('R19.3', key, f'return 0@{_ordinal(F, e)}', ok, F.where(e), f'stages on this path: {sorted(fl)}')


def r19_4(chk, P):
    chk.rule('R19.4', 'in _ov_splice every element access d[i], s[i], w[i] has 0 <= i < n1 and i < n2 (both, symbolically: the '
             'length is min(n1,n2)), every lappcm[j] access has j < ch1 and j < ch2, every pcm[j] access j < ch2; and the window '
             'used is the one paired with the chosen length ((n1,w1) or (n2,w2)) on every path')
    F = P.need('_ov_splice')
    ints = [p for p in F.params if p['t'] == 'int']
    wins = [p for p in F.params if p['t'].startswith('const float *')]
    chk.require(len(ints) == 4 and len(wins) == 2, '_ov_splice signature changed')
    n1, n2, ch1, ch2 = [f'v{p["id"]}' for p in ints]
    tags = {f'v{ints[0]["id"]}': 'A', f'v{ints[1]["id"]}': 'B', f'v{wins[0]["id"]}': 'A', f'v{wins[1]["id"]}': 'B'}
    pcm_id = F.params[0]['id']
    lap_id = F.params[1]['id']

    class H(absint.Hooks):
        def on_entry(self, A, env):
            for k, t in tags.items():
                v = env.get(k) or absint.TOP
                env[k] = v.copy(tag=t)
            return env
    sites = []

    def obs(A, env, e, v):
        nd = A.ex[e]
        if nd['k'] == 'sub' and 'extent' not in nd:
            b = A.ex[A.F.strip_casts(nd['c'][0])]
            iv = A.peek(env, nd['c'][1])
            bv = A.peek(env, nd['c'][0])
            sites.append((e, b, iv, bv, dict((k, x) for k, x in env.items() if isinstance(x, V))))

    def part(A, env):
        # keep the choice of length and window correlated
        out = []
        for k, x in sorted((k, x) for k, x in env.items() if isinstance(k, str) and isinstance(x, V) and x.tag in ('A', 'B')):
            out.append((k, x.tag))
        # and the known order between the two lengths (n1<n2, n1<=n2, n2<n1, n2<=n1)
        a, b = env.get(n1), env.get(n2)
        if a is not None and b is not None:
            out.append(('rel', n2 in a.lt, n2 in a.le, n1 in b.lt, n1 in b.le))
        return tuple(out)
    A = absint.Analyzer(P, F, hooks=H(), partition=part)
    A.observers.append(obs)
    A.run()
    chk.require(sites, 'no element accesses found in _ov_splice')
    seen = {}
    for (e, b, iv, bv, env) in sites:
        name = F.s(e)
        base_is_param = b['k'] == 'ref' and b['decl']['kind'] == 'param'
        if base_is_param and b['decl']['id'] == lap_id:
            need = {ch1, ch2}
        elif base_is_param and b['decl']['id'] == pcm_id:
            need = {ch2}
        else:
            need = {n1, n2}
        ok = iv.lo >= 0 and need <= (iv.lt)
        msg = f'index {iv}; needs < {sorted(need)}'
        # window pairing: an access through a window-tagged pointer must use the length with the same tag
        if ok and b['k'] == 'ref' and bv.tag in ('A', 'B'):
            # find the loop bound variable's tag: the symbolic bound that is a tagged local
            ltags = {env[s].tag for s in iv.lt if s in env and env[s].tag in ('A', 'B') and s not in (n1, n2)}
            if ltags and ltags != {bv.tag}:
                ok = False
                msg = f'window of length {"n1" if bv.tag == "A" else "n2"} is indexed up to the length chosen from {"n1" if "A" in ltags else "n2"}'
        prev = seen.get(name)
        seen[name] = (ok and (prev[0] if prev else True), msg if (not ok or not prev) else prev[1], e)
    for name, (ok, msg, e) in sorted(seen.items()):
        chk.ob('R19.4', '_ov_splice', f'access:{name}', ok, F.where(e), msg)


def _const(F, e):
    """value of a literal, a negated literal or a parenthesised one"""
    nd = F.ex[F.strip_casts(e)]
    if nd['k'] == 'int':
        return nd['v']
    if nd['k'] == 'un' and nd['op'] == '-':
        v = _const(F, nd['c'][0])
        return -v if v is not None else None
    return None


def _calls_in(F, e, name):
    nd = F.ex[e]
    if nd['k'] == 'call' and nd['callee'].get('d') == name:
        return True
    return any(_calls_in(F, c, name) for c in nd.get('c', []))


def r19_5(chk, P):
    chk.rule('R19.5', 'the packet fetch ends a link only at a link boundary: in _fetch_and_process_packet every return of OV_EOF is '
             'reached only through the failing edge of _get_next_page (no more data) or the true edge of ogg_page_bos on the '
             'page just read (the next link begins); a page of a foreign serial number that is not a BOS page is skipped.  '
             'This is what lets the lap helpers (spanp==0) report end-of-file only when no audio follows')
    F = P.need('_fetch_and_process_packet')
    ov_eof = -2
    rets = [e for e in cfg.returns(F) if F.ex[e].get('c') and _const(F, F.ex[e]['c'][0]) == ov_eof]
    chk.require(rets, '_fetch_and_process_packet: no return of OV_EOF found')
    for i, e in enumerate(sorted(rets, key=lambda x: F.ex[x]['loc'])):
        conds = common.controlling_conditions(F, e)
        why = None
        for c, pol in conds:
            cn = F.ex[F.strip_casts(c)]
            if _calls_in(F, c, '_get_next_page') and cn['k'] == 'bin' and cn['op'] == '<' and pol:
                why = 'no page could be read'
            if _calls_in(F, c, 'ogg_page_bos') and cn['k'] == 'call' and pol:
                why = 'the page begins the next link'
            if _calls_in(F, c, 'ogg_page_bos') and cn['k'] == 'un' and cn['op'] == '!' and not pol:
                why = 'the page begins the next link'
        chk.ob('R19.5', F.name, f'eof-only-at-link-boundary#{i}', why is not None, F.where(e),
               why if why else 'OV_EOF is returned for a page that need not be a BOS page: a multiplexed foreign stream ends the link '
               f'(controlling tests: {[F.s(c)[:40] + ("" if pol else " [false]") for c, pol in conds]})')


def r19_6(chk, P):
    chk.rule('R19.6', 'vorbis_synthesis_lapout may be called again on the state it left (a lapped seek that fails before the '
             'decoder is restarted, two lapped seeks at end of stream, ov_crosslap twice): every update in it that moves the '
             'returned window (a += / -= on pcm_returned or pcm_current) is controlled by a test that the function has made '
             'false by the time it returns (K4: the controlling condition, refined with the values at the function\'s exits, is '
             'infeasible), so a repeated call finds nothing to move.  An update guarded only by block-size flags is applied '
             'again on every call: the count returned goes negative and the pointer walks off the pcm block')
    import k4dec
    F = P.need('vorbis_synthesis_lapout')
    D = k4dec.decode_driver(P)
    moves = []
    for e in F.pos:
        nd = F.ex[e]
        if nd['k'] == 'assign' and nd['op'] in ('+=', '-='):
            l = F.ex[F.strip_casts(nd['c'][0])]
            if l['k'] == 'member' and l.get('record') == 'vorbis_dsp_state' and l.get('field') in ('pcm_returned', 'pcm_current'):
                moves.append(e)
    chk.require(moves, 'vorbis_synthesis_lapout: no window-moving update found')
    moves = sorted(moves, key=lambda x: F.ex[x]['loc'])
    # the states at the returns are kept apart by which updates ran on the path
    setters = [(f'm{i}', (lambda A_, env, q, e=e: q == e), True) for i, e in enumerate(moves)]
    A, h = k2.analyse(P, F, setters, field_inv=D.field_inv_for(P.key(F)))
    rets = k2.ret_value_classes(A)
    for i, e in enumerate(moves):
        conds = common.atomic_conditions(F, e)
        # the returns of the paths on which this update ran
        ex_envs = [env for (r, fl, v, env) in rets if f'm{i}' in fl]
        disabled = None
        for c, pol in conds:
            try:
                if ex_envs and all(A.refine(env.copy(), c, pol) is None for env in ex_envs):
                    disabled = (c, pol)
                    break
            except Exception:
                continue
        chk.ob('R19.6', F.name, f'window-move-runs-once#{i}', disabled is not None, F.where(e),
               f'guard {"" if disabled and disabled[1] else "!"}({F.s(disabled[0])}) is false at every return that follows' if disabled else
               f'{F.s(e)} is controlled by {[("" if p_ else "!") + F.s(c_)[:40] for c_, p_ in conds]}, none of which the function '
               'falsifies: a second call on the same state moves the window (and the data) again')


def _linform(F, e, defs, depth=0, atom=None):
    """expression as a linear form over named locals with rational coefficients: {name: Fraction, 1: Fraction} or None.
    Single-definition locals that are themselves linear in others are expanded; the block-size locals stay symbols"""
    from fractions import Fraction
    nd = F.ex[F.strip_casts(e)]
    k = nd['k']
    if k == 'int':
        return {1: Fraction(nd['v'])}
    if k == 'ref' and nd['decl'].get('kind') in ('var', 'param'):
        d = defs.get(nd['decl'].get('id'))
        if d is not None and depth < 4:
            sub = _linform(F, d, defs, depth + 1, atom)
            if sub is not None and F.ex[F.strip_casts(d)]['k'] in (('bin', 'ref', 'int') if atom is None else ('bin', 'ref', 'int', 'sub', 'member')):
                dn = F.ex[F.strip_casts(d)]
                if not (dn['k'] == 'bin' and dn['op'] in ('>>', '<<')):
                    return sub
        return {nd['decl']['name']: Fraction(1)}
    if k == 'bin' and nd['op'] in ('+', '-'):
        a, b = _linform(F, nd['c'][0], defs, depth, atom), _linform(F, nd['c'][1], defs, depth, atom)
        if a is None or b is None:
            return None
        out = dict(a)
        for kk, v in b.items():
            out[kk] = out.get(kk, 0) + (v if nd['op'] == '+' else -v)
        return out
    if k == 'bin' and nd['op'] in ('/', '*', '>>', '<<'):
        a, b = _linform(F, nd['c'][0], defs, depth, atom), _linform(F, nd['c'][1], defs, depth, atom)
        if a is None or b is None:
            return None
        if set(b) <= {1}:
            c = b.get(1, Fraction(0))
            if nd['op'] == '/' and c != 0:
                return {kk: v / c for kk, v in a.items()}
            if nd['op'] == '*':
                return {kk: v * c for kk, v in a.items()}
            if nd['op'] == '>>' and c >= 0:
                return {kk: v / (2 ** int(c)) for kk, v in a.items()}
            if nd['op'] == '<<' and c >= 0:
                return {kk: v * (2 ** int(c)) for kk, v in a.items()}
        if nd['op'] == '*' and set(a) <= {1}:
            c = a.get(1, Fraction(0))
            return {kk: v * c for kk, v in b.items()}
        return None
    if k in ('sub', 'member'):
        if atom is not None:
            return {atom(F.strip_casts(e)): Fraction(1)}
        return {'@' + F.s(F.strip_casts(e)): Fraction(1)}        # an opaque term (a channel vector)
    return None


def _lf_eq(a, b):
    keys = set(a) | set(b)
    return all(a.get(k, 0) == b.get(k, 0) for k in keys)


def r19_7(chk, P):
    chk.rule('R19.7', 'vorbis_synthesis_lapout closes the gap exactly: every relocation of finished samples in it (a copy of C values '
             'from the start of a channel vector to offset S of the same vector, by a loop or by memmove) satisfies S + C == n1 -- '
             'the moved data ends where the second half of the current block begins -- and the window fields pcm_returned and '
             'pcm_current are advanced by that same S in the same branch (linear identities over the block-size locals, '
             'rational coefficients; the expressions are taken from the code, not assumed)')
    from fractions import Fraction
    F = P.need('vorbis_synthesis_lapout')
    defs = common.single_defs(F)
    n1 = None
    for vid, v in F.vars.items():
        d = defs.get(vid)
        if d is not None:
            cs = F.s(F.strip_casts(d), names=False)
            if 'blocksizes[1]' in cs and '>>' in cs:
                n1 = v['name']
    chk.require(n1 is not None, 'vorbis_synthesis_lapout: the long half-block size local was not found')
    # relocations: pointer locals d (= vector + S) and s (= vector) and a copy between them
    moves = []
    for e in sorted(F.pos):
        nd = F.ex[e]
        cnt = None
        dst = src = None
        dirn = None
        if nd['k'] == 'call' and nd['callee'].get('d') in ('memmove', 'memcpy') and len(nd.get('c', [])) == 3:
            dst, src = nd['c'][0], nd['c'][1]
            dirn = nd['callee'].get('d')
            sz = F.ex[F.strip_casts(nd['c'][2])]
            if sz['k'] == 'bin' and sz['op'] == '*':
                for a, b in ((sz['c'][0], sz['c'][1]), (sz['c'][1], sz['c'][0])):
                    if F.ex[F.strip_casts(a)]['k'] in ('sizeof', 'int') or 'sizeof' in F.s(F.strip_casts(a)):
                        cnt = _linform(F, b, defs)
        elif nd['k'] == 'assign' and nd['op'] == '=':
            l, r = F.ex[F.strip_casts(nd['c'][0])], F.ex[F.strip_casts(nd['c'][1])]
            if l['k'] == 'sub' and r['k'] == 'sub' and F.s(F.strip_casts(l['c'][1])) == F.s(F.strip_casts(r['c'][1])):
                iv = F.ex[F.strip_casts(l['c'][1])]
                lb, rb = F.ex[F.strip_casts(l['c'][0])], F.ex[F.strip_casts(r['c'][0])]
                if iv['k'] == 'ref' and lb['k'] == 'ref' and rb['k'] == 'ref' and lb['decl'].get('id') != rb['decl'].get('id'):
                    # the loop that drives the copy
                    for h, body in cfg.loops(F).items():
                        if F.pos[e][0] in body:
                            t = F.blocks[h].get('term')
                            c = F.ex[F.strip_casts(t['cond'])] if t and t.get('cond') is not None else None
                            if c is None or c['k'] != 'bin':
                                continue
                            cv = F.ex[F.strip_casts(c['c'][0])]
                            if cv['k'] != 'ref' or cv['decl'].get('id') != iv['decl'].get('id'):
                                continue
                            if c['op'] == '>=' and common.is_zero(F, c['c'][1]):
                                dirn = 'down'
                                # counts down from its initial value: init+1 values
                                for q in F.pos:
                                    qn = F.ex[q]
                                    if qn['k'] == 'assign' and qn['op'] == '=' and F.ex[F.strip_casts(qn['c'][0])].get('decl', {}).get('id') == iv['decl']['id'] \
                                            and cfg.pos_dominates(F, q, e) and F.pos[q][0] not in body:
                                        lf = _linform(F, qn['c'][1], defs)
                                        if lf is not None:
                                            cnt = dict(lf)
                                            cnt[1] = cnt.get(1, 0) + 1
                            elif c['op'] == '<':
                                dirn = 'up'
                                cnt = _linform(F, c['c'][1], defs)
                            dst, src = nd['c'][0], nd['c'][1]
                            dst, src = l['c'][0], r['c'][0]
        if dst is None or cnt is None:
            continue
        dn, sn = F.ex[F.strip_casts(dst)], F.ex[F.strip_casts(src)]
        if dn['k'] != 'ref' or sn['k'] != 'ref':
            continue
        dd, sd = defs.get(dn['decl'].get('id')), defs.get(sn['decl'].get('id'))
        if dd is None or sd is None:
            continue
        ld, ls = _linform(F, dd, defs), _linform(F, sd, defs)
        if ld is None or ls is None:
            continue
        S = dict(ld)
        for kk, v in ls.items():
            S[kk] = S.get(kk, 0) - v
        S = {kk: v for kk, v in S.items() if v != 0}
        if any(isinstance(kk, str) and kk.startswith('@') for kk in S):
            continue            # not the same vector
        moves.append((e, S, cnt, dirn))
    chk.require(moves, 'vorbis_synthesis_lapout: no relocation of finished samples found')
    dom = cfg.dominators(F)
    for i, (e, S, C, dirn) in enumerate(sorted(moves, key=lambda m: F.ex[m[0]]['loc'])):
        tot = dict(S)
        for kk, v in C.items():
            tot[kk] = tot.get(kk, 0) + v
        ok = _lf_eq(tot, {n1: Fraction(1)})

        def show(lf):
            return ' + '.join(f'{v}*{k}' if k != 1 else str(v) for k, v in sorted(lf.items(), key=lambda kv: str(kv[0])) if v != 0) or '0'
        chk.ob('R19.7', F.name, f'relocation-ends-at-centre#{i}', ok, F.where(e),
               f'offset {show(S)} + count {show(C)} = {n1}' if ok else
               f'offset {show(S)} + count {show(C)} = {show(tot)}, not {n1}: the samples between the moved data and the second half of '
               'the current block are left as they were (stale audio after the lap region)')
        # the data is moved towards higher addresses inside one vector: source and destination overlap whenever the offset is
        # smaller than the count, so the copy must run from the top down (or be a memmove)
        okd = dirn in ('down', 'memmove')
        chk.ob('R19.7', F.name, f'overlapping-relocation-runs-top-down#{i}', okd, F.where(e),
               f'the copy is {"a memmove" if dirn == "memmove" else "a descending loop"}' if okd else
               f'the copy runs {"upwards" if dirn == "up" else "through " + str(dirn)} although the destination lies {show(S)} above the source in the same '
               'vector: elements are overwritten before they are read, and a run of stale samples follows the lap region')
        # the window fields move by the same amount in the same branch
        loopconds = {F.strip_casts(F.blocks[h_]['term']['cond']) for h_ in cfg.loops(F)
                     if F.blocks[h_].get('term') and F.blocks[h_]['term'].get('cond') is not None}

        def branch_conds(q_):
            return {(c_, p_) for c_, p_ in common.atomic_conditions(F, q_) if F.strip_casts(c_) not in loopconds}
        conds = branch_conds(e)
        adv = []
        for q in F.pos:
            qn = F.ex[q]
            if qn['k'] == 'assign' and qn['op'] == '+=':
                l = F.ex[F.strip_casts(qn['c'][0])]
                if l['k'] == 'member' and l.get('field') in ('pcm_returned', 'pcm_current'):
                    qc = branch_conds(q)
                    if qc and qc == conds:
                        adv.append((l['field'], _linform(F, qn['c'][1], defs), q))
        flds = {f for f, lf, q in adv}
        ok2 = flds == {'pcm_returned', 'pcm_current'} and all(lf is not None and _lf_eq(lf, S) for f, lf, q in adv)
        chk.ob('R19.7', F.name, f'window-moves-with-the-data#{i}', ok2, F.where(e),
               f'pcm_returned and pcm_current are advanced by {show(S)} in the same branch' if ok2 else
               f'the data moves by {show(S)} but the window fields advance by {[(f, show(lf) if lf else "?") for f, lf, q in adv]}')


def r19_8(chk, P):
    chk.rule('R19.8', 'decoder views are read from their first sample: in vorbisfile.c a row of the view vorbis_synthesis_pcmout / '
             'vorbis_synthesis_lapout hands out (float **pcm filled through &pcm) is used as it is -- as a copy source, as an '
             'argument, or subscripted -- and never advanced by pointer arithmetic: the view already begins at the first '
             'sample not yet delivered (vorbis_synthesis_read moved past what was consumed), so an offset skips samples of '
             'the overlap the lap helpers collect')
    n = 0
    for F in P.functions():
        if not F.file.endswith('vorbisfile.c'):
            continue
        views = set()
        for c in F.calls():
            if F.ex[c]['callee'].get('d') in ('vorbis_synthesis_pcmout', 'vorbis_synthesis_lapout') and len(F.ex[c]['c']) > 1:
                a = F.ex[F.strip_casts(F.ex[c]['c'][1])]
                if a['k'] == 'un' and a['op'] == '&':
                    t = F.ex[F.strip_casts(a['c'][0])]
                    if t['k'] == 'ref' and t['decl'].get('kind') == 'var':
                        views.add(t['decl']['id'])
        if not views:
            continue
        for e in sorted(F.nodes('sub'), key=lambda x: F.ex[x].get('loc', [0, 0])):
            b = F.ex[F.strip_casts(F.ex[e]['c'][0])]
            if not (b['k'] == 'ref' and b['decl'].get('id') in views):
                continue
            p_ = F.sparent.get(e)
            c_ = e
            while p_ is not None and F.ex[p_]['k'] == 'cast':
                c_, p_ = p_, F.sparent.get(p_)
            pn = F.ex[p_] if p_ is not None else None
            bad = False
            if pn is not None and pn['k'] == 'bin' and pn['op'] in ('+', '-'):
                other = pn['c'][1] if pn['c'][0] == c_ else pn['c'][0]
                bad = common.const_val(F, other) != 0
            if pn is not None and pn['k'] == 'assign' and pn['op'] in ('+=', '-=') and pn['c'][0] == c_:
                bad = True
            n += 1
            chk.ob('R19.8', F.name, f'view-row-read-from-its-start@{F.loc(e)}', not bad, F.where(e),
                   f'`{F.s(p_ if pn is not None and pn["k"] in ("sub", "call") else e)[:60]}`: the row is used from its first sample' if not bad else
                   f'`{F.s(p_)[:70]}`: the row of the decoder view is advanced by an offset: the view already starts at the first '
                   'undelivered sample, the offset skips that many samples of the data being collected')
    return n


def r19_9(chk, P):
    chk.rule('R19.9', 'the two handles of ov_crosslap are kept apart: every value the function computes (each definition of a scalar '
             'or pointer local) depends, through the locals it is built from, on at most one of the two handle parameters -- the '
             'block half-size, window, info and half-rate shift of handle 2 are derived from handle 2 alone -- and a call that '
             'receives one handle receives per-handle values of that handle only.  The values of both handles meet in the '
             'splice call and nowhere else.  (A shift of handle 2\'s block size by handle 1\'s half-rate flag is a crossed value)')
    F = P.need('ov_crosslap')
    hp = [p_['id'] for p_ in F.params if p_.get('record') == 'OggVorbis_File']
    chk.require(len(hp) == 2, 'ov_crosslap: two handle parameters expected')
    defs = {}       # var id -> list of (node, rhs)
    for e in F.pos:
        nd = F.ex[e]
        if nd['k'] == 'decl':
            for v in nd['vars']:
                if 'id' in v and v.get('init'):
                    defs.setdefault(v['id'], []).append((e, v['init']))
        elif nd['k'] == 'assign' and nd['op'] == '=':
            l = F.ex[F.strip_casts(nd['c'][0])]
            if l['k'] == 'ref' and l['decl'].get('kind') == 'var':
                defs.setdefault(l['decl']['id'], []).append((e, nd['c'][1]))
    memo = {}

    def deps_var(vid, stack=()):
        if vid in hp:
            return {vid}
        if vid in memo:
            return memo[vid]
        if vid in stack:
            return set()
        out = set()
        for (_e, r) in defs.get(vid, []):
            out |= deps(r, stack + (vid,))
        memo[vid] = out
        return out

    def deps(e, stack=()):
        out = set()
        for q in F.walk(e):
            nd = F.ex[q]
            if nd['k'] == 'ref' and nd['decl'].get('kind') in ('var', 'param'):
                out |= deps_var(nd['decl']['id'], stack)
        return out
    n = 0
    for vid, ds in sorted(defs.items()):
        nm = F.vars.get(vid, {}).get('name', '?')
        for k_, (e, r) in enumerate(ds):
            d = deps(r)
            n += 1
            chk.ob('R19.9', F.name, f'definition-of-{nm}#{k_}-uses-one-handle', len(d) <= 1, F.where(e),
                   f'`{F.s(e)[:60]}` depends on {"handle " + str(hp.index(next(iter(d))) + 1) if d else "no handle"}' if len(d) <= 1 else
                   f'`{F.s(e)[:70]}` mixes values of both handles: a per-handle quantity (block size, half-rate shift, window, '
                   'channel count) of one handle is combined with the other handle\'s')
    # calls: a call that takes one handle (or a member of it) must not take values derived from the other
    for c in F.calls():
        args = F.ex[c].get('c', [])
        direct = set()
        for a in args:
            for q in F.walk(a):
                nd = F.ex[q]
                if nd['k'] == 'ref' and nd['decl'].get('id') in hp:
                    direct.add(nd['decl']['id'])
        if len(direct) != 1:
            continue
        h = next(iter(direct))
        other = set()
        for a in args:
            other |= deps(a) - {h}
        n += 1
        chk.ob('R19.9', F.name, f'call-{F.ex[c]["callee"].get("d", "?")}@{F.loc(c)}-uses-one-handle', not other, F.where(c),
               f'`{F.s(c)[:60]}`: all arguments belong to handle {hp.index(h) + 1}' if not other else
               f'`{F.s(c)[:70]}` works on handle {hp.index(h) + 1} but receives a value derived from the other handle')
    return n



def r19_11(chk, P):
    chk.rule('R19.11', 'a lapped seek accepts every position its plain counterpart accepts: the lapped-seek workers refuse a doomed request '
             'before they consume the lapping data, by comparing the position with a bound the caller passes in.  For every call of '
             'such a worker, the bound argument B and the plain seek S handed in are taken; the comparisons between the position '
             'and B that control the worker\'s call of S, and the comparisons between S\'s own position parameter and the same '
             'quantity B that control S\'s success return (followed into the seek S delegates to), must agree on whether the '
             'position B itself is accepted.  `pos>end` and `!(pos<end)` differ for exactly one value -- the end of the stream, '
             'where a player parks the handle')
    EQ = {'<': False, '>': False, '<=': True, '>=': True, '==': True, '!=': False}

    def canon(F, e, defs, depth=0):
        e = F.strip_casts(e)
        nd = F.ex[e]
        k = nd['k']
        if k == 'ref':
            d = nd['decl']
            if d.get('kind') == 'param':
                return 'P%d' % [i for i, p_ in enumerate(F.params) if p_['id'] == d['id']][0]
            if d.get('kind') == 'var' and d['id'] in defs and depth < 3:
                return canon(F, defs[d['id']], defs, depth + 1)
            return d.get('name', '?')
        if k == 'int':
            return str(nd['v'])
        if k == 'member':
            return canon(F, nd['c'][0], defs, depth) + '.' + nd['field']
        if k == 'call':
            return (nd['callee'].get('d') or '?') + '(' + ','.join(canon(F, a, defs, depth) for a in nd.get('c', [])) + ')'
        if k in ('bin', 'un'):
            return nd.get('op', '') + '(' + ','.join(canon(F, c, defs, depth) for c in nd.get('c', []) if c) + ')'
        return F.s(e)

    def accepts_at_bound(F, site, pos_pid, bound_canon, defs):
        """-> list of booleans, one per controlling comparison of `site` between the position parameter and the bound"""
        out = []
        for c, pol in common.atomic_conditions(F, site):
            nd = F.ex[F.strip_casts(c)]
            if nd['k'] != 'bin' or nd['op'] not in EQ:
                continue
            a, b = canon(F, nd['c'][0], defs), canon(F, nd['c'][1], defs)
            pn = 'P%d' % pos_pid
            if {a, b} == {pn, bound_canon}:
                out.append(EQ[nd['op']] == pol)
        return out

    def plain_accepts(S, pos_idx, bound_canon, depth=0):
        defs = common.single_defs(S)
        res = []
        for e in S.nodes('ret'):
            nd = S.ex[e]
            if nd.get('c') and common.const_val(S, nd['c'][0]) == 0:
                res += accepts_at_bound(S, e, pos_idx, bound_canon, defs)
        if res or depth >= 2:
            return res
        # delegation: S hands its position on to another seek
        for c in S.calls():
            d = S.ex[c]['callee'].get('d')
            G = P.get(d, S) if d else None
            if G is None or not G.file.endswith('vorbisfile.c'):
                continue
            for j, a in enumerate(S.ex[c].get('c', [])):
                if canon(S, a, defs) == 'P%d' % pos_idx and j < len(G.params):
                    # the bound is expressed over the handle parameter, which is passed on in the same slot
                    res += plain_accepts(G, j, bound_canon, depth + 1)
        return res
    def plain_bounds(S, pos_idx, depth=0):
        """canonical forms of everything the plain seek compares its position with on the way to a success return"""
        defs = common.single_defs(S)
        out = set()
        pn = 'P%d' % pos_idx
        for e in S.nodes('ret'):
            nd = S.ex[e]
            if nd.get('c') and common.const_val(S, nd['c'][0]) == 0:
                for c, pol in common.atomic_conditions(S, e):
                    cn = S.ex[S.strip_casts(c)]
                    if cn['k'] != 'bin' or cn['op'] not in EQ:
                        continue
                    a, b = canon(S, cn['c'][0], defs), canon(S, cn['c'][1], defs)
                    if a == pn and b != '0' and ('.' in b or '(' in b):
                        out.add(b)
                    elif b == pn and a != '0' and ('.' in a or '(' in a):
                        out.add(a)
        if out or depth >= 2:
            return out
        for c in S.calls():
            d = S.ex[c]['callee'].get('d')
            G = P.get(d, S) if d else None
            if G is None or not G.file.endswith('vorbisfile.c'):
                continue
            for j, a in enumerate(S.ex[c].get('c', [])):
                if canon(S, a, defs) == pn and j < len(G.params):
                    out |= plain_bounds(G, j, depth + 1)
        return out
    n = 0
    for H in P.functions():
        if not H.file.endswith('vorbisfile.c') or H.entry is None:
            continue
        fparams = [i for i, p_ in enumerate(H.params) if '(*)' in p_['t']]
        if len(fparams) != 1 or len(H.params) < 4:
            continue
        fi = fparams[0]
        calls_fp = [c for c in H.calls() if H.ex[c]['callee'].get('param') == H.params[fi]['id']]
        if not calls_fp:
            continue
        hdefs = common.single_defs(H)
        # which parameter travels to the seek as its position, and which is compared with it
        site = calls_fp[0]
        args = H.ex[site].get('c', [])
        if len(args) < 2:
            continue
        pos_c = canon(H, args[1], hdefs)
        if not pos_c.startswith('P'):
            continue
        pos_idx = int(pos_c[1:])
        for G in P.functions():
            for c in G.calls(H.name):
                if P.key(H) not in P.call_targets(G, c):
                    continue
                cargs = G.ex[c].get('c', [])
                Sn = G.ex[G.strip_casts(cargs[fi])] if fi < len(cargs) else None
                S = P.get(Sn['decl']['name'], G) if Sn is not None and Sn['k'] == 'ref' else None
                if S is None:
                    continue
                gdefs = common.single_defs(G)
                for bi, p_ in enumerate(H.params):
                    if bi in (0, pos_idx, fi) or bi >= len(cargs):
                        continue
                    mine = accepts_at_bound(H, site, pos_idx, 'P%d' % bi, hdefs)
                    if not mine:
                        continue
                    bound = canon(G, cargs[bi], gdefs)
                    theirs = plain_accepts(S, 1, bound)
                    n += 1
                    if not theirs:
                        others = plain_bounds(S, 1)
                        if others:
                            chk.ob('R19.11', G.name, f'bound-agrees-with:{S.name}', False, G.where(c),
                                   f'{H.name} refuses positions beyond `{G.s(cargs[bi])}`, but {S.name} validates its position against '
                                   f'{sorted(others)} and never against that quantity: the lapped seek and its plain counterpart '
                                   'disagree for the positions between the two bounds')
                            continue
                        chk.assumed('R19.11', G.name, f'bound-agrees-with:{S.name}', G.where(c),
                                    f'{S.name} has no comparison of its position with `{G.s(cargs[bi])}` on its success path (it finds the '
                                    'range by a search); the early test is then only required not to precede... nothing to compare')
                        continue
                    ok = all(m == t for m in mine for t in theirs)
                    chk.ob('R19.11', G.name, f'bound-agrees-with:{S.name}', ok, G.where(c),
                           f'position == `{G.s(cargs[bi])}`: {H.name} accepts it: {mine}, {S.name} accepts it: {theirs}' +
                           ('' if ok else f' -- the lapped seek refuses (or admits) the one position where they differ: a seek to exactly '
                            'the end of the stream succeeds plainly and fails lapped'))
    return n


def r19_13(chk, P, rule='R19.13'):
    chk.rule(rule, 'a lapped time seek accepts exactly the times its plain counterparts accept: ov_time_seek, ov_time_seek_page and the '
             'lapped time-seek worker (the file-local function that takes a time and a time-seek function pointer) are interpreted '
             '(K4) on an open seekable single-link handle whose total time is the constant T, at the three times T-1/2, T and T+1.  '
             'A plain seek accepts a time when one of its returns may be non-negative; the worker accepts it when its call of the '
             'plain seek is reachable.  The three answers must agree pairwise -- the bound itself (a player parking the handle at '
             'the end) is where `t<total` and `t<=total` part')
    import absint
    from absint import V, K
    T = 10.0
    worker = None
    for H in P.functions():
        if H.file.endswith('vorbisfile.c') and H.entry is not None and len(H.params) == 3 and H.params[1]['t'].strip() == 'double' \
                and '(*)' in H.params[2]['t']:
            worker = H
    chk.require(worker is not None, 'the lapped time-seek worker (handle, double, seek function pointer) was not found')
    plains = [P.need('ov_time_seek'), P.need('ov_time_seek_page')]

    depth = [0]

    class H_(absint.Hooks):
        def on_call(self, A, env, e, avals):
            d = A.ex[e]['callee'].get('d')
            if d == 'ov_time_total':
                return V(T, T)
            # a file-local helper that receives the handle and the time (the rejection may live there): its return range in the
            # same constant context, one level deep
            G = P.get(d, A.F) if d else None
            if G is not None and G.static and G.entry is not None and G.file.endswith('vorbisfile.c') and depth[0] < 2 and \
                    len(G.params) >= 2 and 'OggVorbis_File' in G.params[0]['t'] and \
                    any(p_['t'].strip() == 'double' for p_ in G.params) and len(avals) == len(G.params):
                pin = {}
                for p_, av in zip(G.params, avals):
                    if p_['t'].strip() == 'double' and isinstance(av, V) and av.const() is not None:
                        pin[p_['name']] = av
                if pin:
                    depth[0] += 1
                    try:
                        A2 = absint.Analyzer(P, G, hooks=H_(), param_init=pin, unroll=4)
                        base2 = A2.initial_env
                        pid2 = G.params[0]['id']

                        def init2():
                            env2 = base2()
                            env2[f'v{pid2}'] = V(nn=True)
                            env2[f'v{pid2}->ready_state'] = K(2)
                            env2[f'v{pid2}->seekable'] = K(1)
                            env2[f'v{pid2}->links'] = K(1)
                            return env2
                        A2.initial_env = init2
                        A2.run()
                    finally:
                        depth[0] -= 1
                    r = None
                    for (_, _, v2) in A2.ret_states:
                        if v2 is None:
                            return None
                        r = v2 if r is None else absint.join(r, v2)
                    return r
            return None

        def join_special(self, k, a, b):
            return a if a == b else None

    def run_at(F, t):
        A = absint.Analyzer(P, F, hooks=H_(), param_init={F.params[1]['name']: V(t, t)}, unroll=4)
        base = A.initial_env
        pid = F.params[0]['id']

        def init():
            env = base()
            env[f'v{pid}'] = V(nn=True)
            env[f'v{pid}->ready_state'] = K(2)
            env[f'v{pid}->seekable'] = K(1)
            env[f'v{pid}->links'] = K(1)
            return env
        A.initial_env = init
        seen = set()

        def obs(A_, env, e, v):
            nd = A_.ex[e]
            if nd['k'] == 'call' and nd['callee'].get('param') is not None:
                seen.add(e)
        A.observers.append(obs)
        A.run()
        return A, seen
    n = 0
    for t, what in ((T - 0.5, 'inside'), (T, 'the-total-itself'), (T + 1, 'beyond')):
        ans = {}
        for F in plains:
            A, _ = run_at(F, t)
            chk.require(A.ret_states, f'{F.name}: no return reached at time {t}')
            ans[F.name] = any(v is None or v.hi >= 0 for (e, env, v) in A.ret_states)
        A, seen = run_at(worker, t)
        ans[worker.name] = bool(seen)
        ok = len(set(ans.values())) == 1
        chk.ob(rule, worker.name, f'time-{what}:lapped-and-plain-agree', ok, worker.where(),
               f'total time {T}, request {t}: accepted by ' + ', '.join(f'{k_}: {v_}' for k_, v_ in sorted(ans.items())))
        n += 1
    return n


def r19_12(chk, P, rule='R19.12'):
    chk.rule(rule, 'the first page of the next link is never dropped: in vorbisfile.c, once a page fetched in the same function has been '
             'recognised as the beginning of a logical stream (true edge of ogg_page_bos on it), no end-of-file return (OV_EOF) is reachable before the '
             'page was submitted (ogg_stream_pagein), handed to the header fetch, or the input was repositioned (_seek_helper) -- '
             'except on a handle tested to be non-seekable, which cannot go back.  The lapped seeks and ov_crosslap stop at a link '
             'boundary (span flag 0) and answer OV_EOF; with the page gone every later read takes the rest of that link for a '
             'foreign multiplexed stream and skips it')
    n = 0
    # the obligation ends when the page is kept -- or when the next page is fetched into the object (a page the function decided to
    # skip as foreign and read past is not the case described here)
    KEEP = {'ogg_stream_pagein', '_seek_helper', '_fetch_headers', 'ogg_sync_reset', '_get_next_page', '_get_prev_page', '_get_prev_page_serial'}
    for F in P.functions():
        if not F.file.endswith('vorbisfile.c') or F.entry is None:
            continue
        fetched = set()
        for c in F.calls():
            if F.ex[c]['callee'].get('d') in ('_get_next_page', '_get_prev_page', '_get_prev_page_serial') and len(F.ex[c]['c']) > 1:
                a = F.ex[F.strip_casts(F.ex[c]['c'][1])]
                if a['k'] == 'un' and a['op'] == '&':
                    t = F.ex[F.strip_casts(a['c'][0])]
                    if t['k'] == 'ref' and t['decl'].get('kind') == 'var':
                        fetched.add(t['decl']['id'])
        if not fetched:
            continue
        k = 0
        for b, blk in sorted(F.blocks.items()):
            t = blk.get('term') or {}
            c = t.get('cond')
            if c is None or len(blk['succs']) != 2:
                continue
            cn = F.ex[F.strip_casts(c)]
            pol = True
            while cn['k'] == 'un' and cn['op'] == '!':
                pol = not pol
                cn = F.ex[F.strip_casts(cn['c'][0])]
            if cn['k'] != 'call' or cn['callee'].get('d') != 'ogg_page_bos':
                continue
            a = F.ex[F.strip_casts(cn['c'][0])]
            if not (a['k'] == 'un' and a['op'] == '&' and F.ex[F.strip_casts(a['c'][0])].get('decl', {}).get('id') in fetched):
                continue
            start = blk['succs'][0 if pol else 1]
            if start is None:
                continue

            def seekable_false(bb, si):
                tb = F.blocks[bb].get('term') or {}
                cc = tb.get('cond')
                if cc is None or len(F.blocks[bb]['succs']) != 2:
                    return True
                cx = F.ex[F.strip_casts(cc)]
                neg = False
                while cx['k'] == 'un' and cx['op'] == '!':
                    neg = not neg
                    cx = F.ex[F.strip_casts(cx['c'][0])]
                if cx['k'] == 'member' and cx['field'] == 'seekable':
                    taken_true = (si == 0) != neg
                    return taken_true          # the edge on which the handle is NOT seekable is not followed
                return True

            def is_ret(q):
                # the end-of-file answer (OV_EOF): "nothing more here, carry on" -- an error return tells the caller to re-seek
                qn = F.ex[q]
                return qn['k'] == 'ret' and bool(qn.get('c')) and common.const_val(F, qn['c'][0]) == -2

            def keeps(q):
                qn = F.ex[q]
                return qn['k'] == 'call' and qn['callee'].get('d') in KEEP
            bad = cfg.search(F, (start, -1), is_ret, keeps, edge_ok=seekable_false)
            n += 1
            chk.ob(rule, F.name, f'first-page-of-a-link-kept#{k}', bad is None, F.where(c),
                   'every path from the recognised first page to a return submits it, hands it to the header fetch or repositions the input'
                   if bad is None else
                   'a return is reachable with the first page of the next link consumed from the input and neither submitted nor put '
                   'back: the caller that reads on loses that whole link', path=cfg.block_lines(F, bad) if bad else None)
            k += 1
    return n

def run(chk, P):
    r19_7(chk, P)
    chk.floor('R19.7', 2)
    r19_8(chk, P)
    chk.floor('R19.8', 3)
    r19_9(chk, P)
    chk.floor('R19.9', 8)
    r19_11(chk, P)
    chk.floor('R19.11', 3)
    r19_12(chk, P)
    r19_13(chk, P)
    chk.floor('R19.13', 3)
    chk.floor('R19.12', 1)
    from rules import c07
    import k3
    E = getattr(P, '_effects', None) or k3.Effects(P)
    P._effects = E
    chk.rule('R19.10', 'the lapped seeks take the second set of lapping parameters (channel count, block size, window) from the link '
             'the seek landed in: no value derived from the current link before the seek is used after it without being '
             'recomputed (same obligations as R07.6, in the lapped seek workers and ov_crosslap)')
    c07.r07_6(common.Proxy(chk, 'R19.10'), P, E, rule='R19.10', only={'_ov_64_seek_lap', '_ov_d_seek_lap', 'ov_crosslap', '_ov_getlap', '_ov_initset', '_ov_initprime'})
    chk.floor('R19.10', 2)
    r19_6(chk, P)
    chk.floor('R19.6', 4)
    r19_5(chk, P)
    chk.floor('R19.5', 1)
    r19_1(chk, P)
    chk.floor('R19.1', 5)
    r19_2_3(chk, P)
    chk.floor('R19.2', 4)
    chk.floor('R19.3', 2)
    r19_4(chk, P)
    chk.floor('R19.4', 3)
    chk.trusted += ['clang 14 front end', 'symbolic upper bounds of the K4 domain (i < n, n <= n1, n <= n2 closed transitively)']
    return ('Sibling, order and range rules over the lap entry points and helpers decide that a lapped seek is its plain '
            'counterpart plus a splice confined to min(n1,n2) samples, performed after collecting, seeking and priming in that '
            'order, with failures handed up unchanged. Does not decide the cross-fade values nor bit-identity after the region.')
