"""K9 — error discipline: is the result of a call observed (returned, tested, or stored and tested before being
overwritten)?  Structural def-use over the CFG facts."""
import cfg
import k8


def _cond_ids(F):
    if not hasattr(F, '_condids'):
        s = set()
        for b in F.blocks.values():
            t = b.get('term')
            if t and t.get('cond'):
                s.add(t['cond'])
        F._condids = s
    return F._condids


def in_test_context(F, n):
    """is node n (its value) consumed by a branch decision or a return? climbs through value-preserving parents"""
    conds = _cond_ids(F)
    cur = n
    while True:
        if cur in conds:
            return 'tested'
        p = F.sparent.get(cur)
        if p is None:
            return None
        pn = F.ex[p]
        k = pn['k']
        if k == 'ret':
            return 'returned'
        if k == 'cast' or (k == 'un' and pn['op'] in ('!', '-', '+')):
            cur = p
            continue
        if k == 'bin':
            cur = p
            continue
        if k == 'cond':
            if pn['c'][0] == cur:
                return 'tested'
            cur = p
            continue
        if k == 'assign' and pn['c'][1] == cur:
            # the assignment expression's own value may be tested: if((ret=f())<0)
            r = in_test_context(F, p)
            if r:
                return r
            return None
        return None


def stored_into(F, n):
    """lvalue expr id the value of n is assigned to (through casts / arithmetic / chained assignment), or ('decl', var id)"""
    cur = n
    while True:
        p = F.sparent.get(cur)
        if p is None:
            return None
        pn = F.ex[p]
        if pn['k'] in ('cast',) or (pn['k'] == 'bin' and pn['op'] in ('+', '-', '*', '|', '&')):
            cur = p
            continue
        if pn['k'] == 'cond' and pn['c'][0] != cur:
            cur = p
            continue
        if pn['k'] == 'assign' and pn['c'][1] == cur:
            return ('lv', pn['c'][0], p)
        if pn['k'] == 'decl':
            for v in pn['vars']:
                if v.get('init') and (v['init'] == cur or cur in set(F.walk(v['init']))):
                    return ('var', v.get('id'), p)
        return None


def observe(P, F, c):
    """-> (status, detail) for call node c; status in returned/tested/stored-tested/stored-untested/discarded"""
    r = in_test_context(F, c)
    if r:
        return r, ''
    st = stored_into(F, c)
    if st is None:
        return 'discarded', f'`{F.s(c)[:70]}`: result not used'
    sk = k8.Skel(P, 'r')
    if st[0] == 'var':
        vid = st[1]
        name = F.vars.get(vid, {}).get('name', '?')

        def same(n):
            nd = F.ex[n]
            return nd['k'] == 'ref' and nd['decl'].get('id') == vid
    else:
        lv = F.strip_casts(st[1])
        name = F.s(lv)
        canon = F.s(lv)

        def same(n):
            nd = F.ex[n]
            return nd['k'] in ('ref', 'member', 'sub') and F.s(n) == canon
    start = st[2]
    # a chained assignment a=b=f(): any of the targets may be the one tested
    chain = [start]
    p = F.sparent.get(start)
    while p is not None and F.ex[p]['k'] == 'assign' and F.ex[p]['c'][1] == chain[-1]:
        chain.append(p)
        p = F.sparent.get(p)
    names = []
    for a in chain:
        if F.ex[a]['k'] == 'assign':
            names.append(F.s(F.strip_casts(F.ex[a]['c'][0])))
    if st[0] == 'lv' and len(names) > 1:
        nm = set(names)

        def same(n):       # noqa: F811
            nd = F.ex[n]
            return nd['k'] in ('ref', 'member', 'sub') and F.s(n) in nm

    def is_test_use(n):
        if not same(n):
            return False
        p_ = F.sparent.get(n)
        if p_ is not None and F.ex[p_]['k'] == 'assign' and F.strip_casts(F.ex[p_]['c'][0]) == n and F.ex[p_]['op'] == '=':
            return False
        return in_test_context(F, n) is not None

    def is_redef(n):
        nd = F.ex[n]
        if nd['k'] == 'assign' and nd['op'] == '=' and n not in chain:
            return same(F.strip_casts(nd['c'][0]))
        return False
    # is there a path from the definition to the function exit / a redefinition that never tests the value?
    bad = cfg.reaches_exit_avoiding(F, F.pos[start], lambda n: is_test_use(n))
    if bad is None:
        bad = cfg.search(F, F.pos[start], is_redef, lambda n: is_test_use(n))
    if bad is None:
        return 'stored-tested', name
    return 'stored-untested', f'stored into `{name}` but a path leaves without testing it: {cfg.block_lines(F, bad)}'


def error_carrying(P, keys):
    """subset of function keys whose integer return value can carry a failure: some return statement yields a negative
    constant, the result of another error-carrying function, or a variable that is assigned one of those"""
    carry = set()
    changed = True
    while changed:
        changed = False
        for k in keys:
            if k in carry:
                continue
            F = P.fn[k]
            if F.d['ret_t'] in ('void',) or F.d['ret_t'].endswith('*'):
                continue

            def neg_src(e, depth=0):
                e = F.strip_casts(e)
                nd = F.ex[e]
                if nd['k'] == 'int':
                    return nd['v'] < 0
                if nd['k'] == 'call':
                    return any(t in carry or t.startswith('cb:') for t in P.call_targets(F, e))
                if nd['k'] == 'cond':
                    return neg_src(nd['c'][1], depth) or neg_src(nd['c'][2], depth)
                if nd['k'] == 'ref' and nd['decl']['kind'] in ('var', 'param') and depth < 2:
                    vid = nd['decl']['id']
                    for n in F.pos:
                        x = F.ex[n]
                        if x['k'] == 'assign' and x['op'] == '=':
                            l = F.ex[F.strip_casts(x['c'][0])]
                            if l['k'] == 'ref' and l['decl'].get('id') == vid and neg_src(x['c'][1], depth + 1):
                                return True
                        elif x['k'] == 'decl':
                            for v in x['vars']:
                                if v.get('id') == vid and v.get('init') and neg_src(v['init'], depth + 1):
                                    return True
                return False
            for n in F.pos:
                nd = F.ex[n]
                if nd['k'] == 'ret' and nd.get('c') and neg_src(nd['c'][0]):
                    carry.add(k)
                    changed = True
                    break
    return carry


def only_error_returns_follow(F, c):
    """from call node c every path reaches only returns of a negative constant (the error is already being reported)"""
    def is_ret(n):
        return F.ex[n]['k'] == 'ret'
    bad = False
    # search for a return that is not a negative constant, reachable from c
    def nonneg_ret(n):
        nd = F.ex[n]
        if nd['k'] != 'ret':
            return False
        if not nd.get('c'):
            return True
        v = F.ex[F.strip_casts(nd['c'][0])]
        return not (v['k'] == 'int' and v['v'] < 0)
    p = cfg.search(F, F.pos[c], nonneg_ret, lambda n: F.ex[n]['k'] == 'ret' and not nonneg_ret(n))
    return p is None
